"""C10 - event loop priorities are weak: no level is ever starved (lib/loop.c, loop_job.c).
See DESIGN.md section 5.1 / C10 and vlib/loop.py.

Stages: generated workloads (self-re-adding jobs, always-ready descriptors, zero-delay timers at the three
priorities, in random proportions; plus general histories without signals) -> real loop under ASan with a
virtual kernel (h_loop) -> log; the same script -> extracted Gallina model -> log; line diff; plus the
independent Python monitor vlib.loop.monitor_c10 that states the property over the implementation's log."""
from vlib import common as C
from vlib import loop as L

ID = "C10"


def prebuild():
    L.prebuild()


def corpus():
    """Hand-made boundary cases (run first, every time)."""
    readd = lambda key, p, n: ["beh %d %d 0 : ja %d %d" % (key, i, p, key) for i in range(n)]
    cases = []
    # saturating HIGH and MED re-adding jobs, one LOW job waiting: it runs in the third turn
    cases.append(sum([readd(k, 2, 40) for k in range(1, 7)], []) + sum([readd(k, 1, 40) for k in range(11, 14)], []) +
                 ["op ja 2 %d" % k for k in range(1, 7)] + ["op ja 1 %d" % k for k in range(11, 14)] + ["op ja 0 21"] +
                 ["run " + " | ".join(["1000 0"] * 9)])
    # more than to_process items at one level: quota, leftover makes the next wait non-blocking
    cases.append(["op ja 1 %d" % k for k in range(1, 12)] + ["op ja 0 50", "op ja 2 60"] + ["run " + " | ".join(["1000 0"] * 12)])
    # always-ready descriptors at HIGH, zero-delay timers at MED re-armed from the callback, LOW job and LOW timer
    cases.append(["beh %d %d 0 : ta 1 %d 30 %d" % (30, i, 7 + i, 10 + i) for i in range(30)] +
                 ["op pa 2 100 1 1", "op pa 2 101 1 2", "op pa 2 102 1 3", "op pa 2 103 1 4", "op pa 2 104 1 5",
                  "op ta 1 1 30 0", "op ja 0 40", "op ta 0 3 41 1"] +
                 ["run " + " | ".join(["1000 0 r 100:1 101:1 102:1 103:1 104:1"] * 10)])
    # stop from a HIGH callback in the turn that would have served LOW; second run starts the rotation again
    cases.append(["beh 1 0 0 : stop", "op ja 0 9", "op ja 1 8", "run 1000 0 | 1000 0", "op ja 2 1", "run 1000 0 | 1000 0 | 1000 0 | 1000 0"])
    # only new jobs: the 50 ms throttle; nothing at all: timer-derived / infinite timeout
    cases.append(["op ja 0 1", "run 0 0 | 0 0 | 0 0 | 0 0", "op ta 2 5000000 2 0", "run 1000000 0 | 1000000 0 | 10000000 0 | 0 0"])
    # more than MAX_EVENTS ready descriptors at once at LOW, HIGH saturated by jobs
    cases.append(sum([readd(k, 2, 30) for k in range(1, 6)], []) + ["op ja 2 %d" % k for k in range(1, 6)] +
                 ["op pa 0 %d 1 %d" % (100 + i, 100 + i) for i in range(15)] +
                 ["run " + " | ".join(["1000 0 r " + " ".join("%d:1" % (100 + i) for i in range(15))] * 7)])
    return cases


def judge(impl, mod, to_process):
    """-> (kind, what, detail) or None"""
    lines, crash = impl
    if crash:
        return ("impl-monitor", "implementation crashed / sanitizer report (rc=%s)" % crash[0], crash[1][-1500:])
    m = L.monitor_c10(lines, to_process)
    d = L.compare(lines, mod[0])
    if m:
        return ("impl-monitor", m, {"first_model_difference": d})
    if mod[1]:
        return ("correspondence", "model runner failed", mod[1][1])
    if d:
        return ("correspondence", "observable %d differs: impl %r model %r" % d, {"first_difference": d})
    return None


def run(ctx):
    res = C.Result()
    exe, model = L.build(ID)
    tp = L.consts().get("LOOP_TO_PROCESS", L.TO_PROCESS_FALLBACK)
    rng = ctx.rng
    thorough = ctx.tier == "thorough" or not ctx.proof_ok
    nwork = 4000 if thorough else 500
    ngen = 12000 if thorough else 1500
    cases = corpus()
    kinds = {"corpus": len(cases), "workload": nwork, "general_no_signals": ngen}
    for i in range(nwork):
        cases.append(L.gen_workload(rng, turns=(rng.choice([60, 120]) if thorough and i % 40 == 0 else None)))
    for i in range(ngen):
        cases.append(L.gen_general(rng, size=3, sigs=False, dupfd=False))
    impl, mod = L.execute(cases, exe, model)
    ncb = nturn = starv_windows = 0
    timeouts = {}
    for ci, case in enumerate(cases):
        lines = impl[ci][0]
        cbs = sum(1 for l in lines if l.startswith("cb "))
        ws = [l for l in lines if l.startswith("w ")]
        ncb += cbs
        nturn += len(ws)
        for l in ws:
            t = l.split()[1]
            timeouts[t if t in ("0", "50", "-1") else "timer"] = timeouts.get(t if t in ("0", "50", "-1") else "timer", 0) + 1
        res.add_case(tuple(case), cbs >= 3 and len(ws) >= 3)
        v = judge(impl[ci], mod[ci], tp)
        if v is None:
            res.traces_validated += 1
            continue
        kind, what, detail = v

        def fails(sub):
            im, mo = L.execute([sub], exe, model)
            j = judge(im[0], mo[0], tp)
            return j is not None and j[0] == kind
        small = C.shrink_list(case, fails, budget=60) if len(res.violations) < 3 else case
        im, mo = L.execute([small], exe, model)
        j = judge(im[0], mo[0], tp) or v
        res.violation(j[0], j[1], {"script": small, "shrunk_from_lines": len(case), "impl_out": im[0][0][-200:],
                                   "model_out": mo[0][0][-200:], "detail": j[2],
                                   "replay_cmd": "./check C10 --replay <this file>"})
        if len(res.violations) >= 8:
            break
    res.rule = ("scripts for the real loop with a virtual kernel: hand-made corpus, then workloads (self-re-adding jobs, "
                "always-ready descriptors, zero-delay timers re-armed from their callbacks at the three priorities in random "
                "proportions, one lone item at a random level, 6-120 turns), then general histories without signals and without a second poll_add of a descriptor already added (C08's subject) "
                "(adds/mods/deletes from outside and inside callbacks); a case is non-trivial when it has >= 3 turns and "
                ">= 3 callback invocations; distinct = distinct scripts")
    res.samples = [{"script": c[-6:]} for c in cases[:2] + cases[len(corpus()):len(corpus()) + 1]]
    res.extra = {"case_kinds": kinds, "callback_invocations": ncb, "loop_turns": nturn, "epoll_timeouts_seen": timeouts,
                 "to_process": tp,
                 "monitor": "independent Python statement of C10 over the implementation log (vlib/loop.py: monitor_c10): "
                            "cut-off per turn, quota per level, no starvation over 3 turns, no sleeping on pending work"}
    res.assumptions = ["the kernel side of epoll, the clock and random() are virtual (wrapped): at most MAX_EVENTS ready "
                       "descriptors are reported per turn in script order; which ones a real kernel reports is outside the model",
                       "timer heap abstracted to a set with pop-min (generators never produce equal expiries; the heap is C09's)",
                       "single-threaded use; malloc does not fail"]
    return res


def replay(ctx, payload):
    exe, model = L.build(ID)
    tp = L.consts().get("LOOP_TO_PROCESS", L.TO_PROCESS_FALLBACK)
    case = payload["script"]
    im, mo = L.execute([case], exe, model)
    j = judge(im[0], mo[0], tp)
    print("impl :", im[0][0][-60:])
    print("model:", L.strip_ti(mo[0][0])[-60:])
    if j:
        print("VIOLATION property=%s replay=%s" % (ID, "<replayed>"))
        print("DETAIL: %s: %s" % (j[0], j[1]))
        return 1
    print("replay: property holds on this script now")
    return 0
