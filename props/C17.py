"""TEMPORARY stand-alone plugin of builder maptrie (trie part only).  At merge take builder maphs' props/C17.py,
which calls vlib.maptrie.run_c17(ctx, res) next to the hashtable / skiplist parts."""
from vlib import common as C, maptrie
ID = "C17"
EXTRA_COQ_TARGETS = ["Extract_C17T"]
def prebuild():
    maptrie.prebuild()
def run(ctx):
    res = C.Result()
    maptrie.run_c17(ctx, res)
    return res
def replay(ctx, payload):
    return maptrie.replay(ctx, payload)
