"""C17 - maps behave like a dictionary; notifiers fire exactly once (hashtable + skiplist here; the trie part
is vlib/maptrie.py when present).  See DESIGN.md 5.3 / C17 and vlib/maphs.py."""
from vlib import common as C
from vlib import maphs
try:
    from vlib import maptrie
except ImportError:
    maptrie = None

ID = "C17"
# the trie part extracts its own model (Extract_C17T) when vlib/maptrie.py is present
EXTRA_COQ_TARGETS = ["Extract_C17T"] if maptrie else []
KINDS = ["h", "s"]


def prebuild():
    maphs.build()
    if maptrie and hasattr(maptrie, "prebuild"):
        maptrie.prebuild()


def cases(ctx):
    rng = ctx.rng
    thorough = ctx.tier == "thorough" or not ctx.proof_ok
    n = 2500 if thorough else 300
    out = []
    for kind in KINDS:
        for c in maphs.corpus(kind):
            # C17 histories have no caller-held iterators
            if not any(l[0] in "INX" for l in c):
                out.append(("corpus-" + kind, c))
    vc = [100]
    for i in range(n):
        kind = KINDS[i % len(KINDS)]
        n_ops = rng.choice([6, 12, 25, 50]) if i % 40 else 300
        out.append(("random-" + kind, maphs.gen_c17(rng, kind, n_ops, vc)))
    return out


RULE = ("scripts over put/get/rm/count/foreach (complete or abandoned at the n-th callback)/notify add/del/del_2/destroy "
        "on a hashtable (bucket counts 8..128) and a skiplist; keys from the alphabet {a,b,c,0x80,0xff} with lengths 0-6 plus "
        "300-byte keys, small pools so that replacement, removal of absent keys and bucket collisions are frequent; "
        "a case is non-trivial when it makes >= 4 API calls; distinct = distinct scripts")


def run(ctx):
    res = C.Result()
    maphs.run_property(ID, ctx, res, cases(ctx), True, RULE)
    res.assumptions = [
        "random() is an oracle (wrapped by the harness, answers fed to the model)",
        "notifier / traversal callbacks only log (no re-entrant map calls)",
        "keys are NUL-terminated byte strings compared by content; values are opaque non-NULL pointers",
        "qb_hashtable_create(max_size < 2^31); count < 2^64; refcount < 2^32",
    ]
    if maptrie:
        maptrie.run_c17(ctx, res)
    return res


def replay(ctx, payload):
    if maptrie and payload.get("container") == "trie":
        return maptrie.replay(ctx, payload)
    return maphs.replay(ID, payload)
