"""C16 - threaded logging (lib/log_thread.c, lib/log.c).  See DESIGN.md section 5.2 / C16 and vlib/logthr.py."""
from vlib import common as C
from vlib import logthr as L

ID = "C16"


def prebuild():
    L.build_seq()


def run(ctx):
    res = C.Result()
    thorough = ctx.tier == "thorough" or not ctx.proof_ok
    rule, samples = L.run_seq(ctx, res, thorough)
    res.rule = rule
    res.samples = samples
    res.extra["monitor"] = ("independent Python statements of C16 over the implementation log (vlib/logthr.py: "
                            "seq_monitor): no crash / sanitizer report, each log call written exactly once to every "
                            "enabled target and to no other")
    res.assumptions = ["sequential part: between two API calls the worker thread is quiescent (the harness waits until "
                       "the queue is empty before the next call)",
                       "allocation failures and pthread_create / sem_init failures are not exercised or modelled",
                       "every open target selects every call site (catch-all filter; routing is C12's subject)"]
    return res


def replay(ctx, payload):
    return L.replay_seq(ctx, payload)
