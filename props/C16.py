"""C16 - threaded logging (lib/log_thread.c, lib/log.c).  See DESIGN.md section 5.2 / C16 and vlib/logthr.py."""
from vlib import common as C
from vlib import logthr as L

ID = "C16"


KNOWN_GUARD = "C16-in-logger-global"


def prebuild():
    L.build_seq()
    L.build_conc()


def run(ctx):
    res = C.Result()
    thorough = ctx.tier == "thorough" or not ctx.proof_ok
    rule, samples = L.run_seq(ctx, res, thorough)
    crule, csamples, guard_losses = L.run_conc(ctx, res, thorough)
    # log calls turned away by a process-wide in_logger guard are violations (repaired by fixes/C16-5; the monitor
    # names them); the count is kept in the evidence
    res.extra["conc_in_logger_guard_losses"] = guard_losses
    res.rule = rule + "; " + crule
    res.samples = samples + csamples
    try:
        _, problems = C.gen_src()
    except Exception as e:                      # the proof stage reports a broken translation; this is evidence only
        problems = {"logthr": [("c2coq", str(e))]}
    res.extra["src_tie"] = {
        "translated_and_proved_equal": ["qb_log_thread_log_post", "qb_log_thread_pause", "qb_log_thread_resume",
                                        "qb_log_thread_start"],
        "outside_the_translator_subset": [list(x) for x in problems.get("logthr", [])],
        "theorems": "coq/PropertiesSrc_C16.v",
        "note": "lock/unlock/sem_post/list_add_tail/log_write/malloc/strlen are oracle calls: their number per path is "
                "tied, their order is checked by the schedule-controlled correspondence run only"}
    res.extra["monitor"] = ("independent Python statements of C16 over the implementation log (vlib/logthr.py: "
                            "seq_monitor): no crash / sanitizer report, each log call written exactly once to every "
                            "enabled target and to no other; conc_monitor: termination, no close callback during a logger "
                            "callback, at most once, per-producer order, everything queued written or reported lost when "
                            "qb_log_fini has returned)")
    res.assumptions = ["sequential part: between two API calls the worker thread is quiescent (the harness waits until "
                       "the queue is empty before the next call)",
                       "allocation failures and pthread_create / sem_init failures are not exercised or modelled",
                       "every open target selects every call site (catch-all filter; routing is C12's subject)",
                       "concurrent part: sequential consistency at the granularity of synchronisation operations (lock-"
                       "protected sections are atomic; the harness checks with tsan instrumentation that the statics of "
                       "log_thread.c are only touched under the lock); producers are joined before qb_log_fini"]
    return res


def replay(ctx, payload):
    if payload.get("part") == "concurrent":
        return L.replay_conc(ctx, payload)
    return L.replay_seq(ctx, payload)
