"""C09 - timers never fire early / expiry order / poll timeout never past the next expiry, never indefinite /
queries agree.  See DESIGN.md section 5.1 + C09.

Stages: generated scripts -> real loop_timerlist.c + tlist.h + loop.c + loop_job.c + util.c under ASan/UBSan with a
virtual CLOCK_MONOTONIC and a wrapped epoll_wait (harness/h_looptimer.c) -> log; the extracted Gallina models
(HeapModel.v, LoopTimerModel.v with the repairs of fixes/C09-*.patch) run the same scripts -> line diff; plus an
independent Python monitor (vlib/looptimer.py) that states the property over the implementation's log."""
from vlib import common as C
from vlib import looptimer as L

ID = "C09"
LDFLAGS = ["-Wl,--wrap=clock_gettime,--wrap=clock_getres,--wrap=epoll_wait,--wrap=random"]


def build():
    lib = C.build_lib()
    exe = C.build_harness("h_looptimer", ["h_looptimer.c"], lib=lib, ldflags=LDFLAGS)
    return exe


def prebuild():
    build()


def execute(cases, exe, model):
    texts = ["\n".join(c) + "\n" for c in cases]
    impl = C.run_cases(exe, texts, timeout=900)
    mod = C.run_cases(model, texts, timeout=900)
    return impl, mod


def judge(impl, mod):
    """-> (kind, what, detail) or None"""
    lines, crash = impl
    if crash:
        return ("impl-monitor", "implementation crashed / sanitizer report (rc=%s)" % crash[0], crash[1][-1500:])
    m = L.monitor(lines)
    ilines = [L.norm(l) for l in L.strip_monitor_lines(lines)]
    mlines = [L.norm(l) for l in mod[0]]
    d = C.first_diff(ilines, mlines)
    if m:
        return ("impl-monitor", m, {"first_model_difference": d})
    if mod[1]:
        return ("correspondence", "model runner failed", mod[1][1])
    if d:
        return ("correspondence", "observable %d differs: impl %r model %r" % d, {"first_difference": d})
    return None


def shrink(case, kind, exe, model):
    head = [l for l in case if l.startswith("I ")][:1]

    def fails(sub):
        sub = head + [l for l in sub if not l.startswith("I ")]
        im, mo = execute([sub], exe, model)
        j = judge(im[0], mo[0])
        return j is not None and j[0] == kind
    body = [l for l in case if not l.startswith("I ")]
    small = C.shrink_list(body, fails, budget=80)
    return head + small


def run(ctx):
    res = C.Result()
    exe = build()
    model = C.build_model(ID)
    rng = ctx.rng
    thorough = ctx.tier == "thorough" or not ctx.proof_ok
    g = L.Gen(rng)
    cases = L.corpus()
    n_corpus = len(cases)
    n_loop = 2500 if thorough else 260
    n_unit = 1500 if thorough else 160
    for i in range(n_loop):
        cases.append(g.loop_case(rng.choice([3, 6, 10, 18, 30]) if i % 25 else 120))
    for i in range(n_unit):
        cases.append(g.unit_case(rng.choice([5, 12, 30, 80]) if i % 40 else 600))
    impl, mod = execute(cases, exe, model)
    stats = {"callbacks": 0, "polls": 0, "poll_timeout_clamped_int32max": 0, "poll_timeout_50": 0, "poll_timeout_0": 0,
             "poll_timeout_negative": 0, "heap_ops": 0, "heap_max_size": 0, "queries": 0}
    for ci, case in enumerate(cases):
        lines = impl[ci][0]
        nt = 0
        for l in lines:
            if l.startswith("cb "):
                stats["callbacks"] += 1
                nt += 1
            elif l.startswith("poll "):
                stats["polls"] += 1
                nt += 1
                t = int(l.split()[1])
                if t == L.INT32_MAX:
                    stats["poll_timeout_clamped_int32max"] += 1
                elif t == 50:
                    stats["poll_timeout_50"] += 1
                elif t == 0:
                    stats["poll_timeout_0"] += 1
                elif t < 0:
                    stats["poll_timeout_negative"] += 1
            elif l.startswith("hs "):
                stats["heap_ops"] += 1
                nt += 1
                stats["heap_max_size"] = max(stats["heap_max_size"], int(l.split()[1]))
            elif l.startswith("m X") or l.startswith("m R") or l.startswith("m U") or l.startswith("m M"):
                stats["queries"] += 1
        res.add_case(tuple(case), nt >= 2)
        v = judge(impl[ci], mod[ci])
        if v is None:
            res.traces_validated += 1
            continue
        kind, what, detail = v
        small = shrink(case, kind, exe, model) if len(res.violations) < 3 else case
        im, mo = execute([small], exe, model)
        j = judge(im[0], mo[0]) or v
        res.violation(j[0], j[1], {"script": small, "shrunk_from_lines": len(case), "impl_out": im[0][0], "model_out": mo[0][0],
                                   "detail": j[2], "replay_cmd": "./check C09 --replay <this file>"})
        if len(res.violations) >= 6:
            break
    res.rule = ("scripts for harness/h_looptimer.c: loop level = timer add/del/queries, job add, clock ticks, callback behaviour "
                "tables (add / delete / stop from inside callbacks), qb_loop_run for scripted numbers of turns under a virtual "
                "monotonic clock; heap level = timerlist_add_duration / timerlist_del / timerlist_expire on the bare heap with the "
                "array dumped after every operation.  Corpus first (all refutation witnesses), then random cases with durations "
                "drawn around 0, 1 ms, 50 ms, 2^31 ms, 2^32 ms, 2^63 ns, 2^64-1-now, 2^64-1 and clock resolutions 1 ns / 1 / 4 / 10 ms. "
                "A case is non-trivial when it produces at least two callbacks / poll calls / heap dumps; distinct = distinct scripts")
    res.samples = [{"script": c} for c in cases[:2] + cases[n_corpus:n_corpus + 2] + cases[-1:]]
    res.extra = {"case_kinds": {"corpus": n_corpus, "loop_random": n_loop, "heap_random": n_unit}, "input_distribution": g.dist,
                 "observed": stats,
                 "monitor": "independent Python statement of C09 over the implementation log (vlib/looptimer.py: monitor)",
                 "presupposes_fixes": ["fixes/C09-timeout-clamp.patch", "fixes/C09-expire-saturate.patch",
                                       "fixes/C09-run-pending-todo.patch", "fixes/C08-timer-del-forged-handle.patch"]}
    res.assumptions = ["CLOCK_MONOTONIC is virtual (wrapped clock_gettime / clock_getres), monotone, and fits in 64 bits of ns",
                       "epoll_wait is wrapped: no descriptors are ready, it returns after the scripted time (usually exactly the "
                       "timeout it was given)", "random() is an oracle (wrapped; non-zero check words)",
                       "priorities are the three enum values; fewer than 65536 timers at once (qb_array limit)",
                       "single-threaded use (the mutexes are not modelled)"]
    return res


def replay(ctx, payload):
    exe = build()
    model = C.build_model(ID)
    case = payload["script"]
    im, mo = execute([case], exe, model)
    j = judge(im[0], mo[0])
    print("impl :", im[0][0])
    print("model:", mo[0][0])
    if j:
        print("VIOLATION property=%s replay=%s" % (ID, "<replayed>"))
        print("DETAIL: %s: %s" % (j[0], j[1]))
        return 1
    print("replay: property holds on this script now")
    return 0
