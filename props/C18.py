"""C18 - map iterators stay valid while entries are removed / added under them (hashtable + skiplist here; the
trie part is vlib/maptrie.py when present).  See DESIGN.md 5.3 / C18 and vlib/maphs.py."""
from vlib import common as C
from vlib import maphs
try:
    from vlib import maptrie
except ImportError:
    maptrie = None

ID = "C18"
EXTRA_COQ_TARGETS = ["Extract_C17"] + (["Extract_C17T"] if maptrie else [])
KINDS = ["h", "s"]


def prebuild():
    maphs.build()
    if maptrie and hasattr(maptrie, "prebuild"):
        maptrie.prebuild()


def cases(ctx):
    rng = ctx.rng
    thorough = ctx.tier == "thorough" or not ctx.proof_ok
    n = 2500 if thorough else 300
    out = []
    for kind in KINDS:
        for c in maphs.corpus(kind):
            out.append(("corpus-" + kind, c))
    vc = [100]
    for i in range(n):
        kind = KINDS[i % len(KINDS)]
        n_ops = rng.choice([8, 15, 30, 60]) if i % 40 else 300
        only_rm = (i % 3 == 0)
        out.append(("random-%s-%s" % (kind, "rm-only" if only_rm else "rm+put"), maphs.gen_c18(rng, kind, n_ops, vc, only_rm)))
    return out


RULE = ("interleavings of iter_create/iter_next/iter_free (up to 4 iterators open at once, next after the end, abandonment "
        "at every position) with put/rm/get/count/foreach on a hashtable and a skiplist under ASan; removal of the current "
        "entry, its neighbours, all entries; re-insertion of a removed-but-parked key; one third of the cases with removals "
        "only (exactly-once clause); every case ends with all iterators freed, a dictionary check of the survivors and "
        "destroy with a FREE notifier; non-trivial = >= 4 API calls; distinct = distinct scripts")


def run(ctx):
    res = C.Result()
    maphs.run_property(ID, ctx, res, cases(ctx), False, RULE)
    res.assumptions = [
        "random() is an oracle (wrapped by the harness, answers fed to the model)",
        "iterators are freed before the map is destroyed; an iterator is not used after qb_map_iter_free",
        "keys stay allocated until the FREE notification (documented contract of qbmap.h)",
        "notifier / traversal callbacks only log (no re-entrant map calls)",
    ]
    if maptrie:
        maptrie.run_c18(ctx, res)
    return res


def replay(ctx, payload):
    if maptrie and payload.get("container") == "trie":
        return maptrie.replay(ctx, payload)
    return maphs.replay(ID, payload)
