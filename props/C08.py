"""C08 - the event loop runs every job, timer, descriptor and signal callback exactly as registered
(lib/loop.c, loop_job.c, loop_timerlist.c, loop_poll.c, loop_poll_epoll.c).  See DESIGN.md 5.1 / C08, vlib/loop.py.

Stages: generated histories (API calls from outside and from inside callbacks, deletions of queued items, signal
storms, stale handles, descriptor reuse) -> real loop under ASan with a virtual kernel (h_loop) -> log; the same
script -> extracted Gallina model -> log; line diff; plus the independent Python monitor vlib.loop.monitor_c08."""
from vlib import common as C
from vlib import loop as L

ID = "C08"


def prebuild():
    L.prebuild()


def corpus():
    """Hand-made cases (run first): the refutation witnesses of Properties_C08.v and boundary histories."""
    c = []
    # signal_del with two deliveries pending (C08_signal_del_refuted); then the same with a non-zero return
    c.append(["op sa 0 10 1 100", "run 0 0 s 10 r -2:1 | 0 0 s 10 r -2:1 | 0 1", "op sd 100", "run 0 0 | 0 0 | 0 0 | 0 0"])
    c.append(["beh 1 0 1 :", "op sa 0 10 1 100", "run 0 0 s 10 r -2:1 | 0 0 s 10 r -2:1 | 0 0 s 10 r -2:1 | 0 0 | 0 0 | 0 0 | 0 0"])
    # clones queued at the old priority after signal_mod
    c.append(["op sa 0 10 1 100", "run 0 0 s 10 r -2:1 | 0 1", "op sm 1 10 1 100", "run 0 0 s 10 r -2:1 | 0 1", "op sd 100",
              "run 0 0 | 0 0 | 0 0 | 0 0"])
    # failed second poll_add, then poll_del / poll_mod of that descriptor (C08_poll_add_failure_refuted and the null call)
    c.append(["op pa 1 104 1 1", "op pa 1 105 1 2", "op pd 104", "run 0 0", "op pa 1 105 1 3", "op pd 105",
              "run 0 0 r 105:1 | 0 0 r 105:1 | 0 0 r 105:1"])
    c.append(["op pa 0 104 1 1", "op pa 0 100 1 2", "op pd 104", "run 0 0", "op pa 0 100 1 3", "op pd 100", "op pm 2 100 5 11",
              "run 0 0 r 100:1 | 0 0 r 100:4"])
    c.append(["beh 2 0 -1 : pa 0 100 1 8", "op pa 0 100 1 2", "run 0 0 r 100:1 | 0 0 | 0 0 | 0 1", "op pm 2 100 5 11",
              "run 0 0 r 100:4 | 0 0 r 100:1 | 0 0"])
    # delete of queued items from a higher level's callback; self-deletes; re-adds
    c.append(["beh 1 0 0 : jd 1 2 ; td 0 ; pd 100 ; sd 100", "beh 5 0 -1 :", "op ja 2 1", "op ja 1 2", "op ta 1 1 3 0", "op pa 0 100 1 4",
              "op pa 0 101 1 5", "op sa 0 10 6 100", "op ja 0 7",
              "run 0 0 s 10 r 100:1 101:1 -2:1 | 0 0 | 0 0 r 101:1 | 0 0 r 101:1"])
    c.append(["beh 1 0 0 : jd 2 1 ; ja 2 1", "beh 2 0 0 : td 0 ; tr 0 ; ta 1 3 2 1", "beh 3 0 0 : pd 100 ; pa 1 100 1 4",
              "op ja 2 1", "op ta 1 2 2 0", "op pa 0 100 1 3", "run " + " | ".join(["2000 0 r 100:1"] * 8)])
    # stale timer handles: fired, deleted, slot reused
    c.append(["op ta 2 1 1 0", "run 2000 0 | 2000 0 | 0 1", "op td 0", "op tr 0", "op ta 1 1000001 2 1", "op td 0", "op tr 1", "op td 1",
              "op td 1", "op ta 0 2 3 2", "op td 1", "run 2000 0 | 2000 0 | 2000 0 | 2000 0"])
    # more than MAX_EVENTS ready descriptors; stop from a callback
    c.append(["beh 3 0 0 : stop"] + ["op pa %d %d 1 %d" % (i % 3, 100 + i, 1 + i) for i in range(15)] +
             ["run " + " | ".join(["0 0 r " + " ".join("%d:1" % (100 + i) for i in range(15))] * 5)])
    # descriptor closed WITHOUT poll_del and its number added again (C08_fd_reuse_refuted), then deleted by number
    c.append(["op pa 1 100 1 1", "op close 100", "op pa 0 100 1 2", "run 0 0 r 100:1 | 0 1", "op pd 100", "run 0 0 | 0 0 | 0 0 | 0 0"])
    # descriptor closed and its number reused after a poll_del; negative return then re-add (EEXIST: still in the kernel)
    c.append(["beh 1 0 -1 :", "op pa 1 100 1 1", "run 0 0 r 100:1 | 0 0 r 100:1 | 0 1", "op pa 1 100 1 2", "op close 100", "op pa 1 100 1 3",
              "run 0 0 r 100:1 | 0 0 r 100:1 | 0 0"])
    return c


KNOWN_SIG = "C08-signal-handle-stale"


def judge(case, impl, mod):
    lines, crash = impl
    # the model marks the use of a signal handle whose registration was freed (uaf 1, 2, 4 with the repairs in):
    # API misuse that the raw-pointer handles cannot detect = the proposed known finding, never a new violation
    if any(l in ("uaf 1", "uaf 2", "uaf 4") for l in mod[0]) and L.consts().get("LOOP_FIX_SIGDEL") == 1:
        return ("known", KNOWN_SIG, None)
    if crash:
        return ("impl-monitor", "implementation crashed / sanitizer report (rc=%s)" % crash[0], crash[1][-1500:])
    m = L.monitor_c08(lines, case)
    d = L.compare(lines, mod[0])
    if m:
        return ("impl-monitor", m, {"first_model_difference": d})
    if mod[1]:
        return ("correspondence", "model runner failed", mod[1][1])
    if d:
        return ("correspondence", "observable %d differs: impl %r model %r" % d, {"first_difference": d})
    return None


def run(ctx):
    res = C.Result()
    exe, model = L.build(ID)
    rng = ctx.rng
    thorough = ctx.tier == "thorough" or not ctx.proof_ok
    ngen = 12000 if thorough else 1500
    ntar = 6000 if thorough else 800
    cases = corpus()
    kinds = {"corpus": len(cases), "general": ngen, "targeted": ntar}
    for i in range(ngen):
        cases.append(L.gen_general(rng, size=rng.choice([2, 3, 5]), collide=(i % 9 == 8)))
    for i in range(ntar):
        cases.append(L.gen_targeted(rng))
    impl, mod = L.execute(cases, exe, model)
    ncb = {0: 0, 1: 0, 2: 0, 3: 0}
    rets = {}
    usleeps = 0
    skipped_misuse = 0
    for ci, case in enumerate(cases):
        lines = impl[ci][0]
        n = 0
        for l in lines:
            if l.startswith("cb "):
                ncb[int(l.split()[1])] += 1
                n += 1
            elif l.startswith("r "):
                w = l.split()
                k = "%s:%s" % (w[1], "ok" if w[3] == "0" else ("pos" if not w[3].startswith("-") else w[3]))
                rets[k] = rets.get(k, 0) + 1
            elif l == "usleep":
                usleeps += 1
        res.add_case(tuple(case), n >= 2)
        v = judge(case, impl[ci], mod[ci])
        if v is None:
            res.traces_validated += 1
            continue
        kind, what, detail = v
        if kind == "known":
            if any(k.get("id") == what for k in (ctx.known or [])):
                res.known_hits[what] = res.known_hits.get(what, 0) + 1
            else:
                skipped_misuse += 1
            continue

        def fails(sub):
            im, mo = L.execute([sub], exe, model)
            j = judge(sub, im[0], mo[0])
            return j is not None and j[0] == kind
        small = C.shrink_list(case, fails, budget=60) if len(res.violations) < 3 else case
        im, mo = L.execute([small], exe, model)
        j = judge(small, im[0], mo[0]) or v
        res.violation(j[0], j[1], {"script": small, "shrunk_from_lines": len(case), "impl_out": im[0][0][-200:],
                                   "model_out": L.strip_ti(mo[0][0])[-200:], "detail": j[2],
                                   "replay_cmd": "./check C08 --replay <this file>"})
        if len(res.violations) >= 8:
            break
    res.rule = ("scripts for the real loop with a virtual kernel: hand-made corpus (refutation witnesses, boundary histories), "
                "general random histories (adds / mods / deletes of jobs, timers, descriptors, signals from outside and from "
                "inside callbacks, close and reuse of descriptor numbers, raised signals, scripted random() incl. colliding "
                "check words), targeted families (queued items deleted from a higher level, signal storms, stale timer "
                "handles, second add of a descriptor, self-delete / re-add); non-trivial = >= 2 callback invocations")
    res.samples = [{"script": c[-8:]} for c in cases[:2] + cases[len(corpus()):len(corpus()) + 1]]
    res.extra = {"case_kinds": kinds, "callbacks_by_kind(job,timer,fd,signal)": ncb, "api_results": rets,
                 "dropped_epoll_events": usleeps,
                 "scripts_using_a_freed_signal_handle(skipped: proposed known finding %s)" % KNOWN_SIG: skipped_misuse,
                 "monitor": "independent Python statement of C08 over the implementation log (vlib/loop.py: monitor_c08)"}
    res.assumptions = ["kernel side of epoll, clock and random() are virtual (wrapped); signals go through libqb's real handler and pipe",
                       "signal handles are raw pointers: scripts never use one after its registration was freed (not checkable by the API)",
                       "timer heap abstracted to pop-min over distinct expiries (C09 owns the heap); malloc does not fail; one thread",
                       "FIFO per priority, 'fd callback runs whenever ready' and liveness (exactly once = at most once + C10 service) are "
                       "checked by correspondence and monitor, not proved"]
    return res


def replay(ctx, payload):
    exe, model = L.build(ID)
    case = payload["script"]
    im, mo = L.execute([case], exe, model)
    j = judge(case, im[0], mo[0])
    print("impl :", im[0][0][-60:])
    print("model:", L.strip_ti(mo[0][0])[-60:])
    if j and j[0] == "known":
        print("KNOWN-FINDING: property=%s %s (a signal handle is used after its registration was freed)" % (ID, j[1]))
        return 0
    if j:
        print("VIOLATION property=%s replay=%s" % (ID, "<replayed>"))
        print("DETAIL: %s: %s" % (j[0], j[1]))
        return 1
    print("replay: property holds on this script now")
    return 0
