"""C03 - IPC: death of the peer at any point is detected and fully cleaned up
(lib/ipcs.c, lib/ipcc.c, lib/ipc_setup.c, lib/ipc_shm.c, lib/ipc_socket.c).  See DESIGN.md section 5 / C03.

Stages: crash points (client scenario x k-th system call x schedule policy, every prefix of the handshake bytes,
server's k-th system call x timeout) -> harness/h_ipcdeath.c + harness/killat.c (ptrace kill-at-k supervisor; the
surviving side is the real library under ASan/UBSan) run in parallel processes -> per case: independent Python monitor
stating C03 over the implementation's log (vlib/ipcdeath.py) + the extracted Gallina model's prediction for the
observed cut (coq/IpcDeathModel.v: predict) compared with what the server did after the death."""
from vlib import common as C
from vlib import ipcdeath as D

ID = "C03"
EXTRA_COQ_TARGETS = ["IpcDeathProofs", "IpcDeathProofs2", "IpcDeathProofs3"]


def prebuild():
    D.build()


def _model(model, queries):
    text = "".join(q + "\n" for q in queries)
    rc, out, err = C.sh2([model], timeout=300, stdin=text.encode())
    return [l for l in out.split("\n") if l]


def run(ctx):
    res = C.Result()
    exe = D.build()
    model = C.build_model(ID)
    fixed = D.tree_fixed_recv()
    cases = D.gen_cases(ctx.tier, ctx.rng, harder=not ctx.proof_ok)
    results = D.run_parallel(exe, cases)
    # the model's answers for the cuts the implementation reported
    queries, qidx = [], {}
    infos = {}
    for i, c in enumerate(cases):
        if c.startswith("sdeath"):
            continue
        lines, crash = results[i]
        bad, info = D.monitor_client(c, lines, crash)
        infos[i] = info
        q = None if bad else D.model_query(c, info, lines)
        if q:
            qidx[i] = len(queries)
            queries.append(q)
    preds = _model(model, queries) if queries else []
    sweeps = _model(model, ["sweep %s %d" % (tr, sc) for tr in ("shm", "sock") for sc in range(5)])
    cuts, kinds, stalls, dirs_left, unreachable, hangs, stats_leak = {}, {}, 0, 0, 0, 0, 0
    evq_cases, closed_retry_cases, midreq_cases, stall_viol = {}, {}, 0, 0
    for i, c in enumerate(cases):
        lines, crash = results[i]
        kind = c.split()[0]
        kinds[kind] = kinds.get(kind, 0) + 1
        if kind in ("sdeath", "sdeathq"):
            bad, info = D.monitor_server(c, lines, crash, fixed)
            res.add_case(c, any(x[4] for x in info["calls"]) or bool(info["hang"]))
            dirs_left += info.get("dirs_left", 0)
            unreachable += 1 if info.get("unreachable_files") else 0
            hangs += 1 if info["hang"] else 0
            v = ("impl-monitor", bad[0], {"all": bad[:6]}) if bad else None
            if v is None:
                # model: the calls started after the death
                qs, exp = [], []
                conn = 1
                for (name, tmo, rc, el, after) in info["calls"]:
                    if after and name in ("recv", "sendv_recv", "event_recv", "send"):
                        qs.append("client %d 0 0 %d %s %d" % (1 if fixed else 0, conn, name, tmo))
                        exp.append((name, tmo, rc, el))
                    if after and not rc.lstrip("-").isdigit():
                        conn = 0
                ans = _model(model, qs) if qs else []
                for (name, tmo, rc, el), a in zip(exp, ans):
                    w = a.split()
                    if w[1] == "HANG":
                        v = ("correspondence", "model: %s(%d) never returns; implementation returned %s" % (name, tmo, rc),
                             {"model": a})
                        break
                    mw = int(D.kv(a)["waited"])
                    if abs(mw - el) > D.SLACK_MS or rc.lstrip("-").isdigit():
                        v = ("correspondence", "%s(%d): model waits %d ms and fails, implementation %d ms rc=%s"
                             % (name, tmo, mw, el, rc), {"model": a})
                        break
                if v is None:
                    res.traces_validated += 1
        else:
            pred = preds[qidx[i]] if i in qidx and qidx[i] < len(preds) else None
            v, info = D.judge_client(c, lines, crash, pred)
            cl = " ".join(info.get("cut", "cut ?").split()[1:2])
            cuts[cl] = cuts.get(cl, 0) + 1
            stalls += 1 if info.get("stall_ms", 0) > 0 else 0
            if info.get("evq", -1) > 0 or info.get("notifiers", 0) > 0:
                key = c.split()[1] + (" notifier-bytes-outstanding" if info.get("notifiers", 0) > 0 else "")
                evq_cases[key] = evq_cases.get(key, 0) + 1
            if kind == "cdeathx":
                closed_retry_cases[c.split()[5]] = closed_retry_cases.get(c.split()[5], 0) + 1
                midreq_cases += 1
            # bounded stall (coq: dead_client_stall_bounded): the survivor server's library sleeps for the dead client
            nfail = sum(1 for l in lines if l.startswith("note response_send") or l.startswith("note event_send"))
            if v is None and info.get("stall_ms", 0) > nfail * 1000:
                v = ("impl-monitor", "the server slept %d ms for the dead client: more than FC_RETRIES*FC_SLEEP_MS = 1000 ms per "
                     "failed send (%d)" % (info.get("stall_ms", 0), nfail), {})
            if info.get("dlog") == "AD" and info.get("census", {}).get("active") == "2":
                stats_leak += 1
            res.add_case(c, bool(info.get("dlog")))
            if v is None and pred is not None:
                res.traces_validated += 1
        if v is not None and len(res.violations) < 6:
            res.violation(v[0], v[1], {"script": [c], "impl_out": [l for l in lines if not l.startswith("trace")][-40:],
                                       "detail": v[2], "tree_carries_fix_C03_recv": fixed,
                                       "replay_cmd": "./check C03 --replay <this file>"})
    for s in sweeps:
        if " bad=0 " not in " " + s + " ":
            res.violation("correspondence", "the extracted model itself leaves resources for some cut point: " + s,
                          {"script": ["sweep"], "model": s})
    res.rule = ("crash points: {shm, socket} x client scenario {connect; +3 sends; +sendv_recv; +events queued; +disconnect} x "
                "k-th system call of the client (1..80, 0 = own exit) x schedule policy {server runs only while the client "
                "is blocked | also after every client call} x {fresh | stale poll result at the death}; the same with connection_closed() asking 1..3 times to be called again and the bystander mid-request at the "
                "death (cdeathx); every prefix 0..24 of "
                "the handshake request x {fresh, stale}; server killed at its k-th system call (0..95) x client timeout "
                "{-1, 300[, 5000]}, and the same with qb_ipcc_disconnect as the client's only call after the death; quick tier: all k for scenario 4 under two policies and for the server with timeout -1, "
                "every 2nd/3rd k (seeded offset) for the rest; thorough: everything.  A case is non-trivial when the "
                "server had called back for the dying client (client death) / a client call ran against the dead server")
    res.samples = [{"script": [c]} for c in cases[:2] + cases[-2:]]
    res.extra = {"case_kinds": kinds, "cut_classes_seen": cuts, "tree_carries_fix_C03_recv": fixed,
                 "model_sweeps": sweeps,
                 "dying_client_had_events_queued_at_the_cut": evq_cases,
                 "closed_callback_asked_for_rerun_times": closed_retry_cases,
                 "cases_with_bystander_mid_request_at_the_death": midreq_cases,
                 "observations_not_part_of_C03": {
                     "cases_where_server_slept_in_connect_on_send_for_the_dead_client": stalls,
                     "stats_active_connections_left_incremented_after_failed_response": stats_leak,
                     "shm_directories_left_by_client_disconnect_after_server_death": dirs_left,
                     "server_death_before_the_names_reached_the_client_leaves_unreachable_files": unreachable},
                 "monitor": "independent Python statement of C03 over the implementation log (vlib/ipcdeath.py) + ASan/UBSan"}
    res.assumptions = [
        "kernel behaviour on a peer's death (POLLHUP/EOF on the stream socket, EPIPE/ECONNREFUSED on sending, accept() of a "
        "connection whose peer is gone) is recorded from the runs and written into the model's readiness functions; it is "
        "not proved",
        "death = SIGKILL at a system-call boundary of the traced process followed by reaping; memory writes between two "
        "system calls are not separate crash points",
        "server death: waits are real while the server lives; once it is dead and reaped a wait nothing can satisfy is "
        "completed on a virtual clock (an infinite one is reported as a hang)",
        "connection_closed() returns 0; one dying client, one bystander, one probe client per case"]
    return res


def replay(ctx, payload):
    exe = D.build()
    fixed = D.tree_fixed_recv()
    case = payload["script"][0]
    if case == "sweep":
        print("model sweep:", payload.get("model"))
        return 1
    (lines, crash), = C.run_cases(exe, [case], timeout=300)
    for l in lines:
        if not l.startswith("trace"):
            print("impl :", l)
    if case.startswith("sdeath"):
        bad, info = D.monitor_server(case, lines, crash, fixed)
    else:
        bad, info = D.monitor_client(case, lines, crash)
    if bad:
        print("VIOLATION property=%s replay=%s" % (ID, "<replayed>"))
        for b in bad[:6]:
            print("DETAIL:", b)
        return 1
    print("replay: property holds on this case now")
    return 0
