"""C15 - blackbox dump files (lib/log_blackbox.c, lib/ringbuffer.c).  See DESIGN.md section 5 / C15.

Stages
  A. logging scripts -> the REAL blackbox target (qb_log_from_external_source ... qb_log_blackbox_write_to_file) ->
     dump bytes -> the real qb_log_blackbox_print_from_file (ASan+UBSan, guard mapping behind the ring, /dev/shm census)
       * monitor (round trip): printed entries = the newest k >= 1 logged ones, every field as logged
       * correspondence 1: extracted model of the printer on the same bytes (decoder answers recorded from the run)
       * correspondence 2: extracted model of the WRITER (overwrite ring + entry layout) fed with the same entries,
         its own dump printed by the model: same entries as the implementation printed
  B. hostile files: every refutation witness, truncations, header words / chunk headers / entry fields set to boundary
     values (with and without a repaired hash), random multi-byte corruption, arbitrary byte strings, old-format
     dumps, hand-built rings (wrap positions, 1024-byte chunks, hostile message bytes)
       * monitor (robustness): the call returned, no sanitizer / guard / abort report, nothing new in /dev/shm
       * correspondence: model of the repaired printer (fix switches 1 1) on the same bytes
"""
import struct
from vlib import common as C
from vlib import bbfile as B

ID = "C15"
TOO_LONG = b"Log message too long to be stored in the blackbox.  Maximum is QB_LOG_MAX_LEN"


def prebuild():
    B.build()


# ------------------------------------------------------------------ stage A: logging scripts
def gen_log_case(rng, big=False):
    size = rng.choice([1024, 1024, 2000, 4000, 4083, 4084, 5000, 9000] + ([20000, 65000] if big else []))
    n = rng.choice([0, 1, 2, 3, 5, 8, 13, 30, 60, 120] + ([400] if big else []))
    ops = ["open %d" % size]
    recs = []
    for _ in range(n):
        prio = rng.randrange(0, 9)
        fn = bytes(rng.choice(b"abcdefghijklmnopqrstuvwxyzABCXYZ_0189") for _ in range(rng.choice([1, 1, 3, 8, 20, 40, 120])))
        line = rng.choice([1, 2, 77, 1000, 65535, rng.randrange(1, 65536)])
        tags = rng.choice([0, 1, 0xFFFFFFFF, 0x80000000, rng.getrandbits(32)])
        kind = rng.choice([0, 0, 1, 2, 3])
        a = rng.choice([0, 1, -1, 42, 2 ** 31 - 1, -2 ** 31, rng.randrange(-10 ** 6, 10 ** 6)])
        # serialized size well below max_line_length (512) or clearly above it: what happens in between (silent
        # truncation by the serializer) is C14's subject, not the dump file's
        L = rng.choice([0, 1, 5, 20, 60, 200, 400, 470, 600, 700])
        alphabet = b"abcdefghij klmnopqrstuvwxyz0123456789.,:;-_()[]" + (b"\n" if rng.random() < 0.3 else b"")
        s = bytes(rng.choice(alphabet) for _ in range(L))
        if rng.random() < 0.15:
            s += b"\n" * rng.randrange(1, 3)
        if kind == 2:
            s = s.replace(b"%", b"")
        ops.append("log %d %s %d %d %d %d %s" % (prio, B.hx(fn), line, tags, kind, a, B.hx(s)))
        recs.append((prio, fn, line, tags))
    ops += ["dump", "emit", "print 0"]
    return ops, recs


def logged_records(recs, lines):
    """what was logged, from the script + the harness' `logged' lines (virtual time stamp, expected text, stored bytes)"""
    out = []
    k = 0
    for l in lines:
        if l.startswith("logged "):
            p = l.split()
            sec, nsec, text, ser = int(p[1]), int(p[2]), B.unhx(p[3]), B.unhx(p[4])
            if ser.startswith(TOO_LONG):
                text = TOO_LONG
            prio, fn, line, tags = recs[k]
            out.append((prio, fn, line, tags, sec, nsec, text, ser))
            k += 1
    return out


def writer_model_script(size, logged):
    s = ["ring %d" % size]
    for (prio, fn, line, tags, sec, nsec, text, ser) in logged:
        s.append("mkrec %d %d %d %s %d %d %s" % (line, tags, prio, B.hx(fn), sec, nsec, B.hx(ser)))
    s.append("dumpfile")
    return s


# ------------------------------------------------------------------ stage B: hostile files
def u32(b, off):
    return struct.unpack_from("<I", b, off)[0] if off + 4 <= len(b) else 0


def set_u32(b, off, v):
    b = bytearray(b)
    if off + 4 > len(b):
        b += bytes(off + 4 - len(b))
    struct.pack_into("<I", b, off, v & 0xFFFFFFFF)
    return bytes(b)


def fix_hash(b, off):
    """recompute the ring header hash at file offset off (header starts there)"""
    W, wp, rp, ver = [u32(b, off + 4 * i) for i in range(4)]
    return set_u32(b, off + 16, (W + wp + rp + ver) & 0xFFFFFFFF)


def chunks_of(b, off):
    """walk the chunks of a valid dump whose ring header is at off: [(data byte offset in file, size, read_pt word)]"""
    W, wp, rp = u32(b, off), u32(b, off + 4), u32(b, off + 8)
    res = []
    base = off + 20
    p = rp
    guard = 0
    while p != wp and W and guard < 4096:
        size = u32(b, base + 4 * p)
        if u32(b, base + 4 * ((p + 1) % W)) != B.MAGIC:
            break
        res.append((p, size))
        p = (p + 2 + (size + 3) // 4) % W
        guard += 1
    return res


def boundary_values(W, st_size):
    return [0, 1, 2, W - 1, W, W + 1, 2 * W - 1, 2 * W, 2 * W + 1, 3 * W, 800 * W, st_size // 4, st_size // 4 + 1,
            st_size - 1, st_size, st_size + 1, 2 ** 31 - 1, 2 ** 31, 2 ** 32 - 1, 2 ** 32 - W]


def mutations(rng, base, thorough):
    """hostile variants of ONE valid new-format dump `base' (bytes).  -> list of (kind, bytes)"""
    out = []
    off = 20
    W = u32(base, off)
    n = len(base)
    cks = chunks_of(base, off)
    # truncations: every length around every structure boundary; thorough: every length
    if thorough:
        lens = range(0, n + 1)
    else:
        lens = set(list(range(0, 64)) + [n - k for k in range(0, 6)] + [rng.randrange(0, n) for _ in range(12)])
        for (p, size) in cks[:3]:
            o = off + 20 + 4 * p
            lens |= set(range(max(0, o - 2), min(n, o + 12)))
    for L in sorted(lens):
        out.append(("trunc", base[:L]))
    # header words (marker block words 0..4, ring header words 5..9), with and without a matching hash
    for w in range(10):
        for v in boundary_values(W, n):
            m = set_u32(base, 4 * w, v)
            out.append(("hdrword", m))
            if w >= 5:
                out.append(("hdrword+hash", fix_hash(m, off)))
    # old-format reading of the same bytes: marker destroyed / removed
    out.append(("nomarker", base[20:]))
    # chunk headers
    for (p, size) in (cks if thorough else cks[:2] + cks[-1:]):
        o = off + 20 + 4 * p
        for v in [0, 1, 26, 27, 28, size - 1, size + 1, size + 4, 1023, 1024, 1025, 4 * W, 2 ** 31, 2 ** 32 - 1]:
            out.append(("chunksize", set_u32(base, o, v)))
        for v in [0, 0xD0D0D0D0, 0xA110CED0, B.MAGIC ^ 1]:
            out.append(("chunkmagic", set_u32(base, o + 4, v)))
    # entry fields of the first / last chunk
    for (p, size) in (cks[:1] + cks[-1:]):
        d = off + 20 + 4 * ((p + 2) % W) if W else 0
        fn_size = u32(base, d + 9)
        mo = d + 13 + fn_size + 16
        msg_len = u32(base, mo)
        for v in [0, 1, fn_size - 1, fn_size + 1, fn_size + 6, size - 27, size - 26, size - 28, size - 33, size - 34,
                  size - 35, size, 2 ** 31, 2 ** 32 - 1, 2 ** 32 - 27, 2 ** 32 - 26]:
            out.append(("fn_size", set_u32(base, d + 9, v)))
        for v in [0, 1, msg_len - 1, msg_len + 1, msg_len + 2, 511, 512, 513, size, 2 ** 31, 2 ** 32 - 1]:
            out.append(("msg_len", set_u32(base, mo, v)))
        # function name without its NUL, message without its NUL
        m = bytearray(base)
        if fn_size:
            m[d + 13 + fn_size - 1] = 0x41
            out.append(("fn_nul", bytes(m)))
        m = bytearray(base)
        for k in range(mo + 4, min(len(m), mo + 4 + msg_len + 8)):
            if m[k] == 0:
                m[k] = 0x42
        out.append(("msg_nul", bytes(m)))
        for t in [0, 2 ** 63 - 1, 2 ** 63, 2 ** 64 - 1, 67768036191676800, 67768036191676799, 2 ** 55]:
            m = bytearray(base)
            struct.pack_into("<Q", m, d + 13 + fn_size, t)
            struct.pack_into("<Q", m, d + 13 + fn_size + 8, rng.choice([0, 999999999, 2 ** 64 - 1, 2 ** 63]))
            out.append(("timestamp", bytes(m)))
        m = bytearray(base)
        m[d + 8] = rng.choice([9, 127, 128, 255])
        out.append(("prio", bytes(m)))
    # random multi-byte corruption, biased to the part of the file that is in use
    used_end = off + 20 + 4 * (max([p for p, _ in cks] + [0]) + 300)
    for _ in range(400 if thorough else 60):
        m = bytearray(base)
        for _ in range(rng.choice([1, 1, 2, 3, 5, 8, 16, 64])):
            pos = rng.randrange(0, min(n, used_end)) if rng.random() < 0.8 else rng.randrange(0, n)
            m[pos] = rng.choice([0, 0xFF, 0xA1, m[pos] ^ (1 << rng.randrange(8)), rng.randrange(256)])
        out.append(("random-corruption", bytes(m)))
    return out


HOSTILE_MSGS = [b"%s\0", b"%s\0abc", b"%d\0\1\0", b"%d\0", b"%", b"%\0", b"%%\0", b"100%% done\0", b"%0000000000000000000000000d\0\1\0\0\0",
                b"%*d\0\x10\0\0\0\7\0\0\0", b"%**********d\0" + b"\1\0\0\0" * 5, b"%ld\0" + b"\xff" * 8, b"%lld\0" + b"\xff" * 7,
                b"%f\0" + b"\0" * 8, b"%p\0" + b"\1" * 8, b"%c\0", b"%c\0\0", b"%300d%300d\0\1\0\0\0\2\0\0\0",
                b"%.3d %s\0\7\0\0\0abcdefgh\0", b"B" * 511 + b"\0", b"B" * 512, b"B" * 600 + b"\0", b"%s%s%s\0" + b"Z" * 300 + b"\0" + b"Y" * 300 + b"\0X\0",
                b"%q %y\0", b"\0", b"", b"%-+ #0'I5.3hd\0\1\0\0\0", b"%zu %td %jd\0" + b"\2" * 24, b"%s\0" + b"Q" * 700]


def handmade(rng, thorough):
    out = []
    W = 1024
    good = B.record(10, 3, 6, b"fnA\0", 1700000000, 123456789, b"hello\0")
    # hostile message bytes in an otherwise well-formed entry (msg_len = actual length, and lies)
    for m in HOSTILE_MSGS:
        for ml in ([None] if not thorough else [None, 1, 512, len(m) + 1]):
            if len(m) == 0 and ml is None:
                ml = 0
            rec = B.record(1, 2, 6, b"f\0", 1700000000, 5, m, msg_len=ml)
            if len(rec) <= 1024:
                out.append(("hostile-msg", B.dump_file(W, [good, rec, good])))
    # entry sizes around the limits, chunk of exactly 1024 / 1025 bytes, wrap positions
    for total in [27, 28, 34, 35, 36, 1023, 1024]:
        pay = total - 35
        if pay >= 1:
            rec = B.record(1, 2, 3, b"\0", 1, 2, b"x" * (pay - 1) + b"\0")
            for rp in [0, W - 1, W - 2, W - 3, W - 130, W - 258]:
                out.append(("size-edge", B.dump_file(W, [rec, good], rp=rp)))
    out.append(("size-edge", B.dump_file(W, [b"z" * 27])))
    out.append(("size-edge", B.dump_file(W, [b"\0" * 27])))
    out.append(("size-edge", B.dump_file(W, [b"z" * 60], sizes=[1025])))
    out.append(("size-edge", B.dump_file(W, [b"z" * 60], sizes=[20])))
    rec = B.record(1, 2, 6, b"f\0", 1700000000, 5, b"A" * (1024 - 35), msg_len=100)
    out.append(("witness-unterminated", B.dump_file(W, [rec])))
    # a function name that fills the entry: with the 16-byte timespec the timestamp / message length then lie up to
    # 6 bytes behind the entry - behind the chunk buffer when the entry fills it (defect 3b of the code as found)
    for r in [1024, 1023, 1021, 1017, 200]:
        for fs in [r - 27, r - 28, r - 29, r - 31, r - 33, r - 34, r - 35, r - 36]:
            body = struct.pack("<IIBI", 7, 8, 5, fs) + b"A" * (fs - 1) + b"\0"
            body += b"\1" * (r - len(body))
            out.append(("witness-name-fills-entry", B.dump_file(W, [body[:r], good])))
    # old format (8-byte time_t), valid and with the 6-byte shortfall of the new format probed
    old = B.record(10, 3, 6, b"fnA\0", 1700000000, 0, b"hello\n\n\0", new=False)
    out.append(("old-format", B.dump_file(W, [old, old], new=False)))
    out.append(("old-format", B.dump_file(W, [old[:-3]], new=False)))
    for cut in range(1, 12):
        out.append(("short-entry", B.dump_file(W, [good[:-cut], good])))
        out.append(("short-entry", B.dump_file(W, [old[:-cut], old], new=False)))
    # pointers: witnesses of the header defect and neighbours
    d, _ = B.ring_image(W, [b"x" * 40])
    dd = bytearray(d)
    struct.pack_into("<I", dd, 4, B.MAGIC)
    for rp in [W - 1, W, W + 1, 2 * W - 1, 2 * W, 2 * W + 5, 3 * W, 4 * W + 9]:
        for wp in [0, 5, W, rp]:
            out.append(("witness-pointers", B.MARK + B.rb_header(W, wp, rp) + bytes(dd)))
    # short files around the header (witness: assert), word_size 0 / tiny / not a page multiple / larger than the data
    for body in [b"", struct.pack("<I", 1), struct.pack("<I", 0), struct.pack("<II", 1, 0), struct.pack("<III", 2, 0, 0),
                 struct.pack("<IIII", 2, 0, 0, 1), B.rb_header(0, 0, 0), B.rb_header(1, 0, 0) + b"abcd", B.rb_header(5, 1, 2) + bytes(20),
                 B.rb_header(5, 4, 4) + bytes(19), B.rb_header(1025, 3, 3) + bytes(4100), B.rb_header(2048, 0, 1024) + bytes(4096),
                 B.rb_header(W, 0, 0, ver=2) + bytes(4096), B.rb_header(W, 0, 0, hash_=7) + bytes(4096)]:
        out.append(("short/odd-header", B.MARK + body))
        out.append(("short/odd-header", body))
    # never a dump
    for L in [0, 1, 3, 4, 5, 8, 11, 12, 19, 20, 21, 23, 24, 39, 40, 41, 100, 4136]:
        out.append(("arbitrary", bytes(rng.randrange(256) for _ in range(L))))
        out.append(("arbitrary", bytes([rng.choice([0, 0xFF, 0xA1])]) * L))
    out.append(("arbitrary", b"#!/bin/sh\necho this never was a blackbox\n" * 20))
    # the chunks tile the whole ring (64 entries of 16 words), write_pt inside a payload: after one lap the reader is
    # back at the first chunk - only the cleared markers end the loop (the termination measure of C15_print_total)
    e56 = B.record(9, 1, 4, b"fnA\0", 1700000000, 7, b"lap lap lap lap la\0")
    assert len(e56) == 56
    tiled = B.dump_file(W, [e56] * 64)
    out.append(("tiled-ring", B.MARK + B.rb_header(W, 5, 0) + tiled[40:]))
    out.append(("tiled-ring", B.MARK + B.rb_header(W, 5, 16 * 63) + tiled[40:]))
    # every word a chunk marker: the loop's worst case
    out.append(("all-markers", B.MARK + B.rb_header(W, 0, 1) + struct.pack("<I", B.MAGIC) * W))
    out.append(("all-markers", B.MARK + B.rb_header(W, 1, 2) + struct.pack("<II", 27, B.MAGIC) * (W // 2)))
    return out


# ------------------------------------------------------------------ running
SHORT_MODE = {}


def short_file_mode(exe):
    """The result for a file shorter than the marker block is -errno of a STALE errno in the code as found (the
    model's universally quantified errno0) and -EIO with fixes/C15-short-file-result.patch (= the model with
    errno0 := EIO).  Which of the two the tree under test does is observed once, with a 3-byte file and errno 77."""
    if "m" not in SHORT_MODE:
        out = C.run_cases(exe, ["raw 010203\nprint 77\n"], env=B.ENV, timeout=120)
        rets = [l for l in out[0][0] if l.startswith("ret ")]
        SHORT_MODE["m"] = "stale" if rets == ["ret -77"] else "eio"
    return SHORT_MODE["m"]


def run_prints(exe, model, files, errnos, prio_cache):
    """files -> [(impl lines, crash, model lines, model crash)]"""
    if short_file_mode(exe) == "eio":
        merr = [5] * len(files)
    else:
        merr = errnos
    texts = ["%sraw %s\nprint %d\n" % ("prios\n" if i == 0 else "", B.rle(f), e) for i, (f, e) in enumerate(zip(files, errnos))]
    impl = C.run_cases(exe, texts, env=B.ENV, timeout=900)
    if impl and not prio_cache:
        for l in impl[0][0]:
            if l.startswith("prio "):
                prio_cache[int(l.split()[1])] = l.split()[2]
    ms = [B.model_script(lines, B.rle(f), e) for (lines, crash), f, e in zip(impl, files, merr)]
    mod = C.run_cases(model, ms, timeout=900)
    return [(i[0], i[1], m[0], m[1]) for i, m in zip(impl, mod)]


def judge_print(impl_lines, crash, model_lines, mcrash, prio_names):
    m = B.monitor_robust(impl_lines, crash)
    if m:
        return ("impl-monitor", m)
    if mcrash:
        return ("correspondence", "model runner failed: %s" % (mcrash[1][-300:],))
    d = B.compare(impl_lines, model_lines, prio_names)
    if d:
        return ("correspondence", d)
    return None


def run(ctx):
    res = C.Result()
    exe = B.build()
    model = C.build_model(ID)
    rng = ctx.rng
    thorough = ctx.tier == "thorough" or not ctx.proof_ok
    prio = {}
    kinds = {}
    viol = []

    # ---------------- stage A
    nA = 60 if thorough else 20
    scripts = [gen_log_case(rng, big=thorough and i % 7 == 0) for i in range(nA)]
    # fixed first cases: empty blackbox, one entry, exactly wrapping
    scripts[0] = (["open 1024", "dump", "emit", "print 0"], [])
    # ... a small blackbox with a few entries, and one that has wrapped: the bases of the stage-B mutations
    for slot, (size, n) in ((1, (1024, 4)), (2, (4000, 70))):
        ops, recs = ["open %d" % size], []
        for k in range(n):
            fn = b"fn%c" % (65 + k % 26)
            s_ = bytes(rng.choice(b"abcdefghijklmnopqrstuvwxyz ") for _ in range(rng.choice([3, 30, 120])))
            ops.append("log %d %s %d %d %d %d %s" % (k % 9, B.hx(fn), 100 + k, k, k % 4 if k % 4 != 2 else 0, k - 5, B.hx(s_)))
            recs.append((k % 9, fn, 100 + k, k))
        scripts[slot] = (ops + ["dump", "emit", "print 0"], recs)
    texts = [("prios\n" if i == 0 else "") + "\n".join(ops) + "\n" for i, (ops, _) in enumerate(scripts)]
    implA = C.run_cases(exe, texts, env=B.ENV, timeout=900)
    for l in implA[0][0]:
        if l.startswith("prio "):
            prio[int(l.split()[1])] = l.split()[2]
    bases = []
    mscripts, wscripts = [], []
    filesA = []
    for (ops, recs), (lines, crash) in zip(scripts, implA):
        frle = ""
        for l in lines:
            if l.startswith("file"):
                frle = l[5:]
        filesA.append(frle)
        mscripts.append(B.model_script(lines, frle, 0))
        logged = logged_records(recs, lines)
        size = int(ops[0].split()[1])
        wscripts.append("\n".join(writer_model_script(size, logged) + ["fix 1 1", "heap %d" % B.ASAN_FILL, "stk 0", "errno 0",
                                  "orc " + " ".join(l.split()[4] if len(l.split()) > 4 else "x" for l in lines if l.startswith("ds ")),
                                  "print"]) + "\n")
    modA = C.run_cases(model, mscripts, timeout=900)
    modW = C.run_cases(model, wscripts, timeout=900)
    n_entries = 0
    for ci, ((ops, recs), (lines, crash)) in enumerate(zip(scripts, implA)):
        logged = logged_records(recs, lines)
        printed = len([l for l in lines if l.startswith("ds ")])
        n_entries += printed
        res.add_case(("A", tuple(ops)), printed >= 1)
        kinds["valid-dump"] = kinds.get("valid-dump", 0) + 1
        v = None
        if not any(l.startswith("dump ") and int(l.split()[1]) > 0 for l in lines) and not crash:
            v = ("impl-monitor", "qb_log_blackbox_write_to_file failed: %s" % [l for l in lines if l.startswith("dump")])
        if v is None:
            m = B.monitor_robust(lines, crash) or B.monitor_roundtrip([r[:7] for r in logged], lines, prio)
            if m:
                v = ("impl-monitor", m)
        if v is None:
            if modA[ci][1]:
                v = ("correspondence", "model runner failed: " + modA[ci][1][1][-300:])
            else:
                d = B.compare(lines, modA[ci][0], prio)
                if d:
                    v = ("correspondence", "printer model on the real dump: " + d)
        if v is None:
            # writer model: its own dump, printed by the printer model, must show the same entries
            wl = modW[ci][0]
            i_recs = [x for x in B.canon_stdout(B.impl_stdout(B.split_print(lines)))[7:]]
            m_recs = B.render([l for l in wl if l.startswith("rec ") or l.startswith("err ")], prio)
            i_hdr = B.impl_stdout(B.split_print(lines))[2:5]
            m_hdr = B.render([l for l in wl if l.startswith("hdr ")], prio)[2:5]
            if modW[ci][1]:
                v = ("correspondence", "writer model runner failed: " + modW[ci][1][1][-300:])
            elif i_recs != m_recs or i_hdr != m_hdr:
                v = ("correspondence", "writer model: dump of the modelled blackbox prints %s / %s, the implementation's %s / %s"
                     % (m_hdr, m_recs[-2:], i_hdr, i_recs[-2:]))
        if v:
            viol.append((v[0], v[1], {"stage": "A", "script": ops, "impl_out": lines[-40:], "model_out": modA[ci][0][-40:],
                                      "crash": crash and crash[1][-1500:]}))
        else:
            res.traces_validated += 1
        if frle and printed >= 1 and len(bases) < (6 if thorough else 3) and len(B.unrle(frle)) <= 9000 and ci >= 1:
            bases.append(B.unrle(frle))

    # ---------------- stage B
    cases = []
    for b in bases:
        cases += mutations(rng, b, thorough and b is bases[0])
    cases += handmade(rng, thorough)
    # arbitrary strings, more of them
    for _ in range(300 if thorough else 40):
        L = rng.choice([rng.randrange(0, 64), rng.randrange(0, 300), 4136, 4140])
        cases.append(("arbitrary", bytes(rng.randrange(256) for _ in range(L))))
    files = [c[1] for c in cases]
    errnos = [rng.choice([0, 0, 2, 11, 77]) for _ in cases]
    for k, _ in cases:
        kinds[k] = kinds.get(k, 0) + 1
    outs = run_prints(exe, model, files, errnos, prio)
    rets = {}
    for (kind, f), e, (il, crash, ml, mcrash) in zip(cases, errnos, outs):
        reached_ring = any(l.startswith("cr ") for l in il)
        res.add_case(("B", kind, f), len(f) >= 40 and any(f))
        for l in il:
            if l.startswith("ret "):
                rets[l.split()[1]] = rets.get(l.split()[1], 0) + 1
        if reached_ring:
            kinds["(ring loaded)"] = kinds.get("(ring loaded)", 0) + 1
        v = judge_print(il, crash, ml, mcrash, prio)
        if v:
            viol.append((v[0], v[1], {"stage": "B", "kind": kind, "file": B.rle(f), "errno0": e, "impl_out": il[-40:],
                                      "model_out": ml[-40:], "crash": crash and crash[1][-1500:]}))
        else:
            res.traces_validated += 1

    # impl-monitor failures first (they are failing inputs of the property itself)
    viol.sort(key=lambda v: 0 if v[0] == "impl-monitor" else 1)
    for kind, what, payload in viol[:8]:
        payload["replay_cmd"] = "./check C15 --replay <this file>"
        res.violation(kind, what, payload)

    res.rule = ("stage A: random logging scripts (ring sizes 1 to 16 pages, 0..400 entries, message sizes 0..600 incl. the "
                "too-long path, function names 1..120 bytes) dumped by the real blackbox and printed; stage B: files derived "
                "from those dumps (truncations, header words / chunk headers / entry fields at boundary values with and "
                "without repaired hash, random multi-byte corruption) + hand-built rings + arbitrary byte strings. A stage-A "
                "case is non-trivial when at least one entry was printed; a stage-B case when the file has >= 40 bytes, not "
                "all zero; distinct = distinct scripts / files")
    res.samples = [{"stage": "A", "script": scripts[1][0][:6]}, {"stage": "B", "kind": cases[0][0], "file": B.rle(cases[0][1])[:200]},
                   {"stage": "B", "kind": cases[-1][0], "file": B.rle(cases[-1][1])[:200]}]
    res.extra = {"case_kinds": kinds, "entries_printed_stage_A": n_entries, "result_codes_stage_B": rets,
                 "monitors": "props/C15.py + vlib/bbfile.py: monitor_robust (returned, no ASan/UBSan/guard-page/abort report, "
                             "no new name in /dev/shm) and monitor_roundtrip (printed entries = newest k>=1 logged entries, all "
                             "fields) - both independent of the model",
                 "short_file_result": short_file_mode(exe),
                 "presupposes_fixes": ["fixes/C15-create-from-file-validate.patch", "fixes/C15-print-record-bounds.patch",
                                       "fixes/C14-deserialize-bounds.patch (qb_vsnprintf_deserialize_n)"]}
    res.assumptions = ["the message decoder is an oracle with the contract proved for C14 (returns 1..QB_LOG_MAX_LEN, NUL at "
                       "string[r-1], reads only the msg_len bytes handed over); its answers are recorded from the run and fed "
                       "to the model", "open/read/fstat of the dump file, malloc, and creation of the two temporary shm files "
                       "succeed (word_size = 0 excepted: modelled); formatting of time stamp / priority name is done by libc "
                       "(rendered by the monitor with TZ=UTC)", "uninitialised chunk buffer / stack / stale errno are "
                       "universally quantified in the theorem; the harness run fixes them (ASan fill 0xbe, errno from the script)"]
    return res


def replay(ctx, payload):
    exe = B.build()
    model = C.build_model(ID)
    prio = {}
    if payload.get("stage") == "A":
        text = "prios\n" + "\n".join(payload["script"]) + "\n"
        impl = C.run_cases(exe, [text], env=B.ENV, timeout=300)
        lines, crash = impl[0]
        for l in lines:
            if l.startswith("prio "):
                prio[int(l.split()[1])] = l.split()[2]
        frle = ""
        for l in lines:
            if l.startswith("file"):
                frle = l[5:]
        mod = C.run_cases(model, [B.model_script(lines, frle, 0)], timeout=300)
        v = judge_print(lines, crash, mod[0][0], mod[0][1], prio)
        print("impl :", lines[-30:])
        print("model:", mod[0][0][-30:])
    else:
        f = B.unrle(payload["file"])
        outs = run_prints(exe, model, [f], [payload.get("errno0", 0)], prio)
        il, crash, ml, mcrash = outs[0]
        v = judge_print(il, crash, ml, mcrash, prio)
        print("impl :", il[-30:], crash and crash[1][-600:])
        print("model:", ml[-30:])
    if v:
        print("VIOLATION property=%s replay=%s" % (ID, "<replayed>"))
        print("DETAIL: %s: %s" % v)
        return 1
    print("replay: property holds on this input now")
    return 0
