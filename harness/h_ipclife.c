/* C04 correspondence harness: connection life cycle in the in-process IPC lab (DESIGN.md 4.2, C04).
 *
 * One libqb IPC service with harness-owned poll handlers and up to MAXS libqb clients live in ONE thread of
 * ONE process (lab technique copied from harness/h_ipcdata.c).  All library code is the unmodified lib/ of the
 * working tree (ASan + UBSan).  The application callbacks of the service interpret a BEHAVIOUR TABLE given by
 * the script: one FIFO of entries per callback kind; every invocation pops the next entry (default: no
 * actions, return 0), prints "cb <kind> <conn-id> <ret>", executes the entry's actions (each of which calls
 * back into the library from inside the callback) and returns <ret>.  coq/IpcLifeModel.v interprets the same
 * table over its transcription of lib/ipcs.c / ipc_setup.c.
 *
 * Script (stdin), one op per line; "# case <n>" starts from scratch:
 *   svc shm|sock               create + run the service
 *   depth <n>                  callbacks nested deeper than n levels run no actions (default 6)
 *   beh <k> <ret> <act>...     append an entry to the FIFO of callback kind k (a accept, c created, m msg_process,
 *                              l closed, d destroyed)
 *   conn <slot>                client slot connects: qb_ipcc_connect_async, server handshake turns,
 *                              qb_ipcc_connect_continue
 *   connx <slot>               the same, but the client stops reading before the server answers (response send fails)
 *   req <slot>                 the slot's client sends one request (qb_ipcc_send)
 *   hup <slot>                 qb_ipcc_disconnect of the slot's client
 *   kill <slot>                the slot's client "dies": its setup socket is shut down, nothing is tidied up
 *   t <id>                     one main-loop look at the descriptors registered for connection <id>
 *   jobs                       run the jobs queued through poll_fns.job_add (those queued at this moment)
 *   app <act>                  the application performs an action outside any callback
 *   end                        tear everything down (not modelled; monitored: everything destroyed once, no residue)
 * Actions  <letter>:<target>   target = connection id, or s (the connection the callback is about):
 *   D disconnect   R take a reference   U drop a reference the application holds   S event_send   P response_send
 *   X qb_ipcs_destroy   L:<n> request_rate_limit(n)   I iterate first_get/next_get   K iterate and disconnect each
 * An action is SKIPPED (printed "skip") when the application has no right to perform it: unknown connection,
 * connection whose destroyed callback has run and on which the application holds no reference, U without a held
 * reference, any use of the service after qb_ipcs_destroy.  Harness and model evaluate the same guards.
 *
 * Output: "op ..." echo; "cb ..." / "a ..." / "skip ..." / "it ..." lines in execution order; "r ..." result;
 * "st ..." digest: service ref_count, then id:state:refcount:appRefs of every connection not yet destroyed.
 */
#include "os_base.h"
#include <stdio.h>
#include <stdlib.h>
#include <string.h>
#include <errno.h>
#include <poll.h>
#include <signal.h>
#include <dirent.h>
#include <sys/socket.h>
#include <sys/un.h>
#include <sys/uio.h>
#include <qb/qbdefs.h>
#include <qb/qbloop.h>
#include <qb/qbipcs.h>
#include <qb/qbipcc.h>
#include <qb/qbrb.h>
#include <qb/qblog.h>
#include "util_int.h"
#include "ipc_int.h"

/* ------------------------------------------------------------------ dispatch table = the "main loop" */
struct dent { int fd; int events; void *data; qb_ipcs_dispatch_fn_t fn; int live; };
#define MAXD 128
static struct dent dtab[MAXD];
static int ndent = 0;
static int stale_mod = 0;   /* the library modified the entry of a descriptor that belongs to another object */

static int32_t d_add(enum qb_loop_priority p, int32_t fd, int32_t ev, void *data, qb_ipcs_dispatch_fn_t fn)
{
	int i;
	for (i = 0; i < ndent; i++) {
		if (dtab[i].live && dtab[i].fd == fd) return -EEXIST;
	}
	for (i = 0; i < ndent; i++) if (!dtab[i].live) break;
	if (i == ndent) {
		if (ndent == MAXD) return -ENOMEM;
		ndent++;
	}
	dtab[i].fd = fd; dtab[i].events = ev; dtab[i].data = data; dtab[i].fn = fn; dtab[i].live = 1;
	return 0;
}
static int32_t d_mod(enum qb_loop_priority p, int32_t fd, int32_t ev, void *data, qb_ipcs_dispatch_fn_t fn)
{
	int i;
	for (i = 0; i < ndent; i++) {
		if (dtab[i].live && dtab[i].fd == fd) {
			if (dtab[i].data != data) {
				/* a closed descriptor number was reused by somebody else: refuse, and report */
				stale_mod++;
				printf("STALE-FD dispatch_mod of descriptor %d that is registered for another object\n", fd);
				return -ENOENT;
			}
			dtab[i].events = ev; dtab[i].data = data; dtab[i].fn = fn;
			return 0;
		}
	}
	return -ENOENT;
}
static int32_t d_del(int32_t fd)
{
	int i;
	for (i = 0; i < ndent; i++) {
		if (dtab[i].live && dtab[i].fd == fd) { dtab[i].live = 0; return 0; }
	}
	return -ENOENT;
}
struct job { void *data; qb_loop_job_dispatch_fn fn; };
#define MAXJ 256
static struct job jobs[MAXJ];
static int njobs = 0;
static int32_t j_add(enum qb_loop_priority p, void *data, qb_loop_job_dispatch_fn fn)
{
	if (njobs == MAXJ) return -ENOMEM;
	jobs[njobs].data = data; jobs[njobs].fn = fn; njobs++;
	return 0;
}

/* ------------------------------------------------------------------ lab state */
#define MAXC 200
#define MAXS 6
struct sc { qb_ipcs_connection_t *p; int accept_called, created_called, closed_called, destroyed_called, uref, slot; };
static struct sc C[MAXC];
static int nconn = 0;
static qb_ipcs_service_t *svc = NULL;
static int svc_destroyed = 0;      /* the application called qb_ipcs_destroy */
static int is_shm = 0;
static char svc_name[64];
static int svc_counter = 0;
static qb_ipcc_connection_t *cli[MAXS];
static int slot_conn[MAXS];
static qb_ipcc_connection_t *zombie[MAXC];
static int nzombie = 0;
static int cur_slot = -1;
static int quiet = 0;              /* teardown phase: behaviour tables are not consulted any more */
static int depth = 0;              /* callback nesting level: 1 inside an outermost callback */
static int maxdepth = 6;           /* callbacks nested deeper than this run no actions (same cut in the model) */

struct act { char op; int tgt; int arg; };   /* tgt -1 = self */
struct beh { int ret; int nact; struct act a[8]; };
#define MAXB 128
static struct beh btab[5][MAXB];
static int bhead[5], btail[5];
static const char *kinds = "acmld";
static const char *kname[] = { "accept", "created", "msg", "closed", "destroyed" };

static int id_of(qb_ipcs_connection_t *p)
{
	int i;
	for (i = nconn - 1; i >= 0; i--) if (C[i].p == p) return i;
	return -1;
}

static int alive_conns(void)
{
	int i, n = 0;
	for (i = 0; i < nconn; i++) if (!C[i].destroyed_called) n++;
	return n;
}

static void run_actions(const struct beh *b, int self);

static struct beh pop_beh(int k)
{
	struct beh b;
	memset(&b, 0, sizeof b);
	if (!quiet && bhead[k] < btail[k]) b = btab[k][bhead[k]++];
	return b;
}

static int last_accept_ret = 0;
/* ------------------------------------------------------------------ server callbacks */
static int32_t cb_accept(qb_ipcs_connection_t *c, uid_t uid, gid_t gid)
{
	struct beh b = pop_beh(0);
	int id;
	if (nconn >= MAXC) { printf("TOO-MANY-CONNECTIONS\n"); return -ENOMEM; }
	id = nconn++;
	memset(&C[id], 0, sizeof C[id]);
	C[id].p = c; C[id].accept_called = 1; C[id].slot = cur_slot;
	if (cur_slot >= 0) slot_conn[cur_slot] = id;
	printf("%s accept %d %d\n", quiet ? "cbq" : "cb", id, b.ret);
	last_accept_ret = b.ret;
	run_actions(&b, id);
	return b.ret;
}
static void cb_created(qb_ipcs_connection_t *c)
{
	struct beh b = pop_beh(1);
	int id = id_of(c);
	if (id >= 0) C[id].created_called++;
	printf("%s created %d %d\n", quiet ? "cbq" : "cb", id, 0);
	run_actions(&b, id);
}
static int32_t cb_msg(qb_ipcs_connection_t *c, void *data, size_t size)
{
	struct beh b = pop_beh(2);
	int id = id_of(c);
	printf("%s msg %d %d\n", quiet ? "cbq" : "cb", id, b.ret);
	run_actions(&b, id);
	return b.ret;
}
static int32_t cb_closed(qb_ipcs_connection_t *c)
{
	struct beh b = pop_beh(3);
	int id = id_of(c);
	if (id >= 0) C[id].closed_called++;
	printf("%s closed %d %d\n", quiet ? "cbq" : "cb", id, b.ret);
	run_actions(&b, id);
	return b.ret;
}
static void cb_destroyed(qb_ipcs_connection_t *c)
{
	struct beh b = pop_beh(4);
	int id = id_of(c);
	printf("%s destroyed %d %d\n", quiet ? "cbq" : "cb", id, 0);
	if (id >= 0) {
		if (C[id].destroyed_called) printf("DOUBLE-DESTROYED %d\n", id);
		C[id].destroyed_called = 1;
		if (C[id].slot >= 0 && slot_conn[C[id].slot] == id) {
			/* the client object stays; its server side is gone */
		}
	}
	run_actions(&b, id);
}

/* ------------------------------------------------------------------ application actions */
static int allowed(int id)
{
	if (id < 0 || id >= nconn) return 0;
	if (!C[id].accept_called) return 0;
	return !C[id].destroyed_called || C[id].uref > 0;
}

static void do_action(struct act a, int self)
{
	int id = (a.tgt < 0) ? self : a.tgt;
	qb_ipcs_connection_t *p;
	static unsigned char msg[32];
	struct qb_ipc_response_header *rh = (struct qb_ipc_response_header *)msg;
	if (a.op == 'X' || a.op == 'L' || a.op == 'I' || a.op == 'K') {
		if (svc_destroyed || !svc) { printf("skip %c\n", a.op); return; }
		if (a.op == 'X') {
			printf("a X\n");
			svc_destroyed = 1;
			qb_ipcs_destroy(svc);
		} else if (a.op == 'L') {
			if (a.arg < 0 || a.arg > 4) { printf("skip L\n"); return; }
			printf("a L %d\n", a.arg);
			qb_ipcs_request_rate_limit(svc, (enum qb_ipcs_rate_limit)a.arg);
		} else {
			qb_ipcs_connection_t *c, *n;
			printf("a %c\n", a.op);
			c = qb_ipcs_connection_first_get(svc);
			while (c) {
				printf("it %d\n", id_of(c));
				if (a.op == 'K') qb_ipcs_disconnect(c);
				n = qb_ipcs_connection_next_get(svc, c);
				qb_ipcs_connection_unref(c);
				c = n;
			}
		}
		return;
	}
	if (!allowed(id)) { printf("skip %c %d\n", a.op, id); return; }
	p = C[id].p;
	switch (a.op) {
	case 'D':
		printf("a D %d\n", id);
		qb_ipcs_disconnect(p);
		break;
	case 'R':
		printf("a R %d\n", id);
		C[id].uref++;
		qb_ipcs_connection_ref(p);
		break;
	case 'U':
		if (C[id].uref <= 0) { printf("skip U %d\n", id); return; }
		printf("a U %d\n", id);
		C[id].uref--;
		qb_ipcs_connection_unref(p);
		break;
	case 'S':
	case 'P':
		/* socket transport: after the closed callback the descriptors are gone; an application that knows the
		 * connection is closed does not send (and the lab must not write into reused descriptor numbers) */
		if (!is_shm && C[id].closed_called) { printf("skip %c %d\n", a.op, id); return; }
		printf("a %c %d\n", a.op, id);
		memset(msg, 0, sizeof msg);
		rh->id = 9; rh->size = sizeof *rh; rh->error = 0;
		if (a.op == 'S') (void)qb_ipcs_event_send(p, msg, sizeof *rh);
		else (void)qb_ipcs_response_send(p, msg, sizeof *rh);
		break;
	default:
		printf("skip ? %d\n", id);
	}
}

static void run_actions(const struct beh *b, int self)
{
	int i;
	depth++;
	if (depth <= maxdepth) {
		for (i = 0; i < b->nact; i++) do_action(b->a[i], self);
	}
	depth--;
}

/* ------------------------------------------------------------------ turns */
static int is_conn_ptr(void *d)
{
	int i;
	for (i = 0; i < nconn; i++) if ((void *)C[i].p == d) return 1;
	return 0;
}

/* which = 0: handshake entries (acceptor, process_auth); 1: entries whose data is `target'; 2: everything */
static int server_turn(int which, void *target)
{
	struct dent snap[MAXD];
	int n = ndent, i, calls = 0;
	memcpy(snap, dtab, sizeof(struct dent) * n);
	for (i = 0; i < n; i++) {
		struct pollfd p;
		int32_t res;
		if (!snap[i].live) continue;
		if (!dtab[i].live || dtab[i].fd != snap[i].fd || dtab[i].fn != snap[i].fn) continue;
		if (which == 0 && is_conn_ptr(dtab[i].data)) continue;
		if (which == 1 && dtab[i].data != target) continue;
		p.fd = snap[i].fd; p.events = (short)dtab[i].events; p.revents = 0;
		if (poll(&p, 1, 0) <= 0 || p.revents == 0) continue;
		calls++;
		res = dtab[i].fn(snap[i].fd, p.revents, dtab[i].data);
		if (res < 0) {
			/* qb_loop drops a descriptor whose callback returns < 0 */
			if (dtab[i].live && dtab[i].fd == snap[i].fd && dtab[i].fn == snap[i].fn) dtab[i].live = 0;
		}
	}
	return calls;
}

static int run_jobs(void)
{
	struct job snap[MAXJ];
	int n = njobs, i;
	memcpy(snap, jobs, sizeof(struct job) * n);
	njobs = 0;
	for (i = 0; i < n; i++) snap[i].fn(snap[i].data);
	return n;
}

static const char *svc_digest(void)
{
	static char b[32];
	/* the service object lives as long as the creator's reference or a connection's reference does */
	if (!svc) return "-";
	if (svc_destroyed && alive_conns() == 0) return "freed";
	snprintf(b, sizeof b, "%d", ((struct qb_ipcs_service *)svc)->ref_count);
	return b;
}

static void print_state(void)
{
	int i;
	printf("st svc=%s", svc_digest());
	for (i = 0; i < nconn; i++) {
		struct qb_ipcs_connection *c = C[i].p;
		if (C[i].destroyed_called) continue;
		printf(" %d:%d:%d:%d", i, (int)c->state, c->refcount, C[i].uref);
	}
	printf(" jobs=%d\n", njobs);
}

/* ------------------------------------------------------------------ census */
static int count_fds(void)
{
	DIR *d = opendir("/proc/self/fd");
	struct dirent *e;
	int n = 0;
	if (!d) return -1;
	while ((e = readdir(d))) if (e->d_name[0] != '.') n++;
	closedir(d);
	return n - 1;
}
static int count_shm(void)
{
	DIR *d = opendir("/dev/shm");
	struct dirent *e;
	char pfx[64];
	int n = 0;
	if (!d) return -1;
	snprintf(pfx, sizeof pfx, "qb-%d-", (int)getpid());
	while ((e = readdir(d))) if (strncmp(e->d_name, pfx, strlen(pfx)) == 0) n++;
	closedir(d);
	return n;
}
static int fds_at_start = -1;
static int shm_at_start = 0;    /* residue of an earlier (crashed) process that happened to have our pid */

static void reset_case(void)
{
	memset(C, 0, sizeof C);
	nconn = 0;
	svc = NULL; svc_destroyed = 0;
	memset(cli, 0, sizeof cli);
	memset(slot_conn, -1, sizeof slot_conn);
	nzombie = 0;
	ndent = 0; njobs = 0;
	memset(bhead, 0, sizeof bhead);
	memset(btail, 0, sizeof btail);
	quiet = 0; depth = 0; maxdepth = 6; cur_slot = -1; stale_mod = 0;
}

/* tear down; everything the library still owes (closed/destroyed callbacks) is logged as "cbq" lines */
static void do_end(void)
{
	int i, guard;
	printf("op end\n");
	quiet = 1;
	for (i = 0; i < MAXS; i++) if (cli[i]) { qb_ipcc_disconnect(cli[i]); cli[i] = NULL; }
	for (i = 0; i < nzombie; i++) if (zombie[i]) { qb_ipcc_disconnect(zombie[i]); zombie[i] = NULL; }
	nzombie = 0;
	if (svc) {
		for (guard = 0; guard < 8; guard++) {
			int c = server_turn(2, NULL);
			c += run_jobs();
			if (c == 0) break;
		}
		for (i = 0; i < nconn; i++) {
			while (C[i].uref > 0 && !C[i].destroyed_called) {
				C[i].uref--;
				qb_ipcs_connection_unref(C[i].p);
			}
		}
		if (!svc_destroyed) {
			svc_destroyed = 1;
			qb_ipcs_destroy(svc);
		}
		for (guard = 0; guard < 8 && njobs > 0; guard++) run_jobs();
	}
	printf("r alive=%d shm_left=%d fds_delta=%d stale=%d\n", alive_conns(), count_shm() - shm_at_start, count_fds() - fds_at_start, stale_mod);
	reset_case();
}

static int start_service(int shm)
{
	struct qb_ipcs_service_handlers sh = { cb_accept, cb_created, cb_msg, cb_closed, cb_destroyed };
	struct qb_ipcs_poll_handlers ph = { j_add, d_add, d_mod, d_del };
	int32_t res;
	snprintf(svc_name, sizeof svc_name, "vl%d_%d", (int)getpid(), svc_counter++);
	is_shm = shm;
	svc = qb_ipcs_create(svc_name, 1, shm ? QB_IPC_SHM : QB_IPC_SOCKET, &sh);
	if (!svc) return -ENOMEM;
	qb_ipcs_poll_handlers_set(svc, &ph);
	res = qb_ipcs_run(svc);
	if (res != 0) { svc = NULL; return res; }
	return 0;
}

static int die_in_handshake = 0;
static int do_conn(int slot)
{
	int cfd = -1, guard, before = nconn;
	int32_t res;
	last_accept_ret = 0;
	qb_ipcc_connection_t *c;
	c = qb_ipcc_connect_async(svc_name, 8192, &cfd);
	if (!c) return -errno;
	if (die_in_handshake) {
		/* the client stops reading before the server answers: the server's response send fails (EPIPE) */
		shutdown(((struct qb_ipcc_connection *)c)->setup.u.us.sock, SHUT_RD);
	}
	cur_slot = slot;
	for (guard = 0; guard < 6 && nconn == before; guard++) server_turn(0, NULL);
	cur_slot = -1;
	res = qb_ipcc_connect_continue(c);
	if (res != 0) return res;     /* the library freed the client object */
	if (die_in_handshake) { qb_ipcc_disconnect(c); return -ENOTCONN; }
	cli[slot] = c;
	return 0;
}

/* ------------------------------------------------------------------ script */
static const char *NEXT(char **p)
{
	char *s = *p, *t;
	while (*s == ' ') s++;
	if (*s == 0 || *s == '\n') { *p = s; return NULL; }
	t = s;
	while (*t && *t != ' ' && *t != '\n') t++;
	if (*t) { *t = 0; t++; }
	*p = t;
	return s;
}
static long NUM(char **p, long def)
{
	const char *s = NEXT(p);
	return s ? strtol(s, NULL, 0) : def;
}

static int parse_act(const char *tok, struct act *a)
{
	const char *colon = strchr(tok, ':');
	a->op = tok[0]; a->tgt = -1; a->arg = 0;
	if (!strchr("DRUSPXLIK", a->op) || a->op == 0) return -1;
	if (colon) {
		if (colon[1] == 's') a->tgt = -1;
		else { a->tgt = (int)strtol(colon + 1, NULL, 0); a->arg = a->tgt; }
	}
	return 0;
}

static void on_alarm(int sig)
{
	static const char m[] = "\nHANG\n";
	fflush(stdout);
	(void)!write(1, m, sizeof m - 1);
	_exit(97);
}

int main(void)
{
	static char line[1024];
	setvbuf(stdout, NULL, _IOLBF, 1 << 16);   /* a sanitizer abort must not lose the log */
	signal(SIGALRM, on_alarm);
	signal(SIGPIPE, SIG_IGN);
	qb_log_init("h_ipclife", LOG_USER, LOG_EMERG);
	qb_log_ctl(QB_LOG_SYSLOG, QB_LOG_CONF_ENABLED, QB_FALSE);
	fds_at_start = count_fds();
	shm_at_start = count_shm();
	reset_case();
	while (fgets(line, sizeof line, stdin)) {
		char *p = line;
		const char *op;
		size_t L = strlen(line);
		if (L && line[L - 1] == '\n') line[L - 1] = 0;
		if (line[0] == '#') {
			if (svc) do_end();
			reset_case();
			printf("%s\n", line);
			fflush(stdout);
			alarm(30);
			continue;
		}
		op = NEXT(&p);
		if (!op) continue;
		if (!strcmp(op, "svc")) {
			const char *t = NEXT(&p);
			int r;
			if (svc) { printf("op svc ?\nr -1\n"); continue; }
			r = start_service(t && !strcmp(t, "shm"));
			printf("op svc %s\nr %d\n", is_shm ? "shm" : "sock", r);
			print_state();
			continue;
		}
		if (!strcmp(op, "depth")) {
			maxdepth = (int)NUM(&p, 6);
			if (maxdepth < 0) maxdepth = 0;
			if (maxdepth > 40) maxdepth = 40;
			printf("depth %d\n", maxdepth);
			continue;
		}
		if (!strcmp(op, "beh")) {
			const char *k = NEXT(&p);
			const char *kp = k ? strchr(kinds, k[0]) : NULL;
			const char *tok;
			struct beh b;
			int ki;
			if (!kp || !k[0]) continue;
			ki = (int)(kp - kinds);
			memset(&b, 0, sizeof b);
			b.ret = (int)NUM(&p, 0);
			while ((tok = NEXT(&p)) && b.nact < 8) {
				if (parse_act(tok, &b.a[b.nact]) == 0) b.nact++;
			}
			if (btail[ki] >= MAXB) continue;       /* table full: the entry is dropped and not echoed */
			btab[ki][btail[ki]++] = b;
			/* echoed in canonical form: the model reads the table from the log */
			printf("beh %c %d", kinds[ki], b.ret);
			for (ki = 0; ki < b.nact; ki++) {
				if (b.a[ki].op == 'L') printf(" L:%d", b.a[ki].arg);
				else if (strchr("XIK", b.a[ki].op)) printf(" %c", b.a[ki].op);
				else if (b.a[ki].tgt < 0) printf(" %c:s", b.a[ki].op);
				else printf(" %c:%d", b.a[ki].op, b.a[ki].tgt);
			}
			printf("\n");
			continue;
		}
		if (!svc) { printf("op %s ?\nr no-service\n", op); continue; }
		if (!strcmp(op, "conn") || !strcmp(op, "connx")) {
			long slot = NUM(&p, 0);
			int r;
			die_in_handshake = (op[4] == 'x');
			printf("op %s %ld\n", op, slot);
			if (slot < 0 || slot >= MAXS || cli[slot] || svc_destroyed || nconn >= MAXC - 1) { printf("r skip\n"); print_state(); continue; }
			r = do_conn((int)slot);
			/* the client sees the accept callback's refusal code, or some transport error when the server
			 * side was torn down inside the created callback */
			if (r == last_accept_ret && !(die_in_handshake && r == 0)) printf("r %d\n", r);
			else printf("r err\n");
			print_state();
			continue;
		}
		if (!strcmp(op, "req")) {
			long slot = NUM(&p, 0);
			struct qb_ipc_request_header rq;
			ssize_t r;
			printf("op req %ld\n", slot);
			if (slot < 0 || slot >= MAXS || !cli[slot]) { printf("r skip\n"); print_state(); continue; }
			memset(&rq, 0, sizeof rq);
			rq.id = 5; rq.size = sizeof rq;
			r = qb_ipcc_send(cli[slot], &rq, sizeof rq);
			printf("r %s\n", r == (ssize_t)sizeof rq ? "ok" : "fail");
			print_state();
			continue;
		}
		if (!strcmp(op, "hup") || !strcmp(op, "kill")) {
			long slot = NUM(&p, 0);
			printf("op %s %ld\n", op, slot);
			if (slot < 0 || slot >= MAXS || !cli[slot]) { printf("r skip\n"); print_state(); continue; }
			if (op[0] == 'h') {
				qb_ipcc_disconnect(cli[slot]);
			} else {
				struct qb_ipcc_connection *c = cli[slot];
				shutdown(c->setup.u.us.sock, SHUT_RDWR);
				zombie[nzombie++] = cli[slot];
			}
			cli[slot] = NULL;
			{
				/* kernel oracle: closing a datagram socket purges what it had queued at a peer connected
				 * back to it; tell the model whether the server's request socket still holds requests */
				int id = slot_conn[slot], empty = 0;
				if (!is_shm && id >= 0 && id < nconn && !C[id].destroyed_called) {
					struct qb_ipcs_connection *sc = C[id].p;
					if (sc->state == QB_IPCS_CONNECTION_ESTABLISHED) {
						struct pollfd pf;
						pf.fd = sc->request.u.us.sock; pf.events = POLLIN; pf.revents = 0;
						empty = !(poll(&pf, 1, 0) > 0 && (pf.revents & POLLIN));
					}
				}
				printf("r 0 %s\n", empty ? "e" : "q");
			}
			print_state();
			continue;
		}
		if (!strcmp(op, "t")) {
			long id = NUM(&p, 0);
			int calls = 0;
			printf("op t %ld\n", id);
			{
				/* kernel oracle (socket transport): does the request socket still hold datagrams?  (a close by the
				 * client, or our own send to a closed client, purges the queue of a connected datagram socket) */
				int empty = 0;
				if (!is_shm && id >= 0 && id < nconn && !C[id].destroyed_called) {
					struct qb_ipcs_connection *sc = C[id].p;
					if (sc->state == QB_IPCS_CONNECTION_ESTABLISHED) {
						struct pollfd pf;
						pf.fd = sc->request.u.us.sock; pf.events = POLLIN; pf.revents = 0;
						empty = !(poll(&pf, 1, 0) > 0 && (pf.revents & POLLIN));
					}
				}
				printf("kq %s\n", empty ? "e" : "q");
			}
			if (id >= 0 && id < nconn) calls = server_turn(1, C[id].p);
			printf("r %d\n", calls);
			print_state();
			continue;
		}
		if (!strcmp(op, "jobs")) {
			int n;
			printf("op jobs\n");
			n = run_jobs();
			printf("r %d\n", n);
			print_state();
			continue;
		}
		if (!strcmp(op, "app")) {
			const char *tok = NEXT(&p);
			struct act a;
			if (!tok || parse_act(tok, &a) != 0) { printf("op app ?\nr bad\n"); continue; }
			if (a.op == 'L') printf("op app L:%d\n", a.arg);
			else if (strchr("XIK", a.op)) printf("op app %c\n", a.op);
			else printf("op app %c:%d\n", a.op, a.tgt);
			do_action(a, -1);
			printf("r 0\n");
			print_state();
			continue;
		}
		if (!strcmp(op, "end")) {
			do_end();
			continue;
		}
		printf("op %s\nr unknown-op\n", op);
	}
	if (svc) do_end();
	fflush(stdout);
	return 0;
}
