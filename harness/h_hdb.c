/* C20 correspondence harness: drives the real lib/hdb.c (compiled from the working tree,
 * ASan+UBSan) from a symbolic script and prints, for every API call actually made, the
 * concrete call and its observable result.  The model is then run on the concrete calls.
 *
 * script lines (stdin):
 *   C <chk>            create; random() returns <chk>
 *   F                  create with an instance size no allocator can satisfy (malloc fails -> -ENOMEM)
 *   G|P|D|R <ref>      get / put / destroy / refcount_get on a handle reference
 *   A <ref>            qb_hdb_handle_get_always      B <ref>  qb_hdb_base_convert
 *   V <ref>            qb_hdb_nocheck_convert of the low 32 bits of the reference
 *   X                  iterator_reset          N   iterator_next
 *   #...               case separator: "# case <n>" starts a fresh database
 * handle reference:  @k[mod]  = handle returned by the k-th successful-or-not create of this case
 *                    (0 when that create failed), modified by
 *                       =      as issued            n   check := 0xFFFFFFFF (no-check form)
 *                       z      check := 0           c<d> check += d       i<d> index += d
 *                    L<dec>   literal 64-bit value
 * output lines:  "op <letter> <concrete uint64 arg>"  then zero or more "d <inst>" (destructor
 *                calls made during the op), then "r <res> <val>"  or "i <res> <inst> <handle>".
 */
#include "os_base.h"
#include <stdio.h>
#include <stdlib.h>
#include <string.h>
#include <inttypes.h>
#include <qb/qbhdb.h>

static long next_random = 1;
long __wrap_random(void) { return next_random; }

static struct qb_hdb db;
static int db_live = 0;
static long next_id = 1;

static void destructor(void *inst)
{
	printf("d %ld\n", *(long *)inst);
}

#define MAXH 100000
static uint64_t issued[MAXH];
static int n_issued = 0;

static uint64_t resolve(const char *s)
{
	if (s[0] == 'L') {
		return strtoull(s + 1, NULL, 0);
	}
	if (s[0] == '@') {
		char *end;
		long k = strtol(s + 1, &end, 10);
		uint64_t h = (k >= 0 && k < n_issued) ? issued[k] : 0;
		uint32_t chk = (uint32_t)(h >> 32), idx = (uint32_t)(h & 0xFFFFFFFFu);
		switch (*end) {
		case 'n': chk = 0xFFFFFFFFu; break;
		case 'z': chk = 0; break;
		case 'c': chk += (uint32_t)strtol(end + 1, NULL, 10); break;
		case 'i': idx += (uint32_t)strtol(end + 1, NULL, 10); break;
		default: break;
		}
		return ((uint64_t)chk << 32) | idx;
	}
	return 0;
}

static void fresh_db(void)
{
	if (db_live) {
		qb_hdb_destroy(&db);
	}
	qb_hdb_create(&db);
	db.destructor = destructor;
	db_live = 1;
	n_issued = 0;
	next_id = 1;
}

int main(void)
{
	char line[256], arg[128];
	setvbuf(stdout, NULL, _IOFBF, 1 << 16);
	fresh_db();
	while (fgets(line, sizeof line, stdin)) {
		char c = line[0];
		arg[0] = 0;
		if (c == '#') {
			fresh_db();
			fputs(line, stdout);
			continue;
		}
		sscanf(line + 1, " %127s", arg);
		if (c == 'C') {
			qb_handle_t h = 0;
			int32_t res;
			next_random = strtol(arg, NULL, 10);
			printf("op C %ld\n", next_random);
			res = qb_hdb_handle_create(&db, sizeof(long), &h);
			if (n_issued < MAXH) issued[n_issued++] = (res == 0) ? h : 0;
			printf("r %d 0x%" PRIx64 "\n", res, (res == 0) ? h : (uint64_t)0);
			if (res == 0) {
				/* tag the instance with its allocation-order id: an explicit get + put,
				 * logged as ordinary calls so that the model performs them too */
				void *inst = NULL;
				int32_t r2;
				printf("op G 0x%" PRIx64 "\n", h);
				r2 = qb_hdb_handle_get(&db, h, &inst);
				if (r2 == 0 && inst) {
					*(long *)inst = next_id;
				}
				printf("r %d %ld\n", r2, (r2 == 0) ? next_id : 0L);
				next_id++;
				printf("op P 0x%" PRIx64 "\n", h);
				r2 = qb_hdb_handle_put(&db, h);
				printf("r %d 0\n", r2);
			}
		} else if (c == 'F') {
			/* create whose instance allocation fails: malloc((size_t)-1) returns NULL */
			qb_handle_t h = 0;
			int32_t res;
			next_random = 7;
			printf("op F 0\n");
			res = qb_hdb_handle_create(&db, -1, &h);
			if (n_issued < MAXH) issued[n_issued++] = (res == 0) ? h : 0;
			printf("r %d 0\n", res);
		} else if (c == 'B') {
			uint64_t h = resolve(arg);
			uint64_t v;
			printf("op B 0x%" PRIx64 "\n", h);
			v = qb_hdb_base_convert(h);
			printf("r 0 0x%" PRIx64 "\n", v);
		} else if (c == 'V') {
			uint64_t h = resolve(arg);
			uint64_t v;
			printf("op V 0x%" PRIx64 "\n", h & 0xFFFFFFFFu);
			v = qb_hdb_nocheck_convert((uint32_t)(h & 0xFFFFFFFFu));
			printf("r 0 0x%" PRIx64 "\n", v);
		} else if (c == 'G' || c == 'A') {
			uint64_t h = resolve(arg);
			void *inst = (void *)0x1;
			int32_t res;
			printf("op %c 0x%" PRIx64 "\n", c, h);
			res = (c == 'G') ? qb_hdb_handle_get(&db, h, &inst) : qb_hdb_handle_get_always(&db, h, &inst);
			if (res != 0 && inst != NULL) {
				printf("note instance-not-cleared-on-failure\n");
			}
			printf("r %d %ld\n", res, (res == 0 && inst) ? *(long *)inst : 0L);
		} else if (c == 'P' || c == 'D' || c == 'R') {
			uint64_t h = resolve(arg);
			int32_t res;
			printf("op %c 0x%" PRIx64 "\n", c, h);
			if (c == 'P') res = qb_hdb_handle_put(&db, h);
			else if (c == 'D') res = qb_hdb_handle_destroy(&db, h);
			else res = qb_hdb_handle_refcount_get(&db, h);
			printf("r %d 0\n", res);
		} else if (c == 'X') {
			printf("op X 0\n");
			qb_hdb_iterator_reset(&db);
			printf("r 0 0\n");
		} else if (c == 'N') {
			void *inst = NULL;
			qb_handle_t h = 0;
			int32_t res;
			printf("op N 0\n");
			res = qb_hdb_iterator_next(&db, &inst, &h);
			printf("i %d %ld 0x%" PRIx64 "\n", res, (res == 0 && inst) ? *(long *)inst : 0L,
			       (res == 0) ? h : (uint64_t)0);
		}
	}
	fflush(stdout);
	return 0;
}
