/* C05 correspondence harness: IPC admission (DESIGN.md 4.2 IPC lab, C05).
 *
 * The SERVER is the unmodified lib/ of the working tree (ASan + UBSan) running in this process (root) with
 * harness-owned poll handlers, driven call by call from the script.  CLIENTS are forked children that change their
 * real/effective ids (setregid + setreuid, supplementary groups dropped) and then connect, either through the
 * library's own client (qb_ipcc_connect_async / _continue) or "raw" (the handshake done by hand so that the peer keeps
 * its stream socket after a refusal and goes on sending).
 *
 * Every file-system call the server-side library makes (-Wl,--wrap=: open(O_CREAT) openat(O_CREAT) mkstemp mkdtemp
 * mkdir chmod fchmod fchmodat chown fchown lchown fchownat unlink unlinkat rmdir rename truncate) is LOGGED in order
 * with canonicalised arguments and result ("sys ..."), and after EVERY such call everything the connections of this
 * case created under /dev/shm is lstat()ed and printed ("fs ...") = the state "at any moment".
 *
 * Script (stdin), one op per line; "# case <n>" starts from scratch:
 *   svc shm|sock <umask-octal>          umask(); create + run a service (name derived from pid and a counter)
 *   beh <ret> [<uid> <gid> <mode-octal>]  next entry of the accept callback's behaviour FIFO: optional
 *                                       qb_ipcs_connection_auth_set(uid, gid, mode), then return <ret>
 *                                       (default when the FIFO is empty: return 0, no auth_set)
 *   start <slot> <ruid> <rgid> <euid> <egid> [raw]   fork a client; it connects and sends the handshake request
 *   acc                                 one server look at the listening socket (accept(2) of the oldest pending peer)
 *   auth <slot>                         the server reads the slot's request: process_auth -> handle_new_connection
 *   fin <slot>                          the client reads the answer: prints the result of its connect call
 *   req <slot>                          the client sends one request (a refused raw client sends on what it has)
 *   t <slot>                            one server look at the descriptors registered for the slot's connection
 *   tall                                one server look at every registered descriptor
 *   inject <slot> <victim>              the slot's client (any local process) sends a well-formed request datagram to the
 *                                       victim connection's request address, if it can find one (socket transport)
 *   failnext <k> <errno>                the k-th creating / mode- or owner-changing call from now on (open O_CREAT, mkdtemp,
 *                                       chmod, chown) fails with errno without being executed
 *   respond 0|1                         msg_process answers each request with qb_ipcs_response_send (default: no)
 *   kill <slot>                         SIGKILL the client (nothing is tidied up on its side)
 *   end                                 kill all clients, let the server notice, destroy the service, census
 *
 * Output: "op ..." echo; "sys ..." + "fs ..." per file-system call; "cb <kind> <conn-ordinal> ..." per application
 * callback; "chan <n>" = connections on the service's list; "connect <slot> <result>"; "sent <slot> <ok|fail>";
 * "end <residue> <fds-delta>".
 * Connection ordinal = ordinal of its mkdtemp call within the case.
 */
#define _GNU_SOURCE
#include "os_base.h"
#include <stdio.h>
#include <stdlib.h>
#include <stdarg.h>
#include <string.h>
#include <errno.h>
#include <poll.h>
#include <signal.h>
#include <dirent.h>
#include <grp.h>
#include <fcntl.h>
#include <sys/socket.h>
#include <sys/stat.h>
#include <sys/wait.h>
#include <sys/un.h>
#include <sys/uio.h>
#include <qb/qbdefs.h>
#include <qb/qbloop.h>
#include <qb/qbipcs.h>
#include <qb/qbipcc.h>
#include <qb/qbrb.h>
#include <qb/qblog.h>
#include "util_int.h"
#include "ipc_int.h"

int __real_unlink(const char *path);
int __real_rmdir(const char *path);
static pid_t server_pid;
static int logging = 0;           /* inside a case, in the server process */

/* ------------------------------------------------------------------ canonical names */
#define MAXDIR 32
static char dirs[MAXDIR][128];    /* full path of the k-th directory made by mkdtemp in this case */
static int ndirs = 0;
static char svc_name[64];
static int svc_counter = 0;
static pid_t expect_peer_pid = -1;

static const char *tags[] = { "request-header", "request-data", "response-header", "response-data",
			      "event-header", "event-data", "control", NULL };

/* file name inside a connection directory -> canonical tag */
static void canon_leaf(const char *leaf, char *out, size_t n)
{
	/* qb-<what>-<svc>[-header|-data] ; control: qb-control-<svc> */
	char buf[256];
	const char *p = leaf;
	char *q;
	if (strncmp(p, "qb-", 3) != 0) { snprintf(out, n, "?%s", leaf); return; }
	snprintf(buf, sizeof buf, "%s", p + 3);
	q = strstr(buf, svc_name);
	if (q == NULL || q == buf || q[-1] != '-') { snprintf(out, n, "?%s", leaf); return; }
	q[-1] = '\0';
	q += strlen(svc_name);
	snprintf(out, n, "%s%s", buf, q);     /* "request" + "-header" */
}

static void canon_path(const char *path, char *out, size_t n)
{
	int k;
	for (k = 0; k < ndirs; k++) {
		size_t l = strlen(dirs[k]);
		if (strncmp(path, dirs[k], l) == 0) {
			if (path[l] == '\0') { snprintf(out, n, "d%d", k); return; }
			if (path[l] == '/') {
				char leaf[200];
				canon_leaf(path + l + 1, leaf, sizeof leaf);
				snprintf(out, n, "d%d/%s", k, leaf);
				return;
			}
		}
	}
	snprintf(out, n, "?%s", path);
}

static int tag_index(const char *leaf)
{
	int i;
	for (i = 0; tags[i]; i++) if (strcmp(leaf, tags[i]) == 0) return i;
	return 99;
}

static int relevant(const char *path)
{
	return path != NULL && strncmp(path, "/dev/shm/qb-", 12) == 0;
}

/* ------------------------------------------------------------------ census = lstat of everything the case created */
struct cent { int tag; char name[200]; struct stat st; };
static int cent_cmp(const void *a, const void *b)
{
	const struct cent *x = a, *y = b;
	if (x->tag != y->tag) return x->tag - y->tag;
	return strcmp(x->name, y->name);
}

static void census(const char *label)
{
	int k;
	printf("%s", label);
	for (k = 0; k < ndirs; k++) {
		struct stat st;
		DIR *d;
		struct dirent *de;
		struct cent ce[32];
		int n = 0, i;
		if (lstat(dirs[k], &st) != 0) continue;
		printf(" d%d:%d:%d:%o:%s", k, (int)st.st_uid, (int)st.st_gid, (unsigned)(st.st_mode & 07777),
		       S_ISDIR(st.st_mode) ? "d" : "f");
		d = opendir(dirs[k]);
		if (d == NULL) continue;
		while ((de = readdir(d)) != NULL && n < 32) {
			char full[512];
			if (strcmp(de->d_name, ".") == 0 || strcmp(de->d_name, "..") == 0) continue;
			snprintf(full, sizeof full, "%s/%s", dirs[k], de->d_name);
			if (lstat(full, &ce[n].st) != 0) continue;
			canon_leaf(de->d_name, ce[n].name, sizeof ce[n].name);
			ce[n].tag = tag_index(ce[n].name);
			n++;
		}
		closedir(d);
		qsort(ce, n, sizeof ce[0], cent_cmp);
		for (i = 0; i < n; i++) {
			printf(" d%d/%s:%d:%d:%o:%s", k, ce[i].name, (int)ce[i].st.st_uid, (int)ce[i].st.st_gid,
			       (unsigned)(ce[i].st.st_mode & 07777),
			       S_ISDIR(ce[i].st.st_mode) ? "d" : S_ISREG(ce[i].st.st_mode) ? "f" : "o");
		}
	}
	printf("\n");
}

/* anything named qb-<server pid>-* in /dev/shm that is not a directory of this case (residue / unknown objects) */
static int unknown_objects(int print)
{
	DIR *d = opendir("/dev/shm");
	struct dirent *de;
	char pre[64];
	int n = 0, k;
	if (!d) return 0;
	snprintf(pre, sizeof pre, "qb-%d-", (int)server_pid);
	while ((de = readdir(d)) != NULL) {
		char full[512];
		int known = 0;
		if (strncmp(de->d_name, pre, strlen(pre)) != 0) continue;
		snprintf(full, sizeof full, "/dev/shm/%s", de->d_name);
		for (k = 0; k < ndirs; k++) if (strcmp(full, dirs[k]) == 0) known = 1;
		if (known) {
			/* a known directory still present counts as residue only at the end (caller decides) */
			if (print == 2) { n++; }
			continue;
		}
		n++;
		if (print) printf("UNKNOWN-OBJECT %s\n", de->d_name);
	}
	closedir(d);
	return n;
}

static void rm_rf_prefix(void)
{
	/* lab residue named after OUR pid can only be left by a dead process with a recycled pid, or by our own
	 * previous case after a breaking change: remove it so that the census is relative to this case */
	DIR *d = opendir("/dev/shm");
	struct dirent *de;
	char pre[64];
	if (!d) return;
	snprintf(pre, sizeof pre, "qb-%d-", (int)server_pid);
	while ((de = readdir(d)) != NULL) {
		char full[512];
		DIR *d2;
		struct dirent *e2;
		if (strncmp(de->d_name, pre, strlen(pre)) != 0) continue;
		snprintf(full, sizeof full, "/dev/shm/%s", de->d_name);
		d2 = opendir(full);
		if (d2) {
			while ((e2 = readdir(d2)) != NULL) {
				char f2[800];
				if (e2->d_name[0] == '.') continue;
				snprintf(f2, sizeof f2, "%s/%s", full, e2->d_name);
				__real_unlink(f2);
			}
			closedir(d2);
		}
		__real_rmdir(full);
		__real_unlink(full);
	}
	closedir(d);
}

/* ------------------------------------------------------------------ the wrappers */
static const char *ename(int e);

static void logsys(const char *fmt, ...)
{
	va_list ap;
	int saved = errno;
	va_start(ap, fmt);
	printf("sys ");
	vprintf(fmt, ap);
	printf("\n");
	va_end(ap);
	census("fs");
	errno = saved;
}
#define ACTIVE() (logging && getpid() == server_pid)
#define RES(r) ((r) < 0 ? ename(errno) : "0")   /* "-<errno>" */

/* fault injection: the fail_at-th wrapped creating/changing call from now on fails with fail_errno (not executed) */
static int fail_at = 0, fail_errno = 0;
static int should_fail(const char *path)
{
	if (!ACTIVE() || !relevant(path) || fail_at <= 0) return 0;
	if (--fail_at == 0) return 1;
	return 0;
}

static int fd_path(int fd, char *out, size_t n)
{
	char p[64];
	ssize_t l;
	if (fd == AT_FDCWD) { out[0] = '\0'; return 0; }
	snprintf(p, sizeof p, "/proc/self/fd/%d", fd);
	l = readlink(p, out, n - 1);
	if (l < 0) { out[0] = '\0'; return -1; }
	out[l] = '\0';
	return 0;
}

int __real_open(const char *path, int flags, ...);
int __wrap_open(const char *path, int flags, ...)
{
	mode_t mode = 0;
	int r;
	if (flags & (O_CREAT | O_TMPFILE)) {
		va_list ap; va_start(ap, flags); mode = va_arg(ap, mode_t); va_end(ap);
	}
	if ((flags & O_CREAT) && should_fail(path)) {
		char c[300];
		canon_path(path, c, sizeof c);
		logsys("open %s injected-failure = -%d", c, fail_errno);
		errno = fail_errno;
		return -1;
	}
	r = __real_open(path, flags, mode);
	if (ACTIVE() && (flags & O_CREAT) && relevant(path)) {
		char c[300]; int e = errno;
		canon_path(path, c, sizeof c);
		errno = e;
		logsys("open %s %s %o = %s", c, (flags & O_EXCL) ? "creat-excl" : "creat", (unsigned)mode, r < 0 ? ename(errno) : "fd");
	}
	return r;
}
int __real_openat(int dfd, const char *path, int flags, ...);
int __wrap_openat(int dfd, const char *path, int flags, ...)
{
	mode_t mode = 0;
	int r;
	if (flags & (O_CREAT | O_TMPFILE)) {
		va_list ap; va_start(ap, flags); mode = va_arg(ap, mode_t); va_end(ap);
	}
	r = __real_openat(dfd, path, flags, mode);
	if (ACTIVE() && (flags & O_CREAT)) {
		char dir[300], full[600], c[300]; int e = errno;
		fd_path(dfd, dir, sizeof dir);
		snprintf(full, sizeof full, "%s%s%s", path[0] == '/' ? "" : dir, path[0] == '/' ? "" : "/", path);
		if (relevant(full)) {
			canon_path(full, c, sizeof c);
			errno = e;
			logsys("open %s %s %o = %s", c, (flags & O_EXCL) ? "creat-excl" : "creat", (unsigned)mode, r < 0 ? ename(errno) : "fd");
		}
		errno = e;
	}
	return r;
}
int __real_mkstemp(char *tmpl);
int __wrap_mkstemp(char *tmpl)
{
	int r = __real_mkstemp(tmpl);
	if (ACTIVE() && relevant(tmpl)) {
		char c[300]; int e = errno;
		canon_path(tmpl, c, sizeof c);
		errno = e;
		logsys("mkstemp %s = %s", c, r < 0 ? ename(errno) : "fd");
	}
	return r;
}
char *__real_mkdtemp(char *tmpl);
char *__wrap_mkdtemp(char *tmpl)
{
	char before[300];
	char *r;
	snprintf(before, sizeof before, "%s", tmpl);
	if (should_fail(tmpl)) {
		logsys("mkdtemp ? injected-failure = -%d", fail_errno);
		errno = fail_errno;
		return NULL;
	}
	r = __real_mkdtemp(tmpl);
	if (ACTIVE() && relevant(before)) {
		int e = errno;
		int spid = -1, cpid = -1, fd = -1;
		int nameok;
		sscanf(before, "/dev/shm/qb-%d-%d-%d-", &spid, &cpid, &fd);
		nameok = (spid == (int)server_pid && cpid == (int)expect_peer_pid && fd >= 0);
		if (r != NULL && ndirs < MAXDIR) {
			snprintf(dirs[ndirs], sizeof dirs[0], "%s", tmpl);
			ndirs++;
			errno = e;
			logsys("mkdtemp d%d pids=%s = 0", ndirs - 1, nameok ? "ok" : "WRONG");
		} else {
			errno = e;
			logsys("mkdtemp ? pids=%s = %s", nameok ? "ok" : "WRONG", ename(errno));
		}
	}
	return r;
}
int __real_mkdir(const char *path, mode_t mode);
int __wrap_mkdir(const char *path, mode_t mode)
{
	int r = __real_mkdir(path, mode);
	if (ACTIVE() && relevant(path)) {
		int e = errno;
		if (r == 0 && ndirs < MAXDIR) {
			snprintf(dirs[ndirs], sizeof dirs[0], "%s", path);
			ndirs++;
			errno = e;
			logsys("mkdir d%d %o = 0", ndirs - 1, (unsigned)mode);
		} else {
			errno = e;
			logsys("mkdir ? %o = %s", (unsigned)mode, ename(errno));
		}
	}
	return r;
}
#define PATHCALL1(name, decl, call, fmt, ...)                                      \
	int __real_##name decl;                                                   \
	int __wrap_##name decl                                                    \
	{                                                                         \
		int r;                                                            \
		if ((#name[0] == 'c') && should_fail(path)) {                     \
			char c[300];                                              \
			canon_path(path, c, sizeof c);                            \
			logsys(#name " %s injected-failure = -%d", c, fail_errno); \
			errno = fail_errno;                                       \
			return -1;                                                \
		}                                                                 \
		r = __real_##name call;                                           \
		if (ACTIVE() && relevant(path)) {                                 \
			char c[300]; int e = errno;                               \
			canon_path(path, c, sizeof c);                            \
			errno = e;                                                \
			logsys(#name " %s" fmt " = %s", c, ##__VA_ARGS__, RES(r)); \
		}                                                                 \
		return r;                                                         \
	}
PATHCALL1(chmod, (const char *path, mode_t mode), (path, mode), " %o", (unsigned)mode)
PATHCALL1(chown, (const char *path, uid_t u, gid_t g), (path, u, g), " %d %d", (int)u, (int)g)
PATHCALL1(lchown, (const char *path, uid_t u, gid_t g), (path, u, g), " %d %d", (int)u, (int)g)
PATHCALL1(unlink, (const char *path), (path), "")
PATHCALL1(rmdir, (const char *path), (path), "")
PATHCALL1(truncate, (const char *path, off_t l), (path, l), " %ld", (long)l)

int __real_fchmod(int fd, mode_t mode);
int __wrap_fchmod(int fd, mode_t mode)
{
	int r = __real_fchmod(fd, mode);
	if (ACTIVE()) {
		char p[300], c[300]; int e = errno;
		fd_path(fd, p, sizeof p);
		if (relevant(p)) {
			canon_path(p, c, sizeof c);
			errno = e;
			logsys("chmod %s %o = %s", c, (unsigned)mode, RES(r));
		}
		errno = e;
	}
	return r;
}
int __real_fchown(int fd, uid_t u, gid_t g);
int __wrap_fchown(int fd, uid_t u, gid_t g)
{
	int r = __real_fchown(fd, u, g);
	if (ACTIVE()) {
		char p[300], c[300]; int e = errno;
		fd_path(fd, p, sizeof p);
		if (relevant(p)) {
			canon_path(p, c, sizeof c);
			errno = e;
			logsys("chown %s %d %d = %s", c, (int)u, (int)g, RES(r));
		}
		errno = e;
	}
	return r;
}
static void at_full(int dfd, const char *path, char *full, size_t n)
{
	char dir[300];
	if (path[0] == '/') { snprintf(full, n, "%s", path); return; }
	fd_path(dfd, dir, sizeof dir);
	snprintf(full, n, "%s/%s", dir, path);
}
int __real_fchmodat(int dfd, const char *path, mode_t mode, int fl);
int __wrap_fchmodat(int dfd, const char *path, mode_t mode, int fl)
{
	int r = __real_fchmodat(dfd, path, mode, fl);
	if (ACTIVE()) {
		char full[700], c[300]; int e = errno;
		at_full(dfd, path, full, sizeof full);
		if (relevant(full)) {
			canon_path(full, c, sizeof c);
			errno = e;
			logsys("chmod %s %o = %s", c, (unsigned)mode, RES(r));
		}
		errno = e;
	}
	return r;
}
int __real_fchownat(int dfd, const char *path, uid_t u, gid_t g, int fl);
int __wrap_fchownat(int dfd, const char *path, uid_t u, gid_t g, int fl)
{
	int r = __real_fchownat(dfd, path, u, g, fl);
	if (ACTIVE()) {
		char full[700], c[300]; int e = errno;
		at_full(dfd, path, full, sizeof full);
		if (relevant(full)) {
			canon_path(full, c, sizeof c);
			errno = e;
			logsys("chown %s %d %d = %s", c, (int)u, (int)g, RES(r));
		}
		errno = e;
	}
	return r;
}
int __real_unlinkat(int dfd, const char *path, int fl);
int __wrap_unlinkat(int dfd, const char *path, int fl)
{
	char full[700];
	int have = 0;
	int r;
	if (ACTIVE()) { at_full(dfd, path, full, sizeof full); have = 1; }
	r = __real_unlinkat(dfd, path, fl);
	if (have && relevant(full)) {
		char c[300]; int e = errno;
		canon_path(full, c, sizeof c);
		errno = e;
		logsys("%s %s = %s", (fl & AT_REMOVEDIR) ? "rmdir" : "unlink", c, RES(r));
	}
	return r;
}
int __real_rename(const char *a, const char *b);
int __wrap_rename(const char *a, const char *b)
{
	int r = __real_rename(a, b);
	if (ACTIVE() && (relevant(a) || relevant(b))) {
		char c1[300], c2[300]; int e = errno;
		canon_path(a, c1, sizeof c1);
		canon_path(b, c2, sizeof c2);
		errno = e;
		logsys("rename %s %s = %s", c1, c2, RES(r));
	}
	return r;
}
mode_t __real_umask(mode_t m);
mode_t __wrap_umask(mode_t m)
{
	mode_t r = __real_umask(m);
	if (ACTIVE()) {
		printf("sys umask %o = %o\n", (unsigned)m, (unsigned)r);
	}
	return r;
}

static const char *ename(int e)
{
	/* errno as a number: "-39"; names would need a table shared with the model */
	static char b[4][24];
	static int i = 0;
	if (e == 0) return "0";
	i = (i + 1) % 4;
	snprintf(b[i], sizeof b[i], "-%d", e);
	return b[i];
}

/* ------------------------------------------------------------------ dispatch table = the "main loop" */
struct dent { int fd; int events; void *data; qb_ipcs_dispatch_fn_t fn; int live; int slot; };
#define MAXD 128
static struct dent dtab[MAXD];
static int ndent = 0;
static int cur_slot = -1;          /* slot on whose behalf the server is running right now */
static int listen_fd = -1;

static int32_t d_add(enum qb_loop_priority p, int32_t fd, int32_t ev, void *data, qb_ipcs_dispatch_fn_t fn)
{
	int i;
	for (i = 0; i < ndent; i++) if (dtab[i].live && dtab[i].fd == fd) return -EEXIST;
	for (i = 0; i < ndent; i++) if (!dtab[i].live) break;
	if (i == ndent) {
		if (ndent == MAXD) return -ENOMEM;
		ndent++;
	}
	dtab[i].fd = fd; dtab[i].events = ev; dtab[i].data = data; dtab[i].fn = fn; dtab[i].live = 1;
	dtab[i].slot = cur_slot;
	if (listen_fd < 0 && cur_slot < 0) listen_fd = fd;
	return 0;
}
static int32_t d_mod(enum qb_loop_priority p, int32_t fd, int32_t ev, void *data, qb_ipcs_dispatch_fn_t fn)
{
	int i;
	for (i = 0; i < ndent; i++) {
		if (dtab[i].live && dtab[i].fd == fd) {
			dtab[i].events = ev; dtab[i].data = data; dtab[i].fn = fn;
			return 0;
		}
	}
	return -ENOENT;
}
static int32_t d_del(int32_t fd)
{
	int i;
	for (i = 0; i < ndent; i++) if (dtab[i].live && dtab[i].fd == fd) { dtab[i].live = 0; return 0; }
	return -ENOENT;
}
struct job { void *data; qb_loop_job_dispatch_fn fn; };
#define MAXJ 64
static struct job jobs[MAXJ];
static int njobs = 0;
static int32_t j_add(enum qb_loop_priority p, void *data, qb_loop_job_dispatch_fn fn)
{
	if (njobs == MAXJ) return -ENOMEM;
	jobs[njobs].data = data; jobs[njobs].fn = fn; njobs++;
	return 0;
}

/* ------------------------------------------------------------------ lab state */
#define MAXS 8
struct client { pid_t pid; int to, from; int alive; int raw; int accepted_fd_seen; int conn_ord; };
static struct client cl[MAXS];
static int pend[MAXS * 4];         /* slots whose connect(2) is pending in the listen queue, FIFO */
static int npend = 0;
static qb_ipcs_service_t *svc = NULL;
static int is_shm = 0;

struct beh { int ret; int has_auth; int uid, gid; unsigned mode; };
#define MAXB 64
static struct beh btab[MAXB];
static int bhead = 0, btail = 0;

#define MAXC 32
static qb_ipcs_connection_t *conn_ptr[MAXC];   /* by connection ordinal */

static int ord_of(qb_ipcs_connection_t *c)
{
	int i;
	for (i = 0; i < MAXC; i++) if (conn_ptr[i] == c) return i;
	return -1;
}

static int respond_on = 0;
static int32_t cb_accept(qb_ipcs_connection_t *c, uid_t uid, gid_t gid)
{
	int ord = ndirs - 1;
	struct beh b = { 0, 0, 0, 0, 0 };
	if (ord >= 0 && ord < MAXC) conn_ptr[ord] = c;
	if (cur_slot >= 0) cl[cur_slot].conn_ord = ord;
	if (bhead < btail) b = btab[bhead++];
	printf("cb accept %d %d %d\n", ord, (int)uid, (int)gid);
	if (b.has_auth) {
		qb_ipcs_connection_auth_set(c, (uid_t)b.uid, (gid_t)b.gid, (mode_t)b.mode);
	}
	return b.ret;
}
static void cb_created(qb_ipcs_connection_t *c) { printf("cb created %d\n", ord_of(c)); }
static int32_t cb_msg(qb_ipcs_connection_t *c, void *data, size_t size)
{
	printf("cb msg %d\n", ord_of(c));
	if (respond_on) {
		/* the first response makes the server connect() its datagram socket to the client's address */
		struct qb_ipc_response_header rh;
		rh.id = 0; rh.size = sizeof rh; rh.error = 0;
		printf("responded %d %s\n", ord_of(c), qb_ipcs_response_send(c, &rh, sizeof rh) == (ssize_t)sizeof rh ? "ok" : "fail");
	}
	return 0;
}
static int32_t cb_closed(qb_ipcs_connection_t *c) { printf("cb closed %d\n", ord_of(c)); return 0; }
static void cb_destroyed(qb_ipcs_connection_t *c)
{
	int o = ord_of(c);
	printf("cb destroyed %d\n", o);
	if (o >= 0) conn_ptr[o] = NULL;
}

static int chan_count(void)
{
	int n = 0;
	qb_ipcs_connection_t *c, *nx;
	if (!svc) return 0;
	for (c = qb_ipcs_connection_first_get(svc); c; c = nx) {
		n++;
		nx = qb_ipcs_connection_next_get(svc, c);
		qb_ipcs_connection_unref(c);
	}
	return n;
}

static int count_fds(void)
{
	DIR *d = opendir("/proc/self/fd");
	struct dirent *de;
	int n = 0;
	if (!d) return -1;
	while ((de = readdir(d)) != NULL) if (de->d_name[0] != '.') n++;
	closedir(d);
	return n - 1;
}
static int fds_at_start = 0;

/* ------------------------------------------------------------------ the client (child process) */
static void child_reply(int fd, const char *fmt, ...)
{
	char b[128];
	va_list ap;
	int n;
	va_start(ap, fmt);
	n = vsnprintf(b, sizeof b, fmt, ap);
	va_end(ap);
	if (write(fd, b, n) != n) _exit(3);
}

static void child_main(int rd, int wr, int ruid, int rgid, int euid, int egid, int raw, const char *name)
{
	int fd;
	qb_ipcc_connection_t *c = NULL;
	int sock = -1;
	int connected = 0;
	char cmd;

	for (fd = 3; fd < 1024; fd++) if (fd != rd && fd != wr) close(fd);
	signal(SIGPIPE, SIG_IGN);
	if (setgroups(0, NULL) != 0) _exit(4);
	if (setregid(rgid, egid) != 0) _exit(5);
	if (setreuid(ruid, euid) != 0) _exit(6);

	if (!raw) {
		int pfd = -1;
		c = qb_ipcc_connect_async(name, 8192, &pfd);
		child_reply(wr, "S %d\n", c ? 0 : -errno);
	} else {
		/* qb_ipcc_us_setup_connect by hand */
		struct sockaddr_un a;
		struct qb_ipc_connection_request rq;
		int on = 1, r;
		sock = socket(PF_UNIX, SOCK_STREAM, 0);
		memset(&a, 0, sizeof a);
		a.sun_family = AF_UNIX;
		snprintf(a.sun_path + 1, sizeof(a.sun_path) - 1, "%s", name);
		r = connect(sock, (struct sockaddr *)&a, QB_SUN_LEN(&a));
		if (r == 0) {
			setsockopt(sock, SOL_SOCKET, SO_PASSCRED, &on, sizeof on);
			memset(&rq, 0, sizeof rq);
			rq.hdr.id = QB_IPC_MSG_AUTHENTICATE;
			rq.hdr.size = sizeof rq;
			rq.max_msg_size = 8192;
			r = send(sock, &rq, sizeof rq, MSG_NOSIGNAL) == (ssize_t)sizeof rq ? 0 : -1;
		}
		child_reply(wr, "S %d\n", r == 0 ? 0 : -errno);
	}
	while (read(rd, &cmd, 1) == 1) {
		if (cmd == 'c') {
			if (!raw) {
				int rc = c ? qb_ipcc_connect_continue(c) : -EBADF;
				if (rc != 0) c = NULL; else connected = 1;
				child_reply(wr, "C %d\n", rc);
			} else {
				struct qb_ipc_connection_response rs;
				struct pollfd p = { sock, POLLIN, 0 };
				ssize_t n;
				poll(&p, 1, 2000);
				n = recv(sock, &rs, sizeof rs, MSG_DONTWAIT);
				if (n == (ssize_t)sizeof rs) {
					child_reply(wr, "C %d\n", (int)rs.hdr.error);
					connected = rs.hdr.error == 0;
				} else {
					child_reply(wr, "C %d\n", n < 0 ? -errno : -ENOTCONN);
				}
			}
		} else if (cmd == 'r') {
			int ok = 0, i;
			if (!raw) {
				struct qb_ipc_request_header h;
				h.id = QB_IPC_MSG_USER_START + 1;
				h.size = sizeof h;
				ok = c && connected && qb_ipcc_send(c, &h, sizeof h) == (ssize_t)sizeof h;
			} else {
				/* a peer that goes on sending whatever the answer was: request headers on its socket */
				for (i = 0; i < 3; i++) {
					struct qb_ipc_request_header h;
					h.id = QB_IPC_MSG_USER_START + 1;
					h.size = sizeof h;
					if (send(sock, &h, sizeof h, MSG_NOSIGNAL | MSG_DONTWAIT) == (ssize_t)sizeof h) ok = 1;
				}
			}
			child_reply(wr, "R %d\n", ok);
		} else if (cmd == 'i') {
			/* send a well-formed request to ANOTHER connection's request address (socket transport: an
			 * abstract-namespace datagram socket whose name anybody can read in /proc/net/unix) */
			int victim = 0, ok = 0;
			FILE *f;
			char ln[512], pat[64];
			if (read(rd, &victim, sizeof victim) != (ssize_t)sizeof victim) _exit(7);
			snprintf(pat, sizeof pat, "/dev/shm/qb-%d-%d-", (int)getppid(), victim);
			f = fopen("/proc/net/unix", "r");
			while (f && fgets(ln, sizeof ln, f)) {
				char *at = strstr(ln, pat), *e;
				if (!at) continue;
				e = at + strlen(at);
				while (e > at && (e[-1] == '\n' || e[-1] == '@')) *--e = '\0';
				if (e - at > 8 && strcmp(e - 8, "-request") == 0) {
					struct sockaddr_un a;
					struct qb_ipc_request_header h;
					int ds = socket(PF_UNIX, SOCK_DGRAM, 0);
					memset(&a, 0, sizeof a);
					a.sun_family = AF_UNIX;
					snprintf(a.sun_path + 1, sizeof(a.sun_path) - 1, "%s", at);
					h.id = QB_IPC_MSG_USER_START + 1;
					h.size = sizeof h;
					if (sendto(ds, &h, sizeof h, MSG_NOSIGNAL, (struct sockaddr *)&a, sizeof a) == (ssize_t)sizeof h) ok = 1;
					close(ds);
				}
			}
			if (f) fclose(f);
			child_reply(wr, "I %d\n", ok);
		} else if (cmd == 'q') {
			break;
		}
	}
	_exit(0);
}

static int child_read_reply(int slot, char want)
{
	char b[64];
	int n = 0;
	struct pollfd p = { cl[slot].from, POLLIN, 0 };
	while (n < (int)sizeof b - 1) {
		if (poll(&p, 1, 5000) <= 0) return -9999;
		if (read(cl[slot].from, b + n, 1) != 1) return -9998;
		if (b[n] == '\n') break;
		n++;
	}
	b[n] = '\0';
	if (b[0] != want) return -9997;
	return atoi(b + 2);
}

static void reap(int slot)
{
	if (cl[slot].alive) {
		int st;
		kill(cl[slot].pid, SIGKILL);
		waitpid(cl[slot].pid, &st, 0);
		close(cl[slot].to);
		close(cl[slot].from);
		cl[slot].alive = 0;
	}
}

/* ------------------------------------------------------------------ server turns */
static void run_entry(int i)
{
	struct pollfd p;
	int32_t r;
	int save = cur_slot;
	if (!dtab[i].live) return;
	p.fd = dtab[i].fd; p.events = dtab[i].events; p.revents = 0;
	if (poll(&p, 1, 0) <= 0 || p.revents == 0) return;
	if (dtab[i].slot >= 0) {
		cur_slot = dtab[i].slot;
		expect_peer_pid = cl[cur_slot].pid;
	}
	r = dtab[i].fn(dtab[i].fd, p.revents, dtab[i].data);
	if (r < 0 && dtab[i].live && dtab[i].fd == p.fd) dtab[i].live = 0;
	cur_slot = save;
}

static void run_jobs(void)
{
	int n = njobs, i;
	struct job j[MAXJ];
	memcpy(j, jobs, sizeof jobs);
	njobs = 0;
	for (i = 0; i < n; i++) j[i].fn(j[i].data);
}

static void turn_slot(int slot)
{
	int i;
	for (i = 0; i < ndent; i++) if (dtab[i].live && dtab[i].slot == slot) run_entry(i);
	run_jobs();
}

static void teardown(int print)
{
	int s, i, residue;
	for (s = 0; s < MAXS; s++) reap(s);
	for (i = 0; i < 3; i++) {
		int k;
		for (k = 0; k < ndent; k++) if (dtab[k].live && dtab[k].fd != listen_fd) run_entry(k);
		run_jobs();
	}
	if (svc) {
		qb_ipcs_destroy(svc);
		svc = NULL;
	}
	run_jobs();
	residue = unknown_objects(2);
	if (print) {
		census("fs");
		printf("end %d %d\n", residue, count_fds() - fds_at_start);
	}
	logging = 0;
	if (residue) rm_rf_prefix();
	for (i = 0; i < ndent; i++) {
		/* descriptors the library left registered (never its business to close the listening one twice) */
		dtab[i].live = 0;
	}
	ndent = 0; njobs = 0; npend = 0; bhead = btail = 0; ndirs = 0; listen_fd = -1; cur_slot = -1;
	memset(conn_ptr, 0, sizeof conn_ptr);
	memset(cl, 0, sizeof cl);
	umask(022);
	respond_on = 0;
	fail_at = 0;
}

/* ------------------------------------------------------------------ main */
int main(void)
{
	char line[256];
	struct qb_ipcs_service_handlers sh = { cb_accept, cb_created, cb_msg, cb_closed, cb_destroyed };
	struct qb_ipcs_poll_handlers ph = { j_add, d_add, d_mod, d_del };

	server_pid = getpid();
	setvbuf(stdout, NULL, _IOLBF, 0);
	signal(SIGPIPE, SIG_IGN);
	rm_rf_prefix();
	fds_at_start = count_fds();

	while (fgets(line, sizeof line, stdin)) {
		char a[32], b[32];
		int s, x1, x2, x3, x4;
		unsigned m;
		line[strcspn(line, "\n")] = '\0';
		if (line[0] == '\0') continue;
		if (strncmp(line, "# case", 6) == 0) {
			if (svc || ndirs) teardown(0);
			fds_at_start = count_fds();
			printf("%s\n", line);
			continue;
		}
		printf("op %s\n", line);
		if (sscanf(line, "svc %31s %o", a, &m) == 2) {
			int32_t r;
			if (svc) teardown(0);
			fds_at_start = count_fds();
			is_shm = strcmp(a, "shm") == 0;
			snprintf(svc_name, sizeof svc_name, "va%d_%d", (int)server_pid, svc_counter++);
			logging = 1;
			__real_umask(m);
			svc = qb_ipcs_create(svc_name, 0, is_shm ? QB_IPC_SHM : QB_IPC_SOCKET, &sh);
			qb_ipcs_poll_handlers_set(svc, &ph);
			cur_slot = -1;
			r = qb_ipcs_run(svc);
			printf("r %d\n", r);
			printf("srv %d %d\n", (int)geteuid(), (int)getegid());
		} else if (sscanf(line, "beh %d %d %d %o", &x1, &x2, &x3, &m) == 4) {
			if (btail < MAXB) { struct beh e = { x1, 1, x2, x3, m }; btab[btail++] = e; }
		} else if (sscanf(line, "beh %d", &x1) == 1) {
			if (btail < MAXB) { struct beh e = { x1, 0, 0, 0, 0 }; btab[btail++] = e; }
		} else if (sscanf(line, "start %d %d %d %d %d %31s", &s, &x1, &x2, &x3, &x4, b) >= 5 && s >= 0 && s < MAXS) {
			int raw = strstr(line, " raw") != NULL;
			int p2c[2], c2p[2];
			pid_t pid;
			int rc;
			reap(s);
			if (pipe(p2c) != 0 || pipe(c2p) != 0) { printf("r pipe-failed\n"); continue; }
			fflush(stdout);
			pid = fork();
			if (pid == 0) {
				close(p2c[1]); close(c2p[0]);
				child_main(p2c[0], c2p[1], x1, x2, x3, x4, raw, svc_name);
				_exit(0);
			}
			close(p2c[0]); close(c2p[1]);
			cl[s].pid = pid; cl[s].to = p2c[1]; cl[s].from = c2p[0]; cl[s].alive = 1; cl[s].raw = raw;
			cl[s].conn_ord = -1;
			rc = child_read_reply(s, 'S');
			printf("started %d %d\n", s, rc);
			if (rc == 0 && npend < MAXS * 4) pend[npend++] = s;
		} else if (strcmp(line, "acc") == 0) {
			int i;
			if (npend == 0) { printf("r none-pending\n"); continue; }
			cur_slot = pend[0];
			memmove(pend, pend + 1, (npend - 1) * sizeof pend[0]);
			npend--;
			for (i = 0; i < ndent; i++) {
				if (dtab[i].live && dtab[i].fd == listen_fd) {
					int sv = cur_slot;
					dtab[i].fn(dtab[i].fd, POLLIN, dtab[i].data);
					cur_slot = sv;
					break;
				}
			}
			cur_slot = -1;
		} else if (sscanf(line, "auth %d", &s) == 1 && s >= 0 && s < MAXS) {
			turn_slot(s);
			printf("chan %d\n", chan_count());
		} else if (sscanf(line, "fin %d", &s) == 1 && s >= 0 && s < MAXS) {
			int rc;
			if (!cl[s].alive) { printf("connect %d dead\n", s); continue; }
			if (write(cl[s].to, "c", 1) != 1) { printf("connect %d dead\n", s); continue; }
			rc = child_read_reply(s, 'C');
			if (rc <= -9990) printf("connect %d no-reply\n", s);
			else printf("connect %d %d\n", s, rc);
		} else if (sscanf(line, "req %d", &s) == 1 && s >= 0 && s < MAXS) {
			int rc;
			if (!cl[s].alive) { printf("sent %d dead\n", s); continue; }
			if (write(cl[s].to, "r", 1) != 1) { printf("sent %d dead\n", s); continue; }
			rc = child_read_reply(s, 'R');
			printf("sent %d %s\n", s, rc == 1 ? "ok" : rc == 0 ? "fail" : "no-reply");
		} else if (sscanf(line, "t %d", &s) == 1 && s >= 0 && s < MAXS) {
			turn_slot(s);
			printf("chan %d\n", chan_count());
		} else if (strcmp(line, "tall") == 0) {
			/* every connection's descriptors, connections in the order of their ordinals */
			int i, o;
			for (o = 0; o < ndirs; o++) {
				for (i = 0; i < ndent; i++) {
					if (dtab[i].live && dtab[i].fd != listen_fd && dtab[i].slot >= 0 &&
					    cl[dtab[i].slot].conn_ord == o) run_entry(i);
				}
				run_jobs();
			}
			printf("chan %d\n", chan_count());
		} else if (sscanf(line, "failnext %d %d", &x1, &x2) == 2) {
			fail_at = x1; fail_errno = x2;
		} else if (sscanf(line, "respond %d", &x1) == 1) {
			respond_on = x1;
		} else if (sscanf(line, "inject %d %d", &s, &x1) == 2 && s >= 0 && s < MAXS && x1 >= 0 && x1 < MAXS) {
			int rc, vp = (int)cl[x1].pid;
			if (!cl[s].alive) { printf("injected %d dead\n", s); continue; }
			if (write(cl[s].to, "i", 1) != 1 || write(cl[s].to, &vp, sizeof vp) != (ssize_t)sizeof vp) {
				printf("injected %d dead\n", s); continue;
			}
			rc = child_read_reply(s, 'I');
			printf("injected %d %s\n", s, rc == 1 ? "ok" : rc == 0 ? "none" : "no-reply");
		} else if (sscanf(line, "kill %d", &s) == 1 && s >= 0 && s < MAXS) {
			reap(s);
		} else if (strcmp(line, "end") == 0) {
			teardown(1);
		} else {
			printf("r bad-op\n");
		}
	}
	if (svc || ndirs) teardown(0);
	return 0;
}
