/* -Wl,--wrap wrappers for the C16 concurrent harness: POSIX semaphores and pthread_create/join/exit become
 * operations of the controlled scheduler (sched_rt.c) when called from a virtual thread; from any other thread
 * (or from inside the runtime) the real functions run.  Compiled without sanitizers.
 * Link flags: vlib/logthr.py CONC_WRAPS (in addition to vlib/sched.py LOCK_WRAPS). */
#include "sched_rt.h"
#include <pthread.h>
#include <semaphore.h>
#include <stdint.h>
#include <stdio.h>
#include <stdlib.h>
extern __thread int sch_internal;

int __real_sem_init(sem_t *s, int pshared, unsigned v);
int __real_sem_destroy(sem_t *s);
int __real_sem_post(sem_t *s);
int __real_sem_wait(sem_t *s);
int __real_sem_getvalue(sem_t *s, int *v);
int __real_pthread_create(pthread_t *th, const pthread_attr_t *a, void *(*fn)(void *), void *arg);
int __real_pthread_join(pthread_t th, void **ret);
void __real_pthread_exit(void *ret) __attribute__((noreturn));

#define VIRT (!sch_internal && sch_self() >= 0)
#define TID_BASE 0x5ced0000UL

int __wrap_sem_init(sem_t *s, int pshared, unsigned v) { sch_sem_init((void *)s, v); return __real_sem_init(s, pshared, v); }
int __wrap_sem_destroy(sem_t *s) { sch_sem_forget((void *)s); return __real_sem_destroy(s); }
int __wrap_sem_post(sem_t *s) { if (!VIRT) return __real_sem_post(s); sch_sem_post((void *)s); return 0; }
int __wrap_sem_wait(sem_t *s) { if (!VIRT) return __real_sem_wait(s); sch_sem_wait((void *)s); return 0; }
int __wrap_sem_getvalue(sem_t *s, int *v) { if (!VIRT) return __real_sem_getvalue(s, v); *v = sch_sem_value((void *)s); return 0; }

struct start { void *(*fn)(void *); void *arg; };
static struct start starts[16];
static int nstarts;

static void tramp(void *p)
{
	struct start *st = p;
	(void)st->fn(st->arg);
}

int __wrap_pthread_create(pthread_t *th, const pthread_attr_t *a, void *(*fn)(void *), void *arg)
{
	int tid;
	if (!VIRT) return __real_pthread_create(th, a, fn, arg);
	if (nstarts >= 16) { fprintf(stderr, "sched_wrap_logthr: too many threads\n"); abort(); }
	starts[nstarts].fn = fn;
	starts[nstarts].arg = arg;
	tid = sch_thread_create(tramp, &starts[nstarts]);
	nstarts++;
	*th = (pthread_t)(TID_BASE + (unsigned long)tid);
	return 0;
}

int __wrap_pthread_join(pthread_t th, void **ret)
{
	unsigned long v = (unsigned long)th;
	if (!VIRT || v < TID_BASE || v >= TID_BASE + 16) return __real_pthread_join(th, ret);
	sch_thread_join((int)(v - TID_BASE));
	if (ret) *ret = NULL;
	return 0;
}

void __wrap_pthread_exit(void *ret)
{
	if (!VIRT) __real_pthread_exit(ret);
	sch_thread_exit();
}
