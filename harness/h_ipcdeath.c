/* C03 harness: death of the IPC peer at every system-call boundary (DESIGN.md C03, 4.2 "kill-at-k").
 *
 * All library code is the unmodified lib/ of the working tree (ASan + UBSan).  One case per script line (stdin);
 * "# case <n>" lines are echoed and start from scratch.
 *
 *   cdeath <shm|sock> <scenario 0..4> <k> <policy 0..3>
 *        The SURVIVOR is a libqb IPC service living in this process (harness-owned poll table = main loop), with one
 *        well-behaved bystander client (in-process) that has a queued event.  The DYING side is a forked child that
 *        runs a client scenario with the real blocking client calls, traced with ptrace and SIGKILLed when it is about
 *        to make its k-th system call (k = 0: it runs to its own _exit).  Scenarios: 0 connect (dies idle);
 *        1 connect + three qb_ipcc_send (requests queued); 2 connect + sendv_recv; 3 connect + request that makes the
 *        server queue three events + one event_recv (two events stay queued); 4 connect + sendv_recv + disconnect.
 *        policy bit0: 0 = the server's loop runs only while the client is blocked in the kernel (or dead),
 *        1 = also after every client system call;  bit1: 1 = at the kill the server has already polled (it acts on
 *        readiness information from before the death: the race between poll() returning and the handler running).
 *   cdeathx <shm|sock> <scenario> <k> <policy> <r> <m>
 *        as cdeath, but connection_closed() for the dying client's connection returns non-zero r times (the re-run job
 *        path) and, with m = 1, the bystander has sent a request that the server has not seen when the client dies.
 *   hsprefix <shm|sock> <n> <stale 0|1>
 *        a raw peer connects, sends the first n bytes of a valid connection request and vanishes.
 *   sdeath <shm|sock> <k> <timeout-ms|-1>
 *        The DYING side is a forked libqb server (real qb_loop), traced, killed at its k-th system call counted from
 *        the moment it starts serving (k = 0: killed when the client has finished its first phase).  The SURVIVOR is a
 *        client thread of this process performing connect, sendv_recv, sendv_recv (3 events), event_recv with the given
 *        timeout; once the server is dead and reaped: event_recv, sendv_recv, send, recv(100), event_recv, recv(-1),
 *        is_connected, disconnect.  Waiting is
 *        done on a warped clock: while the server lives, waits are real (sliced); once it is dead and reaped a wait
 *        that cannot be satisfied any more (nothing can arrive from a dead process) completes at once and its
 *        duration is added to the virtual clock; an INFINITE such wait is reported as "HANG".
 *
 *   sdeathq <shm|sock> <k> <timeout>   the same, but the client's ONLY call after the server's death is qb_ipcc_disconnect.
 *
 * Output (cdeath / hsprefix):  "cb <kind> <B|D|P>" callback log in order; "cut ..." white-box description of what the
 * server knew about the dying peer at the kill; "trace ..." the child's system calls; "dying ..." callback counts;
 * "census ..." descriptors / poll entries / service references / shm names relative to the moment before the dying
 * client appeared; "bystander ..." and "probe ..." service checks; "final ..." after tear-down.
 * Output (sdeath): "call <name> <timeout> rc=<errno-name|n> start=<ms> end=<ms> death=<ms|-1>" per client call,
 * "HANG <where>" when a call waits forever on the dead server, "residue files=<n> dirs=<n> connected=<0|1>".
 */
#include "os_base.h"
#include <stdio.h>
#include <stdlib.h>
#include <string.h>
#include <errno.h>
#include <poll.h>
#include <signal.h>
#include <dirent.h>
#include <time.h>
#include <pthread.h>
#include <semaphore.h>
#include <sched.h>
#include <sys/socket.h>
#include <sys/un.h>
#include <sys/uio.h>
#include <sys/stat.h>
#include <sys/ioctl.h>
#include <qb/qbdefs.h>
#include <qb/qbloop.h>
#include <qb/qbipcs.h>
#include <qb/qbipcc.h>
#include <qb/qbrb.h>
#include <qb/qblog.h>
#include "util_int.h"
#include "ipc_int.h"
#include "killat.c"

#define MAXMSG 8192
#define REQ_ECHO 10
#define REQ_EVENTS 11
#define RSP_ID 20
#define EVT_ID 30

struct my_req { struct qb_ipc_request_header hdr; char data[56]; };
struct my_rsp { struct qb_ipc_response_header hdr; char data[56]; };

/* ------------------------------------------------------------------ warped clock (client thread of sdeath only) */
static volatile int warp_dead = 0;          /* the server child is dead AND reaped */
static volatile long long warp_ns = 0;      /* virtual time added so far */
static __thread int warp_thread = 0;
static volatile int hang_seen = 0;
static char hang_where[64];

int __real_poll(struct pollfd *fds, nfds_t n, int timeout);
int __real_sem_timedwait(sem_t *s, const struct timespec *abs);
int __real_sem_wait(sem_t *s);
int __real_clock_gettime(clockid_t c, struct timespec *ts);
int __real_nanosleep(const struct timespec *req, struct timespec *rem);
int __real_usleep(useconds_t us);

static long long real_ns(clockid_t c)
{
	struct timespec ts;
	__real_clock_gettime(c, &ts);
	return (long long)ts.tv_sec * 1000000000LL + ts.tv_nsec;
}
static long long vnow_ms(void) { return (real_ns(CLOCK_MONOTONIC) + warp_ns) / 1000000LL; }

static void hang(const char *where)
{
	hang_seen = 1;
	snprintf(hang_where, sizeof hang_where, "%s", where);
	pthread_exit(NULL);
}

int __wrap_clock_gettime(clockid_t c, struct timespec *ts)
{
	int r = __real_clock_gettime(c, ts);
	if (r == 0 && warp_thread) {
		long long v = (long long)ts->tv_sec * 1000000000LL + ts->tv_nsec + warp_ns;
		ts->tv_sec = v / 1000000000LL; ts->tv_nsec = v % 1000000000LL;
	}
	return r;
}
int __wrap_nanosleep(const struct timespec *req, struct timespec *rem)
{
	if (warp_thread && warp_dead) {
		warp_ns += (long long)req->tv_sec * 1000000000LL + req->tv_nsec;
		if (rem) { rem->tv_sec = 0; rem->tv_nsec = 0; }
		return 0;
	}
	return __real_nanosleep(req, rem);
}
static int srv_virtual_sleep = 0;            /* survivor server (cdeath/hsprefix): library sleeps are counted, not slept */
static long long srv_stall_us = 0;
int __wrap_usleep(useconds_t us)
{
	if (warp_thread && warp_dead) { warp_ns += (long long)us * 1000LL; return 0; }
	if (!warp_thread && srv_virtual_sleep) { srv_stall_us += us; return 0; }
	return __real_usleep(us);
}
/* The survivor server of cdeath runs in the tracer's thread.  The library blocks in poll() inside a handler in one
 * place (qb_ipcs_dispatch_connection_request waits with an INFINITE timeout for the wake-up bytes of the requests it
 * has just taken from the ring); the client it waits for may sit in a ptrace stop that only this thread can resume.
 * So a blocking poll of the server keeps the tracer going (and a kill point reached meanwhile is executed: the client
 * dies while the server is inside the handler). */
static struct ka *cur_ka = NULL;
static int killed_in_handler = 0;
static int server_blocked_polls = 0;
static void pump_tracer(void)
{
	int r;
	if (!cur_ka || cur_ka->dead) return;
	r = ka_step(cur_ka, 0);
	if (r == 2) { killed_in_handler = 1; ka_kill(cur_ka); }
}
int __wrap_poll(struct pollfd *fds, nfds_t n, int timeout)
{
	int remaining = timeout, r;
	if (!warp_thread) {
		if (!cur_ka || timeout == 0) return __real_poll(fds, n, timeout);
		server_blocked_polls++;
		for (;;) {
			r = __real_poll(fds, n, 1);
			if (r != 0) return r;
			pump_tracer();
			if (remaining > 0 && --remaining == 0) return 0;
		}
	}
	for (;;) {
		int slice = (remaining < 0 || remaining > 2) ? 2 : remaining;
		int dead = warp_dead;
		r = __real_poll(fds, n, dead ? 0 : slice);
		if (r != 0) return r;
		if (dead) {
			if (remaining < 0) hang("poll(-1)");
			warp_ns += (long long)remaining * 1000000LL;
			if (warp_ns > 600000000000LL) hang("no return within 600 s (virtual) of the death: poll");
			return 0;
		}
		if (remaining >= 0) {
			remaining -= slice;
			if (remaining <= 0) return 0;
		}
	}
}
int __wrap_sem_timedwait(sem_t *s, const struct timespec *abs)
{
	long long deadline;       /* virtual CLOCK_REALTIME ns */
	if (!warp_thread) return __real_sem_timedwait(s, abs);
	deadline = (long long)abs->tv_sec * 1000000000LL + abs->tv_nsec;
	for (;;) {
		long long now = real_ns(CLOCK_REALTIME) + warp_ns, lim;
		struct timespec ts;
		int dead = warp_dead;
		if (sem_trywait(s) == 0) return 0;
		if (now >= deadline) { errno = ETIMEDOUT; return -1; }
		if (dead) {
			warp_ns += deadline - now;
			if (warp_ns > 600000000000LL) hang("no return within 600 s (virtual) of the death: sem_timedwait");
			errno = ETIMEDOUT;
			return -1;
		}
		lim = now + 2000000LL;
		if (lim > deadline) lim = deadline;
		lim -= warp_ns;           /* back to the real clock */
		ts.tv_sec = lim / 1000000000LL; ts.tv_nsec = lim % 1000000000LL;
		if (__real_sem_timedwait(s, &ts) == 0) return 0;
		if (errno != ETIMEDOUT && errno != EINTR) return -1;
	}
}
int __wrap_sem_wait(sem_t *s)
{
	if (!warp_thread) return __real_sem_wait(s);
	for (;;) {
		long long lim = real_ns(CLOCK_REALTIME) + 2000000LL;
		struct timespec ts;
		int dead = warp_dead;
		if (sem_trywait(s) == 0) return 0;
		if (dead) hang("sem_wait");
		ts.tv_sec = lim / 1000000000LL; ts.tv_nsec = lim % 1000000000LL;
		if (__real_sem_timedwait(s, &ts) == 0) return 0;
		if (errno != ETIMEDOUT && errno != EINTR) return -1;
	}
}

/* ------------------------------------------------------------------ helpers */
static const char *ename(long rc)
{
	static char buf[4][32];
	static int bi = 0;
	char *b;
	if (rc >= 0) { b = buf[bi++ & 3]; snprintf(b, 32, "%ld", rc); return b; }
	switch (-rc) {
	case EAGAIN: return "EAGAIN"; case ENOTCONN: return "ENOTCONN"; case ETIMEDOUT: return "ETIMEDOUT";
	case EPIPE: return "EPIPE"; case ECONNRESET: return "ECONNRESET"; case ECONNREFUSED: return "ECONNREFUSED";
	case EINVAL: return "EINVAL"; case EBADF: return "EBADF"; case ESHUTDOWN: return "ESHUTDOWN";
	case ENOENT: return "ENOENT"; case EMSGSIZE: return "EMSGSIZE"; case ENOBUFS: return "ENOBUFS";
	case EINTR: return "EINTR"; case EIO: return "EIO"; case EACCES: return "EACCES"; case ENOMEM: return "ENOMEM";
	case ENOMSG: return "ENOMSG"; case EBADMSG: return "EBADMSG"; case ENXIO: return "ENXIO";
	}
	b = buf[bi++ & 3]; snprintf(b, 32, "E%ld", -rc); return b;
}

static int count_fds(void)
{
	DIR *d = opendir("/proc/self/fd");
	struct dirent *e;
	int n = 0;
	if (!d) return -1;
	while ((e = readdir(d))) if (e->d_name[0] != '.') n++;
	closedir(d);
	return n - 1;   /* the directory stream itself */
}

/* names in /dev/shm starting with prefix: directories (and what is inside them) and plain files */
static void shm_census(const char *prefix, int *files, int *dirs, int sweep)
{
	DIR *d = opendir("/dev/shm");
	struct dirent *e;
	*files = 0; *dirs = 0;
	if (!d) return;
	while ((e = readdir(d))) {
		char p[PATH_MAX];
		struct stat st;
		if (strncmp(e->d_name, prefix, strlen(prefix)) != 0) continue;
		snprintf(p, sizeof p, "/dev/shm/%s", e->d_name);
		if (lstat(p, &st) != 0) continue;
		if (S_ISDIR(st.st_mode)) {
			DIR *d2 = opendir(p);
			struct dirent *e2;
			(*dirs)++;
			if (d2) {
				while ((e2 = readdir(d2))) {
					char p2[PATH_MAX + 300];
					if (e2->d_name[0] == '.' && (e2->d_name[1] == 0 || e2->d_name[1] == '.')) continue;
					(*files)++;
					if (sweep) { snprintf(p2, sizeof p2, "%s/%s", p, e2->d_name); unlink(p2); }
				}
				closedir(d2);
			}
			if (sweep) rmdir(p);
		} else {
			(*files)++;
			if (sweep) unlink(p);
		}
	}
	closedir(d);
}

/* ------------------------------------------------------------------ poll table = the survivor server's main loop */
struct dent { int fd; int events; void *data; qb_ipcs_dispatch_fn_t fn; int live; int revents; };
#define MAXD 64
static struct dent dtab[MAXD];
static int ndent = 0;
static int stale_mod = 0;

static int32_t d_add(enum qb_loop_priority p, int32_t fd, int32_t ev, void *data, qb_ipcs_dispatch_fn_t fn)
{
	int i;
	for (i = 0; i < ndent; i++) if (dtab[i].live && dtab[i].fd == fd) return -EEXIST;
	for (i = 0; i < ndent; i++) if (!dtab[i].live) break;
	if (i == ndent) { if (ndent == MAXD) return -ENOMEM; ndent++; }
	dtab[i].fd = fd; dtab[i].events = ev; dtab[i].data = data; dtab[i].fn = fn; dtab[i].live = 1; dtab[i].revents = 0;
	return 0;
}
static int32_t d_mod(enum qb_loop_priority p, int32_t fd, int32_t ev, void *data, qb_ipcs_dispatch_fn_t fn)
{
	int i;
	for (i = 0; i < ndent; i++) {
		if (dtab[i].live && dtab[i].fd == fd) {
			if (dtab[i].data != data) { stale_mod++; printf("STALE-FD dispatch_mod fd %d\n", fd); return -ENOENT; }
			dtab[i].events = ev; dtab[i].fn = fn;
			return 0;
		}
	}
	return -ENOENT;
}
static int32_t d_del(int32_t fd)
{
	int i;
	for (i = 0; i < ndent; i++) if (dtab[i].live && dtab[i].fd == fd) { dtab[i].live = 0; return 0; }
	return -ENOENT;
}
static int live_entries(void)
{
	int i, n = 0;
	for (i = 0; i < ndent; i++) if (dtab[i].live) n++;
	return n;
}
struct job { void *data; qb_loop_job_dispatch_fn fn; };
#define MAXJ 64
static struct job jobs[MAXJ];
static int njobs = 0;
static int32_t j_add(enum qb_loop_priority p, void *data, qb_loop_job_dispatch_fn fn)
{
	if (njobs == MAXJ) return -ENOMEM;
	jobs[njobs].data = data; jobs[njobs].fn = fn; njobs++;
	return 0;
}

/* phase 1 of a loop iteration: one poll() over every registered descriptor */
static int srv_collect(void)
{
	struct pollfd p[MAXD];
	int idx[MAXD], n = 0, i, r;
	for (i = 0; i < ndent; i++) {
		dtab[i].revents = 0;
		if (!dtab[i].live) continue;
		p[n].fd = dtab[i].fd; p[n].events = dtab[i].events; p[n].revents = 0; idx[n] = i; n++;
	}
	r = __real_poll(p, n, 0);
	if (r <= 0) return 0;
	for (i = 0; i < n; i++) dtab[idx[i]].revents = p[i].revents;
	return r;
}
/* phase 2: run the handlers of the descriptors reported ready (entries removed meanwhile are skipped, as qb_loop does;
 * a negative return removes the entry, as qb_loop does), then the queued jobs */
static int srv_dispatch(void)
{
	int i, calls = 0, nj;
	struct job todo[MAXJ];
	for (i = 0; i < ndent; i++) {
		int rev = dtab[i].revents, fd = dtab[i].fd;
		dtab[i].revents = 0;
		if (!dtab[i].live || rev == 0) continue;
		calls++;
		if (dtab[i].fn(fd, rev, dtab[i].data) < 0) {
			if (dtab[i].live && dtab[i].fd == fd) dtab[i].live = 0;
		}
	}
	nj = njobs; memcpy(todo, jobs, sizeof(struct job) * nj); njobs = 0;
	for (i = 0; i < nj; i++) { todo[i].fn(todo[i].data); calls++; }
	return calls;
}
static int srv_pass(void) { srv_collect(); return srv_dispatch(); }
static void srv_quiesce(void)
{
	int i, idle = 0;
	for (i = 0; i < 200 && idle < 2; i++) { if (srv_pass() == 0) idle++; else idle = 0; }
	if (i == 200) printf("NOT-QUIESCENT after 200 passes\n");
}

/* ------------------------------------------------------------------ survivor server (cdeath / hsprefix) */
static qb_ipcs_service_t *svc = NULL;
static char svc_name[64];
static int svc_counter = 0;
static int is_shm = 0;
static pid_t dying_pid = 0;
static int expect_raw = 0;
struct lab { qb_ipcs_connection_t *p; char label; int accept, created, closed, destroyed, msgs, closed_before_destroyed; };
#define MAXL 16
static struct lab L[MAXL];
static int nlab = 0;
static int inproc_accepts = 0;
static int closed_left = 0;       /* cdeathx: connection_closed() of the dying client's connection returns non-zero this many times */

static struct lab *lab_of(qb_ipcs_connection_t *c)
{
	int i;
	for (i = nlab - 1; i >= 0; i--) if (L[i].p == c) return &L[i];
	return NULL;
}
static int32_t cb_accept(qb_ipcs_connection_t *c, uid_t uid, gid_t gid)
{
	struct qb_ipcs_connection_stats st;
	struct lab *l;
	if (nlab == MAXL) { printf("TOO-MANY\n"); return -ENOMEM; }
	l = &L[nlab++];
	memset(l, 0, sizeof *l);
	l->p = c; l->accept = 1;
	qb_ipcs_connection_stats_get(c, &st, 0);
	if (dying_pid && st.client_pid == dying_pid) l->label = 'D';
	else if (expect_raw) { l->label = 'D'; expect_raw = 0; }
	else { l->label = (inproc_accepts == 0) ? 'B' : 'P'; inproc_accepts++; }
	printf("cb accept %c\n", l->label);
	return 0;
}
static void cb_created(qb_ipcs_connection_t *c)
{
	struct lab *l = lab_of(c);
	if (l) l->created++;
	printf("cb created %c\n", l ? l->label : '?');
}
static int32_t cb_msg(qb_ipcs_connection_t *c, void *data, size_t size)
{
	struct lab *l = lab_of(c);
	struct my_req *rq = data;
	struct my_rsp rsp;
	ssize_t r;
	int i;
	if (l) l->msgs++;
	printf("cb msg %c id=%d\n", l ? l->label : '?', (int)rq->hdr.id);
	if (rq->hdr.id == REQ_EVENTS) {
		for (i = 0; i < 3; i++) {
			memset(&rsp, 0, sizeof rsp);
			rsp.hdr.id = EVT_ID; rsp.hdr.size = sizeof rsp; rsp.data[0] = (char)i;
			r = qb_ipcs_event_send(c, &rsp, sizeof rsp);
			if (r < 0) printf("note event_send %s\n", ename(r));
		}
	}
	memset(&rsp, 0, sizeof rsp);
	rsp.hdr.id = RSP_ID; rsp.hdr.size = sizeof rsp; rsp.data[0] = rq->data[0];
	r = qb_ipcs_response_send(c, &rsp, sizeof rsp);
	if (r < 0) printf("note response_send %s\n", ename(r));
	return 0;
}
static int32_t cb_closed(qb_ipcs_connection_t *c)
{
	struct lab *l = lab_of(c);
	if (l) l->closed++;
	printf("cb closed %c\n", l ? l->label : '?');
	if (l && l->label == 'D' && closed_left > 0) { closed_left--; return -1; }   /* "call me again" (re-run job) */
	return 0;
}
static void cb_destroyed(qb_ipcs_connection_t *c)
{
	struct lab *l = lab_of(c);
	if (l) { l->destroyed++; l->closed_before_destroyed = l->closed; l->p = NULL; }
	printf("cb destroyed %c\n", l ? l->label : '?');
}

static struct qb_ipcs_service_handlers sh = { cb_accept, cb_created, cb_msg, cb_closed, cb_destroyed };
static struct qb_ipcs_poll_handlers ph = { j_add, d_add, d_mod, d_del };

static int svc_start(const char *tr)
{
	int32_t r;
	is_shm = (strcmp(tr, "shm") == 0);
	snprintf(svc_name, sizeof svc_name, "vd%d_%d", (int)getpid(), svc_counter++);
	srv_virtual_sleep = 1; srv_stall_us = 0;
	ndent = 0; njobs = 0; nlab = 0; inproc_accepts = 0; stale_mod = 0; dying_pid = 0; expect_raw = 0;
	svc = qb_ipcs_create(svc_name, 0, is_shm ? QB_IPC_SHM : QB_IPC_SOCKET, &sh);
	if (!svc) { printf("r svc create-failed\n"); return -1; }
	qb_ipcs_poll_handlers_set(svc, &ph);
	r = qb_ipcs_run(svc);
	if (r != 0) { printf("r svc run-failed %s\n", ename(r)); return -1; }
	return 0;
}

/* in-process well-behaved client: connect */
static qb_ipcc_connection_t *inproc_connect(void)
{
	int fd = -1, i;
	qb_ipcc_connection_t *c = qb_ipcc_connect_async(svc_name, MAXMSG, &fd);
	if (!c) return NULL;
	for (i = 0; i < 20; i++) {
		struct pollfd p = { fd, POLLIN, 0 };
		srv_pass();
		if (__real_poll(&p, 1, 0) > 0) break;
	}
	if (qb_ipcc_connect_continue(c) != 0) return NULL;
	return c;
}
/* one request/response round trip of an in-process client; returns 0 when the echoed byte came back */
static int inproc_roundtrip(qb_ipcc_connection_t *c, int id, char tag)
{
	struct my_req rq;
	struct my_rsp rsp;
	ssize_t r;
	int i;
	memset(&rq, 0, sizeof rq);
	rq.hdr.id = id; rq.hdr.size = sizeof rq; rq.data[0] = tag;
	r = qb_ipcc_send(c, &rq, sizeof rq);
	if (r != sizeof rq) return -1;
	for (i = 0; i < 20; i++) {
		srv_pass();
		r = qb_ipcc_recv(c, &rsp, sizeof rsp, 0);
		if (r == sizeof rsp) return (rsp.hdr.id == RSP_ID && rsp.data[0] == tag) ? 0 : -2;
		if (r != -EAGAIN && r != -ETIMEDOUT) return -3;
	}
	return -4;
}
static int inproc_events(qb_ipcc_connection_t *c)
{
	struct my_rsp ev;
	int n = 0;
	ssize_t r;
	while ((r = qb_ipcc_event_recv(c, &ev, sizeof ev, 0)) == sizeof ev && n < 10) {
		if (ev.hdr.id != EVT_ID || ev.data[0] != 2) return -1;   /* the one left queued by start_with_bystander */
		n++;
	}
	return n;
}

static int by_midreq = 0, by_sent = 0;
static void bystander_send(qb_ipcc_connection_t *by)
{
	struct my_req rq;
	if (!by_midreq || by_sent) return;
	memset(&rq, 0, sizeof rq);
	rq.hdr.id = REQ_ECHO; rq.hdr.size = sizeof rq; rq.data[0] = 'm';
	by_sent = (qb_ipcc_send(by, &rq, sizeof rq) == sizeof rq) ? 1 : -1;
}
static void bystander_collect(qb_ipcc_connection_t *by)
{
	struct my_rsp rsp;
	ssize_t r = -1;
	int i;
	if (!by_midreq) return;
	for (i = 0; i < 20 && by_sent == 1; i++) {
		r = qb_ipcc_recv(by, &rsp, sizeof rsp, 0);
		if (r == sizeof rsp) break;
		srv_pass();
	}
	printf("midreq sent=%d answered=%d\n", by_sent, (by_sent == 1 && r == sizeof rsp && rsp.hdr.id == RSP_ID && rsp.data[0] == 'm') ? 1 : 0);
}

static void print_trace(struct ka *t)
{
	int i;
	printf("trace n=%d", t->count);
	for (i = 0; i < t->ntrace; i++) printf(" %ld:%ld", t->trace[i].nr, t->trace[i].a0);
	printf("\n");
}

/* what the server knows about the dying peer right now (white-box) */
static void print_cut(void)
{
	int i, auth = 0, backlog = 0;
	struct lab *d = NULL;
	for (i = nlab - 1; i >= 0; i--) if (L[i].label == 'D') { d = &L[i]; break; }
	for (i = 0; i < ndent; i++) {
		int j, known = 0;
		if (!dtab[i].live) continue;
		if (dtab[i].data == (void *)svc) {
			struct pollfd p = { dtab[i].fd, POLLIN, 0 };
			if (__real_poll(&p, 1, 0) > 0 && (p.revents & POLLIN)) backlog = 1;
			continue;
		}
		for (j = 0; j < nlab; j++) if (L[j].p && (void *)L[j].p == dtab[i].data) known = 1;
		if (!known) auth++;
	}
	if (d && d->p) {
		ssize_t q = d->p->service->funcs.q_len_get ? d->p->service->funcs.q_len_get(&d->p->request) : -1;
		int unread = 0;
		if (d->p->setup.u.us.sock > 0) ioctl(d->p->setup.u.us.sock, FIONREAD, &unread);
		long evq = -1;
		if (d->p->state == QB_IPCS_CONNECTION_ESTABLISHED) {
			if (is_shm) evq = d->p->event.u.shm.rb ? qb_rb_chunks_used(d->p->event.u.shm.rb) : -1;
			else if (d->p->event.u.us.shared_data) evq = ((struct { int32_t sent; int32_t fc; } *)d->p->event.u.us.shared_data)->sent;
		}
		printf("cut conn state=%d refcount=%d reqq=%ld created=%d notify=%d evq=%ld notifiers=%d\n", (int)d->p->state,
		       (int)d->p->refcount, (long)q, d->created, is_shm ? unread : 0, evq, (int)d->p->outstanding_notifiers);
	} else if (d) {
		printf("cut gone closed=%d destroyed=%d\n", d->closed, d->destroyed);
	} else if (auth) {
		printf("cut auth entries=%d\n", auth);
	} else if (backlog) {
		printf("cut backlog\n");
	} else {
		printf("cut none\n");
	}
}

static void child_scenario(int sc)
{
	qb_ipcc_connection_t *c;
	struct my_req rq;
	struct my_rsp rsp;
	struct iovec iov;
	int i;
	ka_child_arm();
	c = qb_ipcc_connect(svc_name, MAXMSG);
	if (!c) _exit(3);
	memset(&rq, 0, sizeof rq);
	rq.hdr.size = sizeof rq; rq.hdr.id = REQ_ECHO;
	iov.iov_base = &rq; iov.iov_len = sizeof rq;
	switch (sc) {
	case 0: break;
	case 1: for (i = 0; i < 3; i++) { rq.data[0] = (char)i; qb_ipcc_send(c, &rq, sizeof rq); } break;
	case 2: qb_ipcc_sendv_recv(c, &iov, 1, &rsp, sizeof rsp, -1); break;
	case 3:
		rq.hdr.id = REQ_EVENTS;
		qb_ipcc_sendv_recv(c, &iov, 1, &rsp, sizeof rsp, -1);
		qb_ipcc_event_recv(c, &rsp, sizeof rsp, -1);
		break;
	case 4:
		qb_ipcc_sendv_recv(c, &iov, 1, &rsp, sizeof rsp, -1);
		qb_ipcc_disconnect(c);
		break;
	}
	_exit(0);
}

static void report_after_death(int fd0, int ent0, int ref0, qb_ipcc_connection_t *by)
{
	int i, files, dirs, fd1, ent1, ref1, fd2, ent2, rt, nev;
	char prefix[64];
	struct lab *d = NULL;
	struct qb_ipcs_stats sst;
	qb_ipcc_connection_t *pr;
	int nd = 0;
	expect_raw = 0;
	for (i = 0; i < nlab; i++) if (L[i].label == 'D') { d = &L[i]; nd++; }
	if (d) printf("dying conns=%d accept=%d created=%d msgs=%d closed=%d destroyed=%d closed_before_destroyed=%d\n", nd,
		      d->accept, d->created, d->msgs, d->closed, d->destroyed, d->closed_before_destroyed);
	else printf("dying conns=0\n");
	fd1 = count_fds(); ent1 = live_entries(); ref1 = svc->ref_count;
	if (dying_pid) snprintf(prefix, sizeof prefix, "qb-%d-%d-", (int)getpid(), (int)dying_pid);
	else snprintf(prefix, sizeof prefix, "qb-%d-%d-", (int)getpid(), (int)getpid());
	shm_census(prefix, &files, &dirs, 0);
	if (!dying_pid) {
		/* hsprefix: the raw peer has our own pid; the bystander's directory is there as well */
		dirs -= 1; files -= is_shm ? 6 : 1;
	}
	qb_ipcs_stats_get(svc, &sst, 0);
	printf("census fds=%d entries=%d svcref=%d shmfiles=%d shmdirs=%d active=%d closed=%d stale=%d stall_ms=%lld\n", fd1 - fd0, ent1 - ent0,
	       ref1 - ref0, files, dirs, (int)sst.active_connections, (int)sst.closed_connections, stale_mod, srv_stall_us / 1000);
	/* the bystander: untouched, still served, its queued event still there */
	rt = inproc_roundtrip(by, REQ_ECHO, 'b');
	nev = inproc_events(by);
	printf("bystander roundtrip=%d events=%d closed=%d destroyed=%d\n", rt, nev, L[0].closed, L[0].destroyed);
	/* a fresh well-behaved client */
	pr = inproc_connect();
	if (!pr) printf("probe connect-failed\n");
	else {
		rt = inproc_roundtrip(pr, REQ_ECHO, 'p');
		qb_ipcc_disconnect(pr);
		srv_quiesce();
		fd2 = count_fds(); ent2 = live_entries();
		printf("probe roundtrip=%d fds=%d entries=%d svcref=%d\n", rt, fd2 - fd0, ent2 - ent0, svc->ref_count - ref0);
	}
}

static void teardown(int fdstart, qb_ipcc_connection_t *by)
{
	int files, dirs;
	char prefix[64];
	if (by) qb_ipcc_disconnect(by);
	srv_quiesce();
	qb_ipcs_destroy(svc);
	svc = NULL;
	snprintf(prefix, sizeof prefix, "qb-%d-", (int)getpid());
	shm_census(prefix, &files, &dirs, 1);
	printf("final fds=%d shmfiles=%d shmdirs=%d jobs=%d\n", count_fds() - fdstart, files, dirs, njobs);
}

static qb_ipcc_connection_t *start_with_bystander(const char *tr)
{
	qb_ipcc_connection_t *by;
	if (svc_start(tr) != 0) return NULL;
	by = inproc_connect();
	if (!by) { printf("r bystander connect-failed\n"); return NULL; }
	if (inproc_roundtrip(by, REQ_EVENTS, 'a') != 0) { printf("r bystander roundtrip-failed\n"); return NULL; }
	/* read two of its three events: one stays queued */
	{
		struct my_rsp ev;
		qb_ipcc_event_recv(by, &ev, sizeof ev, 0);
		qb_ipcc_event_recv(by, &ev, sizeof ev, 0);
	}
	return by;
}

static void case_cdeath(const char *tr, int sc, int k, int policy)
{
	int fdstart = count_fds(), fd0, ent0, ref0, r, eager = policy & 1, stale = (policy >> 1) & 1;
	qb_ipcc_connection_t *by;
	struct ka t;
	pid_t pid;
	long long t0;
	by = start_with_bystander(tr);
	if (!by) return;
	srv_quiesce();
	fd0 = count_fds(); ent0 = live_entries(); ref0 = svc->ref_count;
	fflush(stdout);
	pid = fork();
	if (pid == 0) {
		ka_child_begin();
		child_scenario(sc);
		_exit(0);
	}
	dying_pid = pid;
	ka_init(&t, pid, k);
	if (ka_attach(&t) != 0) { printf("r attach-failed\n"); ka_kill(&t); return; }
	t0 = real_ns(CLOCK_MONOTONIC);
	cur_ka = &t; killed_in_handler = 0; server_blocked_polls = 0; by_sent = 0;
	for (;;) {
		r = ka_step(&t, 0);
		if (r == 1) { if (eager && !t.in_syscall) srv_pass(); continue; }
		if (r == 2) {
			print_cut();
			bystander_send(by);            /* the other client is in the middle of a request when this one dies */
			if (stale) srv_collect();
			ka_kill(&t);
			if (stale) srv_dispatch();
			break;
		}
		if (r == 3) { printf(killed_in_handler ? "cut inhandler\n" : "cut exited\n"); break; }
		/* nothing pending: is the child blocked in the kernel? */
		{
			int st = ka_proc_state(pid);
			if (st == 'S' || st == 'D') { if (srv_pass() == 0) __real_usleep(20); }
			else sched_yield();
		}
		if (real_ns(CLOCK_MONOTONIC) - t0 > 20000000000LL) { printf("STUCK client does not progress\n"); ka_kill(&t); break; }
	}
	cur_ka = NULL;
	printf("child %s count=%d server_blocked_polls=%d\n", t.killed ? "killed" : "exited", t.count, server_blocked_polls);
	print_trace(&t);
	bystander_send(by);
	srv_quiesce();
	bystander_collect(by);
	report_after_death(fd0, ent0, ref0, by);
	teardown(fdstart, by);
}

static void case_hsprefix(const char *tr, int n, int stale)
{
	int fdstart = count_fds(), fd0, ent0, ref0, s;
	qb_ipcc_connection_t *by;
	struct sockaddr_un a;
	struct qb_ipc_connection_request req;
	by = start_with_bystander(tr);
	if (!by) return;
	srv_quiesce();
	fd0 = count_fds(); ent0 = live_entries(); ref0 = svc->ref_count;
	expect_raw = 1;
	s = socket(PF_UNIX, SOCK_STREAM, 0);
	memset(&a, 0, sizeof a);
	a.sun_family = AF_UNIX;
	snprintf(a.sun_path + 1, sizeof(a.sun_path) - 1, "%s", svc_name);
	if (connect(s, (struct sockaddr *)&a, QB_SUN_LEN(&a)) != 0) { printf("r raw connect-failed %s\n", ename(-errno)); }
	srv_pass(); srv_pass();
	memset(&req, 0, sizeof req);
	req.hdr.id = QB_IPC_MSG_AUTHENTICATE; req.hdr.size = sizeof req; req.max_msg_size = MAXMSG;
	if (n > (int)sizeof req) n = sizeof req;
	printf("prefix %d of %d\n", n, (int)sizeof req);
	if (n > 0 && send(s, &req, n, MSG_NOSIGNAL) != n) printf("r raw send-failed\n");
	if (!stale) { srv_pass(); }
	print_cut();
	if (stale) srv_collect();
	close(s);
	if (stale) srv_dispatch();
	srv_quiesce();
	report_after_death(fd0, ent0, ref0, by);
	teardown(fdstart, by);
}

/* ------------------------------------------------------------------ dying server (sdeath) */
static qb_loop_t *sloop;
static int32_t sl_job_add(enum qb_loop_priority p, void *data, qb_loop_job_dispatch_fn fn) { return qb_loop_job_add(sloop, p, data, fn); }
static int32_t sl_add(enum qb_loop_priority p, int32_t fd, int32_t ev, void *data, qb_ipcs_dispatch_fn_t fn) { return qb_loop_poll_add(sloop, p, fd, ev, data, fn); }
static int32_t sl_mod(enum qb_loop_priority p, int32_t fd, int32_t ev, void *data, qb_ipcs_dispatch_fn_t fn) { return qb_loop_poll_mod(sloop, p, fd, ev, data, fn); }
static int32_t sl_del(int32_t fd) { return qb_loop_poll_del(sloop, fd); }
static int32_t s_accept(qb_ipcs_connection_t *c, uid_t u, gid_t g) { return 0; }
static void s_created(qb_ipcs_connection_t *c) { }
static int32_t s_closed(qb_ipcs_connection_t *c) { return 0; }
static void s_destroyed(qb_ipcs_connection_t *c) { }
static int32_t s_msg(qb_ipcs_connection_t *c, void *data, size_t size)
{
	struct my_req *rq = data;
	struct my_rsp rsp;
	int i;
	if (rq->hdr.id == REQ_EVENTS) {
		for (i = 0; i < 3; i++) {
			memset(&rsp, 0, sizeof rsp);
			rsp.hdr.id = EVT_ID; rsp.hdr.size = sizeof rsp; rsp.data[0] = (char)i;
			qb_ipcs_event_send(c, &rsp, sizeof rsp);
		}
	}
	memset(&rsp, 0, sizeof rsp);
	rsp.hdr.id = RSP_ID; rsp.hdr.size = sizeof rsp; rsp.data[0] = rq->data[0];
	qb_ipcs_response_send(c, &rsp, sizeof rsp);
	return 0;
}
static void server_child(int shm)
{
	static struct qb_ipcs_service_handlers h = { s_accept, s_created, s_msg, s_closed, s_destroyed };
	static struct qb_ipcs_poll_handlers p = { sl_job_add, sl_add, sl_mod, sl_del };
	qb_ipcs_service_t *s;
	sloop = qb_loop_create();
	s = qb_ipcs_create(svc_name, 0, shm ? QB_IPC_SHM : QB_IPC_SOCKET, &h);
	if (!s) _exit(4);
	qb_ipcs_poll_handlers_set(s, &p);
	if (qb_ipcs_run(s) != 0) _exit(5);
	ka_child_arm();
	qb_loop_run(sloop);
	_exit(0);
}

struct callrec { const char *name; int timeout; long rc; long long start, end; int phase; };
#define MAXCALLS 16
static struct callrec calls[MAXCALLS];
static volatile int ncalls = 0;
static volatile int phase1_done = 0;
static volatile long long death_ms = -1;
static int sd_timeout;
static int sd_only_disconnect = 0;   /* sdeathq: the client's ONLY call after the server's death is qb_ipcc_disconnect */
static int sd_connected = 0;
static int sd_dirs_after = -1, sd_files_after = -1;
static pid_t server_pid;

static struct callrec *call_begin(const char *name, int timeout)
{
	struct callrec *r = &calls[ncalls];
	r->name = name; r->timeout = timeout; r->rc = 0; r->start = vnow_ms(); r->end = -1; r->phase = phase1_done ? 2 : 1;
	ncalls++;
	return r;
}
static void call_end(struct callrec *r, long rc) { r->rc = rc; r->end = vnow_ms(); }

static void *client_thread(void *arg)
{
	qb_ipcc_connection_t *c = NULL;
	struct my_req rq;
	struct my_rsp rsp;
	struct iovec iov;
	struct callrec *r;
	int i, T = sd_timeout;
	char prefix[64];
	warp_thread = 1;
	memset(&rq, 0, sizeof rq);
	rq.hdr.size = sizeof rq; rq.hdr.id = REQ_ECHO;
	iov.iov_base = &rq; iov.iov_len = sizeof rq;

	r = call_begin("connect", -1);
	for (i = 0; i < 2000 && !c; i++) {       /* the server child may not be listening yet */
		c = qb_ipcc_connect(svc_name, MAXMSG);
		if (!c && errno != ECONNREFUSED) break;
		if (!c) { if (warp_dead) break; __real_usleep(500); }
	}
	call_end(r, c ? 0 : -errno);
	if (c) {
		sd_connected = 1;
		r = call_begin("sendv_recv", T); call_end(r, qb_ipcc_sendv_recv(c, &iov, 1, &rsp, sizeof rsp, T));
		rq.hdr.id = REQ_EVENTS;
		r = call_begin("sendv_recv", T); call_end(r, qb_ipcc_sendv_recv(c, &iov, 1, &rsp, sizeof rsp, T));
		r = call_begin("event_recv", T); call_end(r, qb_ipcc_event_recv(c, &rsp, sizeof rsp, T));
	}
	phase1_done = 1;
	while (!warp_dead) __real_usleep(200);
	if (c && sd_only_disconnect) {
		r = call_begin("disconnect", 0); qb_ipcc_disconnect(c); call_end(r, 0);
	} else if (c) {
		rq.hdr.id = REQ_ECHO;
		r = call_begin("event_recv", T); call_end(r, qb_ipcc_event_recv(c, &rsp, sizeof rsp, T));
		r = call_begin("sendv_recv", T); call_end(r, qb_ipcc_sendv_recv(c, &iov, 1, &rsp, sizeof rsp, T));
		r = call_begin("send", 0); call_end(r, qb_ipcc_send(c, &rq, sizeof rq));
		r = call_begin("recv", 100); call_end(r, qb_ipcc_recv(c, &rsp, sizeof rsp, 100));
		r = call_begin("event_recv", T); call_end(r, qb_ipcc_event_recv(c, &rsp, sizeof rsp, T));
		r = call_begin("recv", -1); call_end(r, qb_ipcc_recv(c, &rsp, sizeof rsp, -1));
		r = call_begin("is_connected", 0); call_end(r, qb_ipcc_is_connected(c));
		r = call_begin("disconnect", 0); qb_ipcc_disconnect(c); call_end(r, 0);
	}
	snprintf(prefix, sizeof prefix, "qb-%d-%d-", (int)server_pid, (int)getpid());
	shm_census(prefix, &sd_files_after, &sd_dirs_after, 0);
	return NULL;
}

static void case_sdeath(const char *tr, int k, int timeout)
{
	struct ka t;
	pthread_t th;
	int i, r, files, dirs, fdstart = count_fds();
	char prefix[64];
	long long t0;
	snprintf(svc_name, sizeof svc_name, "vs%d_%d", (int)getpid(), svc_counter++);
	warp_dead = 0; warp_ns = 0; hang_seen = 0; ncalls = 0; phase1_done = 0; death_ms = -1; sd_connected = 0;
	sd_files_after = sd_dirs_after = -1;
	sd_timeout = timeout;
	fflush(stdout);
	server_pid = fork();
	if (server_pid == 0) {
		ka_child_begin();
		server_child(strcmp(tr, "shm") == 0);
		_exit(0);
	}
	/* a recycled pid: names left in /dev/shm by a dead process that had the server's pid are not this run's */
	snprintf(prefix, sizeof prefix, "qb-%d-", (int)server_pid);
	shm_census(prefix, &files, &dirs, 1);
	srv_virtual_sleep = 0;
	ka_init(&t, server_pid, k);
	if (ka_attach(&t) != 0) { printf("r attach-failed\n"); ka_kill(&t); return; }
	pthread_create(&th, NULL, client_thread, NULL);
	t0 = real_ns(CLOCK_MONOTONIC);
	for (;;) {
		r = ka_step(&t, 0);
		if (r == 1) continue;
		if (r == 2 || r == 3) break;
		if (phase1_done) break;
		if (real_ns(CLOCK_MONOTONIC) - t0 > 30000000000LL) { printf("STUCK\n"); break; }
		__real_usleep(30);
	}
	ka_kill(&t);
	death_ms = vnow_ms();
	warp_dead = 1;
	pthread_join(th, NULL);
	printf("server %s count=%d\n", (r == 2) ? "killed-at-k" : "killed-idle", t.count);
	print_trace(&t);
	for (i = 0; i < ncalls; i++)
		printf("call %s %d rc=%s start=%lld end=%lld death=%lld phase=%d\n", calls[i].name, calls[i].timeout, ename(calls[i].rc),
		       calls[i].start, calls[i].end, (long long)death_ms, calls[i].phase);
	if (hang_seen) printf("HANG %s in call %s\n", hang_where, ncalls ? calls[ncalls - 1].name : "?");
	printf("residue files=%d dirs=%d connected=%d\n", sd_files_after, sd_dirs_after, sd_connected);
	snprintf(prefix, sizeof prefix, "qb-%d-", (int)server_pid);
	shm_census(prefix, &files, &dirs, 1);
	printf("final fds=%d swept_files=%d swept_dirs=%d\n", hang_seen ? 0 : count_fds() - fdstart, files, dirs);
}

int main(void)
{
	char line[256];
	signal(SIGPIPE, SIG_IGN);
	{
		/* a recycled pid: names left in /dev/shm by a dead process that had our pid are not this run's */
		char prefix[64];
		int f, d;
		snprintf(prefix, sizeof prefix, "qb-%d-", (int)getpid());
		shm_census(prefix, &f, &d, 1);
	}
	setvbuf(stdout, NULL, _IOFBF, 1 << 16);
	while (fgets(line, sizeof line, stdin)) {
		char tr[16];
		int a, b, c;
		if (line[0] == '#') { fputs(line, stdout); fflush(stdout); continue; }
		int d, e;
		if (sscanf(line, "cdeathx %15s %d %d %d %d %d", tr, &a, &b, &c, &d, &e) == 6) { closed_left = d; by_midreq = e; case_cdeath(tr, a, b, c); closed_left = 0; by_midreq = 0; }
		else if (sscanf(line, "cdeath %15s %d %d %d", tr, &a, &b, &c) == 4) case_cdeath(tr, a, b, c);
		else if (sscanf(line, "hsprefix %15s %d %d", tr, &a, &b) == 3) case_hsprefix(tr, a, b);
		else if (sscanf(line, "sdeath %15s %d %d", tr, &a, &b) == 3) { sd_only_disconnect = 0; case_sdeath(tr, a, b); }
		else if (sscanf(line, "sdeathq %15s %d %d", tr, &a, &b) == 3) { sd_only_disconnect = 1; case_sdeath(tr, a, b); }
		else if (line[0] != '\n') printf("r bad-op\n");
		fflush(stdout);
	}
	return 0;
}
