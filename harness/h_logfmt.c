/* C13 correspondence harness: drives the real qb_log_target_format / qb_log_format_set /
 * QB_LOG_CONF_MAX_LINE_LEN of the working tree (ASan+UBSan).  The output buffer handed to
 * qb_log_target_format is a heap block of EXACTLY max_line_length bytes, every string (format, message,
 * call-site fields) an exact-size heap copy, so one byte too far is a sanitizer report.
 *
 * script lines (stdin), byte strings in hex ("-" = empty):
 *   # case <n>
 *   C <value>                  qb_log_ctl(t, QB_LOG_CONF_MAX_LINE_LEN, value)            -> "ctl <rc>"
 *   T <L> <ell> <fmt> <msg> <function> <filename> <lineno> <priority> <tagtext|N> <sec> <nsec> <garbage>
 *                              t->format = fmt (set directly), t->max_line_length = L, t->ellipsis = ell,
 *                              qb_log_target_format into malloc(L) pre-filled with <garbage>
 *                              -> "orc <%t text> <%T text>"  then  "out <all L bytes>"
 *   F <L> <fmt>                t->max_line_length = L; qb_log_format_set(t, fmt)
 *                              -> "orc2 <pid text> <hostname> <name>" then "fmt <resulting t->format>"
 */
#include "os_base.h"
#include <stdio.h>
#include <stdlib.h>
#include <string.h>
#include <time.h>
#include <qb/qbdefs.h>
#include <qb/qblog.h>
#include "log_int.h"

static int hexval(int c)
{
	if (c >= '0' && c <= '9') return c - '0';
	if (c >= 'a' && c <= 'f') return c - 'a' + 10;
	return c - 'A' + 10;
}
/* exact-size C string: len bytes + NUL */
static char *unhex_str(const char *s, size_t *len)
{
	size_t n = (strcmp(s, "-") == 0) ? 0 : strlen(s) / 2, i;
	char *b = malloc(n + 1);
	for (i = 0; i < n; i++) {
		b[i] = (char)(hexval(s[2 * i]) * 16 + hexval(s[2 * i + 1]));
	}
	b[n] = 0;
	if (len) *len = n;
	return b;
}
static void puthex(const unsigned char *b, size_t n)
{
	size_t i;
	if (n == 0) { putchar('-'); return; }
	for (i = 0; i < n; i++) printf("%02x", b[i]);
}

static const char *tagtext;
static const char *stringify(uint32_t tags) { (void)tags; return tagtext; }
static int delivered;
static void logger(int32_t t, struct qb_log_callsite *cs, struct timespec *ts, const char *msg)
{
	(void)t; (void)cs; (void)ts;
	delivered++;
	printf("msg ");
	puthex((const unsigned char *)msg, strlen(msg));
	putchar('\n');
}

#define NEXT strtok_r(NULL, " \n", &save)

int main(void)
{
	static char line[1 << 20];
	int32_t t;
	setenv("TZ", "UTC", 1);
	tzset();
	qb_log_init("h_lf", LOG_USER, LOG_EMERG);
	qb_log_ctl(QB_LOG_SYSLOG, QB_LOG_CONF_ENABLED, QB_FALSE);
	t = qb_log_custom_open(logger, NULL, NULL, NULL);
	if (t < 0) {
		printf("note cannot open custom target %d\n", t);
		return 3;
	}
	while (fgets(line, sizeof(line), stdin)) {
		char *save = NULL, *cmd;
		struct qb_log_target *tg = qb_log_target_get(t);
		if (line[0] == '#') {
			fputs(line, stdout);
			fflush(stdout);
			continue;
		}
		cmd = strtok_r(line, " \n", &save);
		if (!cmd) continue;
		if (strcmp(cmd, "C") == 0) {
			int32_t v = (int32_t)strtol(NEXT, NULL, 0);
			size_t before = tg->max_line_length;
			int32_t rc = qb_log_ctl(t, QB_LOG_CONF_MAX_LINE_LEN, v);
			printf("ctl %d\n", rc);
			tg->max_line_length = before;
		} else if (strcmp(cmd, "T") == 0) {
			size_t L = strtoull(NEXT, NULL, 0), glen, i;
			int ell = atoi(NEXT);
			char *fmt = unhex_str(NEXT, NULL);
			char *msg = unhex_str(NEXT, NULL);
			char *fn = unhex_str(NEXT, NULL);
			char *file = unhex_str(NEXT, NULL);
			uint32_t lineno = (uint32_t)strtoul(NEXT, NULL, 0);
			int prio = atoi(NEXT);
			char *tagtok = NEXT;
			char *tag = strcmp(tagtok, "N") == 0 ? NULL : unhex_str(tagtok, NULL);
			struct timespec ts;
			char *gtok;
			unsigned char *g, *out;
			struct qb_log_callsite cs;
			struct tm tm;
			time_t sec;
			char tb[128], tb2[160];
			ts.tv_sec = strtoll(NEXT, NULL, 0);
			ts.tv_nsec = strtol(NEXT, NULL, 0);
			gtok = NEXT;
			g = (unsigned char *)unhex_str(gtok, &glen);
			memset(&cs, 0, sizeof(cs));
			cs.function = fn;
			cs.filename = file;
			cs.format = "x";
			cs.priority = (uint8_t)prio;
			cs.lineno = lineno;
			tagtext = tag;
			qb_log_tags_stringify_fn_set(tag ? stringify : NULL);
			/* oracle: the time-stamp texts, produced independently of log_format.c */
			sec = ts.tv_sec;
			localtime_r(&sec, &tm);
			strftime(tb, sizeof(tb), "%b %d %H:%M:%S", &tm);
			snprintf(tb2, sizeof(tb2), "%s.%03llu", tb, (unsigned long long)(ts.tv_nsec / 1000000));
			printf("orc ");
			puthex((unsigned char *)tb, strlen(tb));
			putchar(' ');
			puthex((unsigned char *)tb2, strlen(tb2));
			putchar('\n');
			fflush(stdout);
			free(tg->format);
			tg->format = fmt;
			tg->max_line_length = L;
			tg->ellipsis = ell;
			out = malloc(L ? L : 1);
			for (i = 0; i < L; i++) out[i] = glen ? g[i % glen] : 0xa5;
			qb_log_target_format(t, &cs, &ts, msg, (char *)out);
			printf("out ");
			puthex(out, L);
			putchar('\n');
			free(out); free(g); free(msg); free(fn); free(file); free(tag);
			tg->format = strdup("[%p] %b");
			tg->max_line_length = QB_LOG_MAX_LEN;
			tg->ellipsis = 0;
		} else if (strcmp(cmd, "M") == 0) {
			/* M <L> <priority> <msg>: a whole log call ("%s", msg) delivered to the custom target whose
			 * max_line_length is L -> "msg <text handed to the logger>" per delivery, then "dlv <count>" */
			size_t L = strtoull(NEXT, NULL, 0);
			int prio = atoi(NEXT);
			char *msg = unhex_str(NEXT, NULL);
			tg->max_line_length = L;
			delivered = 0;
			qb_log_filter_ctl(t, QB_LOG_FILTER_ADD, QB_LOG_FILTER_FILE, "*", LOG_TRACE);
			qb_log_ctl(t, QB_LOG_CONF_ENABLED, QB_TRUE);
			qb_log_from_external_source("fn", "file.c", "%s", (uint8_t)prio, 10, 0, msg);
			qb_log_ctl(t, QB_LOG_CONF_ENABLED, QB_FALSE);
			printf("dlv %d\n", delivered);
			tg->max_line_length = QB_LOG_MAX_LEN;
			free(msg);
		} else if (strcmp(cmd, "F") == 0) {
			size_t L = strtoull(NEXT, NULL, 0);
			char *fmt = unhex_str(NEXT, NULL);
			char host[256], pid[32];
			if (gethostname(host, sizeof(host)) != 0) strcpy(host, "localhost");
			host[254] = 0;
			snprintf(pid, sizeof(pid), "%d", (int)getpid());
			printf("orc2 ");
			puthex((unsigned char *)pid, strlen(pid));
			putchar(' ');
			puthex((unsigned char *)host, strlen(host));
			putchar(' ');
			puthex((unsigned char *)tg->name, strlen(tg->name));
			putchar('\n');
			fflush(stdout);
			tg->max_line_length = L;
			qb_log_format_set(t, fmt);
			printf("fmt ");
			puthex((unsigned char *)tg->format, strlen(tg->format));
			putchar('\n');
			free(fmt);
			tg->max_line_length = QB_LOG_MAX_LEN;
			qb_log_format_set(t, NULL);
		} else {
			printf("note unknown command %s\n", cmd);
		}
		fflush(stdout);
	}
	return 0;
}
