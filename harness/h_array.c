/* C19 sequential correspondence harness: drives the real lib/array.c (compiled from the working
 * tree, ASan+UBSan) from a script and prints every API call with its observable result.
 *
 * script lines (stdin):
 *   # case <n>                    fresh state (frees the previous array)
 *   c <max> <esize> <auto> <cb>   qb_array_create_2; cb=1 installs a new_bin_cb that logs "cb <bin>"
 *   i <idx>                       qb_array_index
 *   g <n>                         qb_array_grow
 *   n                             qb_array_num_bins_get
 *   s <idx> <k> <v>               caller stores byte v at offset k of element idx THROUGH THE FIRST POINTER
 *                                 it ever got for idx (the pointer a user keeps)
 *   l <idx> <k>                   caller loads that byte
 * output: "op <same line>", then "cb <bin>" lines, then the result:
 *   c:  "r 0" | "r -<errno>"           i: "r <rc> <blk> <off>"  (+ "p <idx> <raw pointer> <esize>", for the monitor only)
 *   g:  "r <rc>"   n: "r <bins>"       s: "r 0" | "r -1" (no pointer held / offset outside the element)
 *   l:  "v <byte>" | "v none"
 * Addresses are canonical: <blk> = allocation-order number of the calloc'ed bin block that
 * contains the pointer, <off> = byte offset inside it ("? ?" + a note if it is in no block, in
 * which case the harness never dereferences it).
 *
 * calloc/realloc are wrapped (-Wl,--wrap): calloc calls made inside qb_array_index are the bin
 * blocks; realloc ALWAYS moves, fills the grown part with 0xAB and frees the old table, so that
 * a stale table pointer or a missing NULL-initialisation shows up under ASan / as a wild pointer.
 */
#include "os_base.h"
#include <stdio.h>
#include <stdlib.h>
#include <string.h>
#include <inttypes.h>
#include <errno.h>
#include <qb/qbarray.h>

void *__real_calloc(size_t n, size_t sz);
void *__real_realloc(void *p, size_t n);

#define MAXBLK 8192
static struct { char *p; size_t n; } blk[MAXBLK];
static int nblk;
static int in_index;      /* calloc tracking is on */
static int in_array;      /* realloc is forced to move */

#define MAXTBL 64
static struct { void *p; size_t n; } tblsz[MAXTBL];   /* live realloc'ed objects and their sizes */

void *__wrap_calloc(size_t n, size_t sz)
{
	void *p = __real_calloc(n, sz);
	if (in_index && p && nblk < MAXBLK) {
		blk[nblk].p = p;
		blk[nblk].n = n * sz;
		nblk++;
	}
	return p;
}

void *__wrap_realloc(void *old, size_t n)
{
	int i, slot = -1;
	size_t oldn = 0;
	char *np;
	if (!in_array) {
		return __real_realloc(old, n);
	}
	for (i = 0; i < MAXTBL; i++) {
		if (old && tblsz[i].p == old) {
			oldn = tblsz[i].n;
			slot = i;
		}
	}
	if (old && slot < 0) {
		return __real_realloc(old, n);   /* not ours */
	}
	np = malloc(n ? n : 1);
	if (np == NULL) {
		return NULL;
	}
	memset(np, 0xAB, n);
	if (old) {
		memcpy(np, old, oldn < n ? oldn : n);
		free(old);
		tblsz[slot].p = NULL;
	}
	for (i = 0; i < MAXTBL; i++) {
		if (tblsz[i].p == NULL) {
			tblsz[i].p = np;
			tblsz[i].n = n;
			break;
		}
	}
	return np;
}

static qb_array_t *arr;
static size_t cur_esize;
static void **cachep;     /* first pointer returned per index, [0, 65536) */

static void new_bin_cb(qb_array_t *a, uint32_t bin)
{
	printf("cb %u\n", bin);
}

static void fresh(void)
{
	int i;
	if (arr) {
		qb_array_free(arr);
		arr = NULL;
	}
	for (i = 0; i < MAXTBL; i++) {
		tblsz[i].p = NULL;
	}
	nblk = 0;
	memset(cachep, 0, sizeof(void *) * 65536);
}

static int canon(void *p, long *b, long *o)
{
	int k;
	for (k = 0; k < nblk; k++) {
		if ((char *)p >= blk[k].p && (char *)p < blk[k].p + blk[k].n) {
			*b = k;
			*o = (char *)p - blk[k].p;
			return 1;
		}
	}
	return 0;
}

int main(void)
{
	char line[256];
	setvbuf(stdout, NULL, _IOLBF, 1 << 16);   /* line-buffered: a sanitizer abort must not lose the case marker */
	cachep = calloc(65536, sizeof(void *));
	while (fgets(line, sizeof line, stdin)) {
		char c = line[0];
		long long x = 0, y = 0, z = 0, u = 0;
		size_t len = strlen(line);
		if (len && line[len - 1] == '\n') {
			line[len - 1] = 0;
		}
		if (c == '#') {
			fresh();
			puts(line);
			continue;
		}
		sscanf(line + 1, "%lld %lld %lld %lld", &x, &y, &z, &u);
		if (c == 'c') {
			fresh();
			printf("op %s\n", line);
			errno = 0;
			in_array = 1;
			arr = qb_array_create_2((size_t)x, (size_t)y, (size_t)z);
			in_array = 0;
			cur_esize = (size_t)y;
			if (arr && u) {
				qb_array_new_bin_cb_set(arr, new_bin_cb);
			}
			printf("r %d\n", arr ? 0 : -errno);
		} else if (arr == NULL) {
			continue;               /* create failed: nothing to call */
		} else if (c == 'i') {
			void *p = (void *)0x1;
			int32_t rc;
			long b = 0, o = 0;
			printf("op %s\n", line);
			in_array = in_index = 1;
			rc = qb_array_index(arr, (int32_t)x, &p);
			in_array = in_index = 0;
			if (rc != 0) {
				printf("r %d\n", rc);
			} else if (canon(p, &b, &o)) {
				printf("r 0 %ld %ld\n", b, o);
				printf("p %lld %p %zu\n", x, p, cur_esize);
				if (x >= 0 && x < 65536 && cachep[x] == NULL) {
					cachep[x] = p;
				}
			} else {
				printf("r 0 ? ?\n");
				printf("note pointer-outside-every-bin-block idx=%lld\n", x);
			}
		} else if (c == 'g') {
			int32_t rc;
			printf("op %s\n", line);
			in_array = 1;
			rc = qb_array_grow(arr, (size_t)x);
			in_array = 0;
			printf("r %d\n", rc);
		} else if (c == 'n') {
			printf("op %s\n", line);
			printf("r %zu\n", qb_array_num_bins_get(arr));
		} else if (c == 's' || c == 'l') {
			unsigned char *p = (x >= 0 && x < 65536) ? cachep[x] : NULL;
			printf("op %s\n", line);
			if (p == NULL || y < 0 || (size_t)y >= cur_esize) {
				puts(c == 's' ? "r -1" : "v none");
			} else if (c == 's') {
				p[y] = (unsigned char)z;
				puts("r 0");
			} else {
				printf("v %u\n", p[y]);
			}
		}
	}
	fresh();
	fflush(stdout);
	return 0;
}
