/* -Wl,--wrap wrappers: pthread spin locks and mutexes become virtual locks of the controlled scheduler
 * (sched_rt.c) when called from a virtual thread; from any other thread (or from inside the runtime) the real
 * functions run.  Link flags needed: see vlib/sched.py LOCK_WRAPS.  Compiled without sanitizers. */
#include "sched_rt.h"
#include <pthread.h>
#include <errno.h>
extern __thread int sch_internal;

int __real_pthread_spin_lock(pthread_spinlock_t *l);
int __real_pthread_spin_trylock(pthread_spinlock_t *l);
int __real_pthread_spin_unlock(pthread_spinlock_t *l);
int __real_pthread_spin_destroy(pthread_spinlock_t *l);
int __real_pthread_mutex_lock(pthread_mutex_t *l);
int __real_pthread_mutex_trylock(pthread_mutex_t *l);
int __real_pthread_mutex_unlock(pthread_mutex_t *l);
int __real_pthread_mutex_destroy(pthread_mutex_t *l);

#define VIRT (!sch_internal && sch_self() >= 0)

int __wrap_pthread_spin_lock(pthread_spinlock_t *l) { if (!VIRT) return __real_pthread_spin_lock(l); sch_lock((void *)l); return 0; }
int __wrap_pthread_spin_trylock(pthread_spinlock_t *l) { if (!VIRT) return __real_pthread_spin_trylock(l); return sch_trylock((void *)l); }
int __wrap_pthread_spin_unlock(pthread_spinlock_t *l) { if (!VIRT) return __real_pthread_spin_unlock(l); sch_unlock((void *)l); return 0; }
int __wrap_pthread_spin_destroy(pthread_spinlock_t *l) { sch_lock_forget((void *)l); return __real_pthread_spin_destroy(l); }
int __wrap_pthread_mutex_lock(pthread_mutex_t *l) { if (!VIRT) return __real_pthread_mutex_lock(l); sch_lock((void *)l); return 0; }
int __wrap_pthread_mutex_trylock(pthread_mutex_t *l) { if (!VIRT) return __real_pthread_mutex_trylock(l); return sch_trylock((void *)l); }
int __wrap_pthread_mutex_unlock(pthread_mutex_t *l) { if (!VIRT) return __real_pthread_mutex_unlock(l); sch_unlock((void *)l); return 0; }
int __wrap_pthread_mutex_destroy(pthread_mutex_t *l) { sch_lock_forget((void *)l); return __real_pthread_mutex_destroy(l); }
