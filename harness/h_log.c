/* C12 correspondence harness: drives the real log routing code (lib/log.c, lib/log_dcs.c, compiled
 * from the working tree under ASan+UBSan) from a script and prints, for every API call, the concrete
 * call and what could be observed: return codes and the invocations of the custom targets' logger
 * callbacks (target, call site, tags, text).
 *
 * script lines (stdin); strings are N (NULL) or x<hex bytes> (x alone = empty string):
 *   # case <n>                 fresh logging system: qb_log_fini(); qb_log_init("vlog", LOG_USER, LOG_INFO)
 *   oracle? rc <pat>           regcomp(pat, 0) evaluated by the harness itself   -> "oracle rc <pat> <0|1>"
 *   oracle? re <pat> <subj>    regexec(compiled pat, subj) == 0                  -> "oracle re <pat> <subj> <0|1>"
 *   O                          qb_log_custom_open(logger)                        -> r <pos or -errno>
 *   X <t>                      qb_log_custom_close(t)                            -> r 0
 *   E <t> <0|1>                qb_log_ctl(t, QB_LOG_CONF_ENABLED, arg)           -> r <rc>
 *   F <t> <c> <ty> <text> <hi> <lo>   qb_log_filter_ctl2                         -> r <rc>
 *   L <fn> <file> <fmt> <prio> <line> <tags> <mode>
 *        mode 0: cs = qb_log_callsite_get(...); qb_log_real_(cs)     (what the qb_log() macro expands to)
 *        mode 1: qb_log_from_external_source(...), then qb_log_callsite_get(...) only to learn the pointer
 *   Q <k>                      the k-th static qb_log()/qb_logt() statement below
 * output for L/Q:  op L <fn> <file> <fmt> <prio> <line> <tags>
 *                  s <id>                          call sites are numbered in order of first appearance
 *                  d <target> <id> <tags> <text>   one per logger callback invocation, in order
 *                  r 0
 * A delivery through syslog(3) (target 0, not a custom target) is printed as "d 0 <id> <tags> -" by a wrapper.
 */
#include "os_base.h"
#include <stdio.h>
#include <stdlib.h>
#include <string.h>
#include <stdarg.h>
#include <regex.h>
#include <qb/qblog.h>

#define MAXS 70000
static struct qb_log_callsite *seen[MAXS];
static int n_seen = 0;
static int inited = 0;

#define MAXD 256
struct deliv { int t; struct qb_log_callsite *cs; unsigned tags; char text[1100]; };
static struct deliv dbuf[MAXD];
static int n_d = 0;

static int site_id(struct qb_log_callsite *cs)
{
	int i;
	for (i = n_seen - 1; i >= 0; i--) {
		if (seen[i] == cs) return i;
	}
	if (n_seen < MAXS) {
		seen[n_seen] = cs;
		return n_seen++;
	}
	return -1;
}

static void hex_out(char *dst, size_t room, const char *s)
{
	size_t k = 0;
	if (s == NULL) {
		snprintf(dst, room, "N");
		return;
	}
	dst[k++] = 'x';
	while (*s && k + 3 < room) {
		snprintf(dst + k, 3, "%02x", (unsigned char)*s);
		k += 2;
		s++;
	}
	dst[k] = 0;
}

static char *hex_in(const char *h)   /* returns malloc'd exact-size string, or NULL for "N" */
{
	size_t n, i;
	char *s;
	if (h[0] != 'x') return NULL;
	n = strlen(h + 1) / 2;
	s = malloc(n + 1);
	for (i = 0; i < n; i++) {
		unsigned int b = 0;
		sscanf(h + 1 + 2 * i, "%2x", &b);
		s[i] = (char)b;
	}
	s[n] = 0;
	return s;
}

static void logger(int32_t t, struct qb_log_callsite *cs, struct timespec *ts, const char *msg)
{
	(void)ts;
	if (n_d < MAXD) {
		dbuf[n_d].t = t;
		dbuf[n_d].cs = cs;
		dbuf[n_d].tags = cs->tags;       /* the tag word as the logger sees it */
		hex_out(dbuf[n_d].text, sizeof dbuf[0].text, msg);
		n_d++;
	}
}

/* syslog(3) is where the syslog target (0) ends up: seeing it called is seeing that target's logger invoked
 * (its text is a formatted line, not compared: "-") */
void __wrap_syslog(int prio, const char *fmt, ...)
{
	(void)prio;
	(void)fmt;
	if (n_d < MAXD) {
		dbuf[n_d].t = 0;
		dbuf[n_d].cs = NULL;
		strcpy(dbuf[n_d].text, "-");
		n_d++;
	}
}

static void fresh(void)
{
	if (inited) {
		qb_log_fini();
	}
	qb_log_init("vlog", LOG_USER, LOG_INFO);
	inited = 1;
	n_seen = 0;
	n_d = 0;
}

static void announce_call(const char *fn, const char *file, const char *fmt, int prio, unsigned line, unsigned tags)
{
	char a[600], b[600], c[600];
	hex_out(a, sizeof a, fn);
	hex_out(b, sizeof b, file);
	hex_out(c, sizeof c, fmt);
	printf("op L %s %s %s %d %u %u\n", a, b, c, prio, line, tags);
	fflush(stdout);      /* the call may abort the process: keep what was announced */
	n_d = 0;
}

static void report_call(struct qb_log_callsite *cs)
{
	int i;
	printf("s %d\n", cs ? site_id(cs) : -1);
	for (i = 0; i < n_d; i++) {
		struct qb_log_callsite *dcs = dbuf[i].cs ? dbuf[i].cs : cs;
		printf("d %d %d %u %s\n", dbuf[i].t, dcs ? site_id(dcs) : -1,
		       dbuf[i].cs ? dbuf[i].tags : (dcs ? dcs->tags : 0), dbuf[i].text);
	}
	printf("r 0\n");
	n_d = 0;
}

/* ---- a block of static log statements with fixed coordinates ---- */
#line 1001 "vstatic.c"
static void st_alpha(int k)
{
	switch (k) {
	case 0: qb_log(LOG_INFO, "alpha info"); break;                   /* line 1004 */
	case 1: qb_log(LOG_ERR, "alpha error"); break;                   /* line 1005 */
	case 2: qb_log(LOG_DEBUG, "ab"); break;                          /* line 1006 */
	case 3: qb_logt(LOG_NOTICE, 5, "tagged five"); break;            /* line 1007 */
	}
}
#line 2001 "vstatic.c"
static void st_beta(int k)
{
	switch (k) {
	case 4: qb_log(LOG_INFO, "alpha info"); break;                   /* line 2004: same text, other function/line */
	case 5: qb_log(LOG_TRACE, "a,b"); break;                         /* line 2005 */
	case 6: qb_log(LOG_WARNING, "a"); break; case 7: qb_log(LOG_WARNING, "a"); break; /* line 2006: two statements, one key */
	}
}
#line 3000 "h_log.c"

struct st_desc { const char *fn; const char *file; const char *fmt; int prio; unsigned line; unsigned tags; };
static const struct st_desc st_tab[] = {
	{"st_alpha", "vstatic.c", "alpha info", LOG_INFO, 1004, 0},
	{"st_alpha", "vstatic.c", "alpha error", LOG_ERR, 1005, 0},
	{"st_alpha", "vstatic.c", "ab", LOG_DEBUG, 1006, 0},
	{"st_alpha", "vstatic.c", "tagged five", LOG_NOTICE, 1007, 5},
	{"st_beta", "vstatic.c", "alpha info", LOG_INFO, 2004, 0},
	{"st_beta", "vstatic.c", "a,b", LOG_TRACE, 2005, 0},
	{"st_beta", "vstatic.c", "a", LOG_WARNING, 2006, 0},
	{"st_beta", "vstatic.c", "a", LOG_WARNING, 2006, 0},
};
#define N_STATIC ((int)(sizeof st_tab / sizeof st_tab[0]))

static regex_t *compile(const char *pat)
{
	regex_t *re = calloc(1, sizeof *re);
	if (regcomp(re, pat, 0) != 0) {
		free(re);
		return NULL;
	}
	return re;
}

int main(void)
{
	static char line[8192];
	setvbuf(stdout, NULL, _IOFBF, 1 << 16);
	fresh();
	while (fgets(line, sizeof line, stdin)) {
		char c = line[0];
		if (c == '#') {
			fresh();
			fputs(line, stdout);
			continue;
		}
		if (strncmp(line, "oracle? rc ", 11) == 0) {
			char p[2048];
			char *pat;
			regex_t *re;
			sscanf(line + 11, "%2047s", p);
			pat = hex_in(p);
			re = compile(pat);
			printf("oracle rc %s %d\n", p, re ? 1 : 0);
			if (re) { regfree(re); free(re); }
			free(pat);
			continue;
		}
		if (strncmp(line, "oracle? re ", 11) == 0) {
			char p[2048], s[2048];
			char *pat, *subj;
			regex_t *re;
			int m = 0;
			sscanf(line + 11, "%2047s %2047s", p, s);
			pat = hex_in(p);
			subj = hex_in(s);
			re = compile(pat);
			if (re) {
				m = (regexec(re, subj, 0, NULL, 0) == 0);
				regfree(re);
				free(re);
			}
			printf("oracle re %s %s %d\n", p, s, m);
			free(pat);
			free(subj);
			continue;
		}
		if (c == 'O') {
			int32_t rc;
			printf("op O\n");
			fflush(stdout);
			rc = qb_log_custom_open(logger, NULL, NULL, NULL);
			printf("r %d\n", rc);
		} else if (c == 'X') {
			int t = 0;
			sscanf(line + 1, "%d", &t);
			printf("op X %d\n", t);
			fflush(stdout);
			qb_log_custom_close(t);
			printf("r 0\n");
		} else if (c == 'E') {
			int t = 0, on = 0;
			int32_t rc;
			sscanf(line + 1, "%d %d", &t, &on);
			printf("op E %d %d\n", t, on);
			fflush(stdout);
			rc = qb_log_ctl(t, QB_LOG_CONF_ENABLED, on);
			printf("r %d\n", rc);
		} else if (c == 'F') {
			int t = 0, cc = 0, ty = 0, hi = 0, lo = 0;
			char tx[2048];
			char *text;
			int32_t rc;
			sscanf(line + 1, "%d %d %d %2047s %d %d", &t, &cc, &ty, tx, &hi, &lo);
			text = hex_in(tx);
			printf("op F %d %d %d %s %d %d\n", t, cc, ty, tx, hi, lo);
			fflush(stdout);
			rc = qb_log_filter_ctl2(t, (enum qb_log_filter_conf)cc, (enum qb_log_filter_type)ty, text,
						(uint8_t)hi, (uint8_t)lo);
			printf("r %d\n", rc);
			free(text);
		} else if (c == 'L') {
			char a[2048], b[2048], f[2048];
			int prio = 0, mode = 0;
			unsigned ln = 0, tags = 0;
			char *fn, *file, *fmt;
			struct qb_log_callsite *cs;
			sscanf(line + 1, "%2047s %2047s %2047s %d %u %u %d", a, b, f, &prio, &ln, &tags, &mode);
			fn = hex_in(a);
			file = hex_in(b);
			fmt = hex_in(f);
			announce_call(fn, file, fmt, prio, ln, tags);
			if (mode == 0) {
				cs = qb_log_callsite_get(fn, file, fmt, (uint8_t)prio, ln, tags);
				qb_log_real_(cs);
			} else {
				qb_log_from_external_source(fn, file, fmt, (uint8_t)prio, ln, tags);
				cs = qb_log_callsite_get(fn, file, fmt, (uint8_t)prio, ln, tags);
			}
			/* the strings handed in are freed right away: the library must have kept copies */
			report_call(cs);
			free(fn);
			free(file);
			free(fmt);
		} else if (c == 'Q') {
			int k = 0;
			sscanf(line + 1, "%d", &k);
			if (k >= 0 && k < N_STATIC) {
				const struct st_desc *d = &st_tab[k];
				struct qb_log_callsite *cs;
				announce_call(d->fn, d->file, d->fmt, d->prio, d->line, d->tags);
				if (k < 4) st_alpha(k); else st_beta(k);
				cs = qb_log_callsite_get(d->fn, d->file, d->fmt, (uint8_t)d->prio, d->line, d->tags);
				report_call(cs);
			}
		}
	}
	fflush(stdout);
	return 0;
}
