/* C02 / C06 correspondence harness: the in-process IPC lab (DESIGN.md 4.2).
 *
 * One libqb IPC server (qb_ipcs_create + harness-owned poll handlers) and one libqb client
 * (qb_ipcc_connect_async / qb_ipcc_connect_continue) live in ONE thread of ONE process and are
 * driven call by call from a script.  The server's main loop is replaced by explicit "server
 * turns": every descriptor in the harness-owned dispatch table is polled with timeout 0 and its
 * libqb dispatch function is called with the revents the kernel reports.  All library code is the
 * unmodified lib/*.c of the working tree (ASan + UBSan).
 *
 * Kernel outcomes of send()/writev() on the connection's sockets are the environment: they are
 * logged ("e <class> <len> <result>") so the model can consume the same answers, and the script
 * can force EAGAIN answers ("inj") - the only fault the harness ever injects, and one every
 * non-blocking socket may legitimately give.
 *
 * Script (stdin), one op per line; "# case <n>" starts a fresh server + client:
 *   open shm|sock <max>        create service, connect, finish the handshake
 *   cs <len> <tag> [id] [hsz]  qb_ipcc_send        cv <len> <tag> <parts>      qb_ipcc_sendv
 *   cx <len> <tag> <buflen>    qb_ipcc_sendv_recv (timeout 0)
 *   cr <buflen>                qb_ipcc_recv (timeout 0)      ce <buflen>       qb_ipcc_event_recv (timeout 0)
 *   cf <n>                     qb_ipcc_fc_enable_max_set
 *   t                          one server turn
 *   sr <len> <tag>  sv <len> <tag> <parts>    qb_ipcs_response_send / _sendv
 *   se <len> <tag>  sw <len> <tag> <parts>    qb_ipcs_event_send / _sendv
 *   rl <0..4>                  qb_ipcs_request_rate_limit(FAST NORMAL SLOW OFF OFF_2)
 *   mr <r> ...                 return values of the next msg_process calls (then 0)
 *   inj <class> <n>            the next n send()/writev() calls on sockets of <class> fail with EAGAIN
 *   rq <reallen> <hsz> <id> <tag>   RAW request: <reallen> bytes whose header says size=<hsz>, id=<id>,
 *                              written straight into the request ring (+ notification byte) or sent as
 *                              a datagram on the request socket, bypassing qb_ipcc_send's checks
 *   hs <spec>                  RAW handshake bytes on a (fresh) stream socket to the service (kinds: see below);
 *                              logs "hb <k> <hex>" = the bytes raw peer k wrote (the model's input), then 3 server turns
 *   hx <k> / hh <k>            raw peer k closes its socket / shuts down only its sending direction; 3 server turns
 *   census                     resources the service holds (poll table entries, descriptors, /dev/shm entries, service refs)
 *   ctl                        a second, well-behaved client connects, sends one request, gets the
 *                              response (sent from msg_process) and disconnects: "is the server alive"
 * Message bytes: header id at 0, tag at 4 (padding), size field at 8, then byte i = pat(tag, i).
 *
 * Output: "op ..." echo, then "e ..." kernel outcomes, "M ..." / "cb ..." callback lines, "r ..." result,
 * "st ..." API-level state digest (connection stats, POLLOUT armed in the dispatch table, client fd
 * readable, server fd readable).
 */
#include "os_base.h"
#include <stdio.h>
#include <stdlib.h>
#include <string.h>
#include <errno.h>
#include <poll.h>
#include <signal.h>
#include <dirent.h>
#include <sys/socket.h>
#include <sys/un.h>
#include <sys/uio.h>
#include <qb/qbdefs.h>
#include <qb/qbloop.h>
#include <qb/qbipcs.h>
#include <qb/qbipcc.h>
#include <qb/qbrb.h>
#include <qb/qblog.h>
#include "util_int.h"
#include "ipc_int.h"

#define HDR 16
#define MAXBUF (1 << 20)

/* ------------------------------------------------------------------ dispatch table = the "main loop" */
struct dent { int fd; int events; void *data; qb_ipcs_dispatch_fn_t fn; int live; };
#define MAXD 64
static struct dent dtab[MAXD];
static int ndent = 0;

static int32_t d_add(enum qb_loop_priority p, int32_t fd, int32_t ev, void *data, qb_ipcs_dispatch_fn_t fn)
{
	int i;
	for (i = 0; i < ndent; i++) {
		if (dtab[i].live && dtab[i].fd == fd) return -EEXIST;
	}
	for (i = 0; i < ndent; i++) if (!dtab[i].live) break;
	if (i == ndent) {
		if (ndent == MAXD) return -ENOMEM;
		ndent++;
	}
	dtab[i].fd = fd; dtab[i].events = ev; dtab[i].data = data; dtab[i].fn = fn; dtab[i].live = 1;
	return 0;
}
static int32_t d_mod(enum qb_loop_priority p, int32_t fd, int32_t ev, void *data, qb_ipcs_dispatch_fn_t fn)
{
	int i;
	for (i = 0; i < ndent; i++) {
		if (dtab[i].live && dtab[i].fd == fd) {
			dtab[i].events = ev; dtab[i].data = data; dtab[i].fn = fn;
			return 0;
		}
	}
	return -ENOENT;
}
static int32_t d_del(int32_t fd)
{
	int i;
	for (i = 0; i < ndent; i++) {
		if (dtab[i].live && dtab[i].fd == fd) { dtab[i].live = 0; return 0; }
	}
	return -ENOENT;
}
struct job { void *data; qb_loop_job_dispatch_fn fn; };
static struct job jobs[16];
static int njobs = 0;
static int32_t j_add(enum qb_loop_priority p, void *data, qb_loop_job_dispatch_fn fn)
{
	if (njobs == 16) return -ENOMEM;
	jobs[njobs].data = data; jobs[njobs].fn = fn; njobs++;
	return 0;
}

/* ------------------------------------------------------------------ global lab state */
static qb_ipcs_service_t *svc = NULL;
static qb_ipcc_connection_t *cli = NULL;
static qb_ipcs_connection_t *sconn = NULL;      /* server side of `cli' */
static qb_ipcs_connection_t *ctl_sconn = NULL;  /* server side of the control client, while it lives */
static int sconn_closed = 0, sconn_destroyed = 0;
static int is_shm = 0;
static long negotiated = 0;
static char svc_name[64];
static int svc_counter = 0;
static long mrets[64];
static int n_mrets = 0, i_mrets = 0;
static int in_ctl = 0;
static int quiet_cb = 0;       /* teardown: the server may still deliver queued requests; not part of the script */
static int n_accept = 0, n_created = 0, n_msgproc = 0;
/* raw (hostile) handshake peers: server-side connection objects that came out of a raw handshake */
#define RAWMAX 16
static int rawfd[RAWMAX];
static int nraw = 0;
static int cur_raw = -1;                        /* raw peer whose bytes the server is looking at (hs/hh/hx ops) */
static qb_ipcs_connection_t *raw_conn[RAWMAX];
/* the first bytes each raw peer has written: the lab refuses to deliver a stream that would make the server allocate
 * an absurd amount of shared memory (a valid request asking for more than LAB_MAX_REQ bytes per channel) */
#define LAB_MAX_REQ (4u << 20)
static unsigned char raw_head[RAWMAX][sizeof(struct qb_ipc_connection_request)];
static size_t raw_headlen[RAWMAX];
static int n_rcreated = 0, n_rclosed = 0, n_rdestroyed = 0;

#define MAXTAG 65536
static int tag_len[MAXTAG];       /* real length sent under each tag (harness bookkeeping for the content check) */

static unsigned char *buf_a, *buf_b;

static unsigned char pat(long tag, long i)
{
	return (unsigned char)((tag * 131 + i * 7 + (i >> 8) * 13 + 5) & 0xff);
}

static void fill_msg(unsigned char *b, long len, long tag, int32_t id, int32_t hsz)
{
	long i;
	unsigned char h[HDR];
	int32_t t32 = (int32_t)tag;
	memset(h, 0, HDR);
	memcpy(h, &id, 4);
	memcpy(h + 4, &t32, 4);
	memcpy(h + 8, &hsz, 4);
	for (i = 0; i < len; i++) {
		b[i] = (i < HDR) ? h[i] : pat(tag, i);
	}
	if (tag >= 0 && tag < MAXTAG) tag_len[tag] = (int)len;
}

/* describe n received bytes: "<tag> <id> <hsz> <ok>"; ok = 1 iff every payload byte is what the sender wrote
 * (checked over the bytes that really exist: min(n, real length sent under this tag)) */
static void describe(const unsigned char *b, long n, char *out, size_t outlen)
{
	int32_t id = 0, t32 = -1, hsz = 0;
	long i, lim, ok = 1;
	if (n >= 4) memcpy(&id, b, 4);
	if (n >= 8) memcpy(&t32, b + 4, 4);
	if (n >= 12) memcpy(&hsz, b + 8, 4);
	lim = n;
	if (t32 >= 0 && t32 < MAXTAG) {
		if (lim > tag_len[t32]) lim = tag_len[t32];
	} else {
		lim = (n < HDR) ? n : HDR;
	}
	for (i = HDR; i < lim; i++) {
		if (b[i] != pat(t32, i)) { ok = 0; break; }
	}
	snprintf(out, outlen, "%d %d %d %ld", t32, id, hsz, ok);
}

/* ------------------------------------------------------------------ wrapped send()/writev(): the environment */
static int inj_left[8];
enum { K_CSET, K_CREQ, K_CEVT, K_SSET, K_SREQ, K_SEVT, K_OTHER };
static const char *kname[] = { "cset", "creq", "cevt", "sset", "sreq", "sevt", "other" };

static int classify(int fd)
{
	if (in_ctl) return K_OTHER;
	if (cli) {
		struct qb_ipcc_connection *c = cli;
		if (fd == c->setup.u.us.sock) return K_CSET;
		if (!is_shm && c->is_connected) {
			if (fd == c->request.u.us.sock) return K_CREQ;
			if (fd == c->event.u.us.sock) return K_CEVT;
		}
	}
	if (sconn && !sconn_destroyed) {
		struct qb_ipcs_connection *s = sconn;
		if (fd == s->setup.u.us.sock) return K_SSET;
		if (!is_shm) {
			if (fd == s->request.u.us.sock) return K_SREQ;
			if (fd == s->event.u.us.sock) return K_SEVT;
		}
	}
	return K_OTHER;
}

static int env_log = 0;   /* only log while a scripted op is executing on an open connection */

ssize_t __real_send(int fd, const void *b, size_t n, int flags);
ssize_t __wrap_send(int fd, const void *b, size_t n, int flags)
{
	int k = classify(fd);
	ssize_t r;
	if (k != K_OTHER && inj_left[k] > 0) {
		inj_left[k]--;
		if (env_log) printf("e %s %zu %d\n", kname[k], n, -EAGAIN);
		errno = EAGAIN;
		return -1;
	}
	r = __real_send(fd, b, n, flags);
	if (k != K_OTHER && env_log) {
		int e = errno;
		printf("e %s %zu %ld\n", kname[k], n, (long)(r < 0 ? -e : r));
		errno = e;
	}
	return r;
}
ssize_t __real_writev(int fd, const struct iovec *iov, int cnt);
ssize_t __wrap_writev(int fd, const struct iovec *iov, int cnt)
{
	int k = classify(fd);
	ssize_t r;
	size_t n = 0;
	int i;
	for (i = 0; i < cnt; i++) n += iov[i].iov_len;
	if (k != K_OTHER && inj_left[k] > 0) {
		inj_left[k]--;
		if (env_log) printf("e %s %zu %d\n", kname[k], n, -EAGAIN);
		errno = EAGAIN;
		return -1;
	}
	r = __real_writev(fd, iov, cnt);
	if (k != K_OTHER && env_log) {
		int e = errno;
		printf("e %s %zu %ld\n", kname[k], n, (long)(r < 0 ? -e : r));
		errno = e;
	}
	return r;
}

/* ------------------------------------------------------------------ server callbacks */
static int32_t cb_accept(qb_ipcs_connection_t *c, uid_t uid, gid_t gid)
{
	n_accept++;
	return 0;
}
static void cb_created(qb_ipcs_connection_t *c)
{
	n_created++;
	if (in_ctl) ctl_sconn = c;
	else if (cur_raw >= 0 && cur_raw < RAWMAX) { raw_conn[cur_raw] = c; n_rcreated++; }
	else sconn = c;
}
static int raw_index_of(qb_ipcs_connection_t *c)
{
	int i;
	for (i = 0; i < RAWMAX; i++) if (raw_conn[i] == c) return i;
	return -1;
}
static int32_t cb_msg(qb_ipcs_connection_t *c, void *data, size_t size)
{
	char d[96];
	long real;
	int32_t t32 = -1;
	n_msgproc++;
	if (raw_index_of(c) >= 0) {
		/* a raw handshake peer never sends requests through the lab: any call here is reported */
		printf("M-raw %zu\n", size);
		return 0;
	}
	if (c == ctl_sconn) {
		/* control client: answer from inside the callback, the usual libqb idiom */
		struct qb_ipc_response_header rh;
		memset(&rh, 0, sizeof rh);
		rh.id = 77; rh.size = sizeof rh; rh.error = 0;
		(void)qb_ipcs_response_send(c, &rh, sizeof rh);
		return 0;
	}
	/* never trust `size' when looking at the bytes: the real length is harness bookkeeping */
	memcpy(&t32, (unsigned char *)data + 4, 4);
	real = (t32 >= 0 && t32 < MAXTAG) ? tag_len[t32] : HDR;
	/* content check over the bytes that are certainly there: a datagram is cut at the header's size field */
	if (size < (size_t)real) real = (size < HDR) ? HDR : (long)size;
	describe(data, real, d, sizeof d);
	if (!quiet_cb) printf("M %zu %s\n", size, d);
	if (i_mrets < n_mrets) return (int32_t)mrets[i_mrets++];
	return 0;
}
static int32_t cb_closed(qb_ipcs_connection_t *c)
{
	if (c == sconn) { sconn_closed = 1; printf("cb closed\n"); }
	if (raw_index_of(c) >= 0) n_rclosed++;
	return 0;
}
static void cb_destroyed(qb_ipcs_connection_t *c)
{
	if (c == sconn) { sconn_destroyed = 1; printf("cb destroyed\n"); }
	if (c == ctl_sconn) ctl_sconn = NULL;
	if (raw_index_of(c) >= 0) { n_rdestroyed++; raw_conn[raw_index_of(c)] = NULL; }
}

/* ------------------------------------------------------------------ turns */
static int conn_fd_of_sconn(void)
{
	struct qb_ipcs_connection *s = sconn;
	if (!s || sconn_destroyed) return -1;
	return is_shm ? s->setup.u.us.sock : s->request.u.us.sock;
}

/* one pass over a snapshot of the table; returns number of dispatch calls; *rev_conn = revents given to the
 * connection's own descriptor (0 when not called).
 * turn_mode: T_ALL every registered descriptor; T_MAIN only those of the scripted client's connection (op "t");
 * T_OTHERS everything except those (raw handshake ops, "ctl"): so that each op drives only what it is about. */
enum { T_ALL, T_MAIN, T_OTHERS };
static int turn_mode = T_ALL;
static int server_turn(int *rev_conn)
{
	struct dent snap[MAXD];
	int n = ndent, i, calls = 0;
	int cfd = conn_fd_of_sconn();
	memcpy(snap, dtab, sizeof(struct dent) * n);
	if (rev_conn) *rev_conn = 0;
	for (i = 0; i < n; i++) {
		struct pollfd p;
		int32_t res;
		if (!snap[i].live) continue;
		/* still registered with the same callback? (an earlier callback of this turn may have deleted it) */
		if (!dtab[i].live || dtab[i].fd != snap[i].fd || dtab[i].fn != snap[i].fn) continue;
		if (turn_mode != T_ALL && sconn && !sconn_destroyed) {
			int is_main = (dtab[i].data == (void *)sconn);
			if ((turn_mode == T_MAIN) != is_main) continue;
		}
		p.fd = snap[i].fd; p.events = (short)dtab[i].events; p.revents = 0;
		if (poll(&p, 1, 0) <= 0 || p.revents == 0) continue;
		if (rev_conn && snap[i].fd == cfd) *rev_conn = p.revents;
		calls++;
		res = dtab[i].fn(snap[i].fd, p.revents, dtab[i].data);
		if (res < 0) {
			/* qb_loop drops a descriptor whose callback returns < 0 */
			if (dtab[i].live && dtab[i].fd == snap[i].fd && dtab[i].fn == snap[i].fn) dtab[i].live = 0;
		}
	}
	while (njobs > 0) {
		struct job j = jobs[0];
		memmove(jobs, jobs + 1, sizeof(struct job) * (njobs - 1));
		njobs--;
		j.fn(j.data);
	}
	return calls;
}

/* raw handshake ops: give the server turns until nothing is ready any more (at most QUIESCE_MAX) */
#define QUIESCE_MAX 200
static void quiesce_others(void)
{
	int n = 0;
	turn_mode = T_OTHERS;
	while (n++ < QUIESCE_MAX && server_turn(NULL) > 0) ;
	turn_mode = T_ALL;
}

static int fd_readable(int fd)
{
	struct pollfd p;
	p.fd = fd; p.events = POLLIN; p.revents = 0;
	if (poll(&p, 1, 0) <= 0) return 0;
	return (p.revents & POLLIN) ? 1 : 0;
}

static void print_state(void)
{
	struct qb_ipcs_connection_stats_2 *s2;
	int po = 0, i, cfd, crd = 0, srd = 0;
	int32_t fd = -1;
	if (!sconn || sconn_destroyed || sconn_closed) {
		printf("st closed\n");
		return;
	}
	cfd = conn_fd_of_sconn();
	for (i = 0; i < ndent; i++) {
		if (dtab[i].live && dtab[i].fd == cfd && (dtab[i].events & POLLOUT)) po = 1;
	}
	if (cli && qb_ipcc_fd_get(cli, &fd) == 0) crd = fd_readable(fd);
	srd = fd_readable(cfd);
	s2 = qb_ipcs_connection_stats_get_2(sconn, QB_FALSE);
	if (s2) {
		printf("st rq=%llu rs=%llu ev=%llu sr=%llu rr=%llu fs=%d fn=%llu eq=%u po=%d crd=%d srd=%d\n",
		       (unsigned long long)s2->requests, (unsigned long long)s2->responses,
		       (unsigned long long)s2->events, (unsigned long long)s2->send_retries,
		       (unsigned long long)s2->recv_retries, s2->flow_control_state,
		       (unsigned long long)s2->flow_control_count, s2->event_q_length, po, crd, srd);
		free(s2);
	}
}

/* ------------------------------------------------------------------ life cycle */
static int count_fds(void)
{
	DIR *d = opendir("/proc/self/fd");
	struct dirent *e;
	int n = 0;
	if (!d) return -1;
	while ((e = readdir(d))) if (e->d_name[0] != '.') n++;
	closedir(d);
	return n - 1;   /* the DIR's own fd */
}

static int count_shm(void)
{
	/* files/directories under /dev/shm created by THIS process' server (names carry our pid) */
	DIR *d = opendir("/dev/shm");
	struct dirent *e;
	char pfx[64];
	int n = 0;
	if (!d) return -1;
	snprintf(pfx, sizeof pfx, "qb-%d-", (int)getpid());
	while ((e = readdir(d))) if (strncmp(e->d_name, pfx, strlen(pfx)) == 0) n++;
	closedir(d);
	return n;
}

static void teardown(void)
{
	int i, guard;
	env_log = 0;
	quiet_cb = 1;
	for (i = 0; i < nraw; i++) if (rawfd[i] >= 0) { close(rawfd[i]); rawfd[i] = -1; }
	nraw = 0;
	cur_raw = -1;
	if (cli) {
		qb_ipcc_disconnect(cli);
		cli = NULL;
	}
	if (svc) {
		for (guard = 0; guard < 4; guard++) server_turn(NULL);
		qb_ipcs_destroy(svc);
		svc = NULL;
		for (guard = 0; guard < 2 && njobs > 0; guard++) server_turn(NULL);
	}
	sconn = NULL; ctl_sconn = NULL;
	memset(raw_conn, 0, sizeof raw_conn);
	sconn_closed = sconn_destroyed = 0;
	ndent = 0; njobs = 0;
	memset(inj_left, 0, sizeof inj_left);
	n_mrets = i_mrets = 0;
	negotiated = 0;
	quiet_cb = 0;
}

static int fds_at_start = -1;

/* the "close" op; also performed implicitly when a script ends with the service still up */
static void do_close(void)
{
	int shm_left, fds;
	printf("op close\n");
	teardown();
	shm_left = count_shm();
	fds = count_fds();
	printf("r 0 shm_left=%d fds_delta=%d\n", shm_left, fds - fds_at_start);
}

static long enforce_size = 0;   /* > 0: qb_ipcs_enforce_buffer_size(svc, enforce_size) before the service runs */

static int start_service(int shm)
{
	struct qb_ipcs_service_handlers sh = { cb_accept, cb_created, cb_msg, cb_closed, cb_destroyed };
	struct qb_ipcs_poll_handlers ph = { j_add, d_add, d_mod, d_del };
	int32_t res;
	snprintf(svc_name, sizeof svc_name, "vq%d_%d", (int)getpid(), svc_counter++);
	is_shm = shm;
	svc = qb_ipcs_create(svc_name, 1, shm ? QB_IPC_SHM : QB_IPC_SOCKET, &sh);
	if (!svc) return -ENOMEM;
	qb_ipcs_poll_handlers_set(svc, &ph);
	if (enforce_size > 0) qb_ipcs_enforce_buffer_size(svc, (uint32_t)enforce_size);
	res = qb_ipcs_run(svc);
	if (res != 0) { svc = NULL; return res; }
	return 0;
}

static int do_open(int shm, long max)
{
	int32_t res;
	int cfd = -1, guard;
	res = start_service(shm);
	if (res != 0) return res;
	cli = qb_ipcc_connect_async(svc_name, (size_t)max, &cfd);
	if (!cli) return -errno;
	for (guard = 0; guard < 6 && !sconn; guard++) server_turn(NULL);
	res = qb_ipcc_connect_continue(cli);
	if (res != 0) { cli = NULL; return res; }
	negotiated = qb_ipcc_get_buffer_size(cli);
	return 0;
}

/* a second, well-behaved client: connect, one request, response, disconnect */
static int do_ctl(void)
{
	qb_ipcc_connection_t *c2;
	int cfd = -1, guard, ok = 0;
	struct qb_ipc_request_header rq;
	struct qb_ipc_response_header rs;
	ssize_t r;
	int before = n_created;
	if (!svc) return 0;
	in_ctl = 1;
	turn_mode = T_OTHERS;
	c2 = qb_ipcc_connect_async(svc_name, 8192, &cfd);
	if (!c2) { in_ctl = 0; turn_mode = T_ALL; return 0; }
	for (guard = 0; guard < 6 && n_created == before; guard++) server_turn(NULL);
	if (qb_ipcc_connect_continue(c2) != 0) { in_ctl = 0; turn_mode = T_ALL; return 0; }
	memset(&rq, 0, sizeof rq);
	rq.id = 5; rq.size = sizeof rq;
	r = qb_ipcc_send(c2, &rq, sizeof rq);
	if (r == (ssize_t)sizeof rq) {
		for (guard = 0; guard < 4; guard++) {
			server_turn(NULL);
			r = qb_ipcc_recv(c2, &rs, sizeof rs, 0);
			if (r == (ssize_t)sizeof rs && rs.id == 77) { ok = 1; break; }
		}
	}
	qb_ipcc_disconnect(c2);
	for (guard = 0; guard < 4; guard++) server_turn(NULL);
	in_ctl = 0;
	turn_mode = T_ALL;
	return ok;
}

/* RAW handshake: open a stream socket to the service and write bytes.
 *   hs v <max>            a valid struct qb_ipc_connection_request with max_msg_size=<max>
 *   hs p <n> <max>        only the first n bytes of it
 *   hs i <id> <max>       valid length, hdr.id = <id>
 *   hs z <hsz> <max>      valid, but hdr.size = <hsz>
 *   hs g <n> <seed>       n garbage bytes
 *   hs x <n> <seed>       a valid request followed by n garbage bytes
 *   hs a <k> <n> <off>    append n more bytes to raw socket k (dribble); bytes continue the valid request
 *                         from offset <off> (so p + a... can rebuild a valid one slowly)
 *   hs b <k> <n> <seed>   append n garbage bytes to raw socket k
 *   hs n                  connect and send nothing
 */
static int raw_connect(void)
{
	struct sockaddr_un a;
	int fd = socket(PF_UNIX, SOCK_STREAM, 0);
	if (fd < 0) return -errno;
	memset(&a, 0, sizeof a);
	a.sun_family = AF_UNIX;
	snprintf(a.sun_path + 1, sizeof(a.sun_path) - 1, "%s", svc_name);
	if (connect(fd, (struct sockaddr *)&a, QB_SUN_LEN(&a)) < 0) {
		int e = errno;
		close(fd);
		return -e;
	}
	(void)qb_sys_fd_nonblock_cloexec_set(fd);
	return fd;
}

static long raw_status(int k)
{
	/* what the hostile peer sees: 0 = still open, nothing to read; >0 bytes readable; -1 = EOF/closed by server */
	char tmp[64];
	ssize_t r;
	if (k < 0 || k >= nraw || rawfd[k] < 0) return -2;
	r = recv(rawfd[k], tmp, sizeof tmp, MSG_PEEK | MSG_DONTWAIT);
	if (r == 0) return -1;
	if (r < 0) return (errno == EAGAIN) ? 0 : -1;
	return r;
}

/* ------------------------------------------------------------------ main */
static const char *NEXT(char **p)
{
	char *s = *p, *t;
	while (*s == ' ') s++;
	if (*s == 0 || *s == '\n') { *p = s; return NULL; }
	t = s;
	while (*t && *t != ' ' && *t != '\n') t++;
	if (*t) { *t = 0; t++; }
	*p = t;
	return s;
}
static long NUM(char **p, long def)
{
	const char *s = NEXT(p);
	return s ? strtol(s, NULL, 0) : def;
}

static void on_alarm(int sig)
{
	static const char m[] = "\nHANG\n";
	fflush(stdout);
	(void)!write(1, m, sizeof m - 1);
	_exit(97);
}

static int make_iov(struct iovec *iov, unsigned char *b, long len, long parts)
{
	long i, off = 0, each;
	if (parts < 1) parts = 1;
	if (parts > 8) parts = 8;
	each = len / parts;
	for (i = 0; i < parts; i++) {
		iov[i].iov_base = b + off;
		iov[i].iov_len = (i == parts - 1) ? (size_t)(len - off) : (size_t)each;
		off += each;
	}
	return (int)parts;
}

int main(void)
{
	static char line[512];
	char d[96];
	struct iovec iov[8];
	setvbuf(stdout, NULL, _IOFBF, 1 << 16);
	signal(SIGALRM, on_alarm);
	signal(SIGPIPE, SIG_IGN);
	buf_a = malloc(MAXBUF);
	buf_b = malloc(MAXBUF);
	qb_log_init("h_ipcdata", LOG_USER, LOG_EMERG);
	qb_log_ctl(QB_LOG_SYSLOG, QB_LOG_CONF_ENABLED, QB_FALSE);
	fds_at_start = count_fds();
	while (fgets(line, sizeof line, stdin)) {
		char *p = line;
		const char *op;
		size_t L = strlen(line);
		if (L && line[L - 1] == '\n') line[L - 1] = 0;
		if (line[0] == '#') {
			if (svc) do_close();
			teardown();
			printf("%s\n", line);
			fflush(stdout);
			alarm(30);
			continue;
		}
		op = NEXT(&p);
		if (!op) continue;
		if (!strcmp(op, "open")) {
			const char *t = NEXT(&p);
			long max = NUM(&p, 8192);
			long enf = NUM(&p, 0);       /* optional: size the server enforces (qb_ipcs_enforce_buffer_size) */
			int r;
			if (svc) do_close();
			teardown();
			enforce_size = enf > 0 ? enf : 0;
			r = do_open(t && !strcmp(t, "shm"), max);
			enforce_size = 0;
			if (enf > 0) printf("op open %s %ld %ld\n", is_shm ? "shm" : "sock", max, enf);
			else printf("op open %s %ld\n", is_shm ? "shm" : "sock", max);
			printf("r %d %ld\n", r, negotiated);
			env_log = (r == 0);
			print_state();
			continue;
		}
		if (!strcmp(op, "serve")) {   /* service only, no client (handshake scripts) */
			const char *t = NEXT(&p);
			int r;
			if (svc) do_close();
			teardown();
			r = start_service(t && !strcmp(t, "shm"));
			printf("op serve %s\nr %d\n", is_shm ? "shm" : "sock", r);
			continue;
		}
		if (!strcmp(op, "close")) {
			do_close();
			continue;
		}
		if (!strcmp(op, "hs")) {
			const char *kind = NEXT(&p);
			struct qb_ipc_connection_request rq;
			unsigned char bytes[4096 + 64];
			long n = 0, k = -1, i;
			int b_acc = n_accept, b_msg = n_msgproc, b_cr = n_rcreated, b_cl = n_rclosed, b_de = n_rdestroyed;
			memset(&rq, 0, sizeof rq);
			rq.hdr.id = QB_IPC_MSG_AUTHENTICATE;
			rq.hdr.size = sizeof rq;
			if (!kind || !svc) { printf("op hs ?\nr -1\n"); continue; }
			printf("op hs %s", kind);
			if (kind[0] == 'v') { rq.max_msg_size = (uint32_t)NUM(&p, 8192); memcpy(bytes, &rq, sizeof rq); n = sizeof rq; printf(" %u", rq.max_msg_size); }
			else if (kind[0] == 'p') { n = NUM(&p, 1); rq.max_msg_size = (uint32_t)NUM(&p, 8192); memcpy(bytes, &rq, sizeof rq); if (n > (long)sizeof rq) n = sizeof rq; if (n < 0) n = 0; printf(" %ld %u", n, rq.max_msg_size); }
			else if (kind[0] == 'i') { rq.hdr.id = (int32_t)NUM(&p, 0); rq.max_msg_size = (uint32_t)NUM(&p, 8192); memcpy(bytes, &rq, sizeof rq); n = sizeof rq; printf(" %d %u", rq.hdr.id, rq.max_msg_size); }
			else if (kind[0] == 'z') { rq.hdr.size = (int32_t)NUM(&p, 0); rq.max_msg_size = (uint32_t)NUM(&p, 8192); memcpy(bytes, &rq, sizeof rq); n = sizeof rq; printf(" %d %u", rq.hdr.size, rq.max_msg_size); }
			else if (kind[0] == 'g') { long seed; n = NUM(&p, 1); seed = NUM(&p, 1); if (n > 4096) n = 4096; if (n < 0) n = 0; for (i = 0; i < n; i++) bytes[i] = pat(seed, i); printf(" %ld %ld", n, seed); }
			else if (kind[0] == 'x') { long seed, extra = NUM(&p, 1); seed = NUM(&p, 1); rq.max_msg_size = 8192; memcpy(bytes, &rq, sizeof rq); if (extra > 4000) extra = 4000; if (extra < 0) extra = 0; for (i = 0; i < extra; i++) bytes[sizeof rq + i] = pat(seed, i); n = sizeof rq + extra; printf(" %ld %ld", extra, seed); }
			else if (kind[0] == 'a') { long off; k = NUM(&p, 0); n = NUM(&p, 1); off = NUM(&p, 0); rq.max_msg_size = 8192; memcpy(bytes, &rq, sizeof rq); if (off < 0) off = 0; if (off > (long)sizeof rq) off = sizeof rq; if (n > (long)sizeof rq - off) n = sizeof rq - off; if (n < 0) n = 0; memmove(bytes, bytes + off, n); printf(" %ld %ld %ld", k, n, off); }
			else if (kind[0] == 'b') { long seed; k = NUM(&p, 0); n = NUM(&p, 1); seed = NUM(&p, 1); if (n > 4096) n = 4096; if (n < 0) n = 0; for (i = 0; i < n; i++) bytes[i] = pat(seed, i); printf(" %ld %ld %ld", k, n, seed); }
			else { n = 0; }
			printf("\n");
			if (kind[0] != 'a' && kind[0] != 'b') {
				int fd = (nraw < RAWMAX) ? raw_connect() : -ENFILE;
				if (fd < 0) { printf("r %d\n", fd); continue; }
				k = nraw;
				raw_headlen[k] = 0;
				rawfd[nraw++] = fd;
			}
			if (k < 0 || k >= nraw || rawfd[k] < 0) { printf("r -9\n"); continue; }
			{
				unsigned char head[sizeof rq];
				size_t hl = raw_headlen[k], j;
				struct qb_ipc_connection_request q;
				memcpy(head, raw_head[k], hl);
				for (j = 0; j < (size_t)n && hl < sizeof head; j++) head[hl++] = bytes[j];
				if (hl == sizeof head) {
					memcpy(&q, head, sizeof q);
					if (q.hdr.id == QB_IPC_MSG_AUTHENTICATE && q.max_msg_size > LAB_MAX_REQ && raw_headlen[k] < sizeof head) {
						printf("r -7\n");      /* refused by the lab, nothing written */
						continue;
					}
				}
				memcpy(raw_head[k], head, hl);
				raw_headlen[k] = hl;
			}
			/* the bytes the raw peer writes: input of the model */
			printf("hb %ld ", k);
			for (i = 0; i < n; i++) printf("%02x", bytes[i]);
			printf("\n");
			if (n > 0) {
				ssize_t w = write(rawfd[k], bytes, n);
				if (w != n) printf("hbshort %zd\n", w);    /* the server closed its end already (EPIPE) */
			}
			cur_raw = (int)k;
			quiesce_others();
			cur_raw = -1;
			printf("r %ld sock=%ld accept=%d msgproc=%d created=%d closed=%d destroyed=%d\n", k,
			       raw_status((int)k) < 0 ? -1L : (raw_status((int)k) > 0 ? 1L : 0L),
			       n_accept - b_acc, n_msgproc - b_msg, n_rcreated - b_cr, n_rclosed - b_cl, n_rdestroyed - b_de);
			continue;
		}
		if (!strcmp(op, "hx") || !strcmp(op, "hh")) {
			/* hx k: the raw peer closes its socket; hh k: it only shuts down its sending direction */
			long k = NUM(&p, 0), i;
			int b_msg = n_msgproc, b_cl = n_rclosed, b_de = n_rdestroyed;
			printf("op %s %ld\n", op, k);
			if (k < 0 || k >= nraw || rawfd[k] < 0) { printf("r -9\n"); continue; }
			if (op[1] == 'x') { close(rawfd[k]); rawfd[k] = -1; }
			else shutdown(rawfd[k], SHUT_WR);
			cur_raw = (int)k;
			quiesce_others();
			cur_raw = -1;
			printf("r %ld sock=%ld msgproc=%d closed=%d destroyed=%d\n", k,
			       op[1] == 'x' ? -2L : (raw_status((int)k) < 0 ? -1L : (raw_status((int)k) > 0 ? 1L : 0L)),
			       n_msgproc - b_msg, n_rclosed - b_cl, n_rdestroyed - b_de);
			continue;
		}
		if (!strcmp(op, "census")) {
			/* what the service holds: descriptors registered in the poll table, open descriptors of the process
			 * (minus the raw peers' own ends), connection directories under /dev/shm, references to the service */
			int live = 0, i, mine = 0;
			for (i = 0; i < ndent; i++) if (dtab[i].live) live++;
			for (i = 0; i < nraw; i++) if (rawfd[i] >= 0) mine++;
			printf("op census\nr table=%d fds=%d shm=%d ref=%d\n", live, count_fds() - fds_at_start - mine, count_shm(),
			       svc ? (int)((struct qb_ipcs_service *)svc)->ref_count : 0);
			continue;
		}
		if (!strcmp(op, "ctl")) {
			int ok;
			printf("op ctl\n");
			env_log = 0;
			ok = do_ctl();
			env_log = (cli != NULL);
			printf("r %d\n", ok);
			continue;
		}
		if (!strcmp(op, "inj")) {
			const char *k = NEXT(&p);
			long n = NUM(&p, 1);
			int i;
			for (i = 0; i < K_OTHER; i++) if (k && !strcmp(k, kname[i])) inj_left[i] = (int)n;
			continue;   /* not an API call: nothing logged; its effect shows up as "e" lines */
		}
		if (!strcmp(op, "mr")) {
			n_mrets = 0; i_mrets = 0;
			printf("op mr");
			while (n_mrets < 64) {
				const char *s = NEXT(&p);
				if (!s) break;
				mrets[n_mrets++] = strtol(s, NULL, 0);
				printf(" %ld", mrets[n_mrets - 1]);
			}
			printf("\nr 0\n");
			continue;
		}
		/* everything below needs the open connection */
		if (!cli || !sconn || sconn_destroyed || sconn_closed) {
			printf("op %s\nr closed\nst closed\n", op);
			continue;
		}
		if (!strcmp(op, "cs") || !strcmp(op, "cv") || !strcmp(op, "cx")) {
			long len = NUM(&p, HDR), tag = NUM(&p, 0), a3, a4;
			ssize_t r;
			if (len > MAXBUF) len = MAXBUF;
			if (len < 0) len = 0;
			if (op[1] == 's') {
				a3 = NUM(&p, 1); a4 = NUM(&p, len);
				fill_msg(buf_a, len, tag, (int32_t)a3, (int32_t)a4);
				printf("op cs %ld %ld %ld %ld\n", len, tag, a3, a4);
				r = qb_ipcc_send(cli, buf_a, (size_t)len);
				printf("r %zd\n", r);
			} else if (op[1] == 'v') {
				int n;
				a3 = NUM(&p, 2);
				fill_msg(buf_a, len, tag, 1, (int32_t)len);
				n = make_iov(iov, buf_a, len, a3);
				printf("op cv %ld %ld %d\n", len, tag, n);
				r = qb_ipcc_sendv(cli, iov, (size_t)n);
				printf("r %zd\n", r);
			} else {
				int n;
				a3 = NUM(&p, MAXBUF);
				if (a3 > MAXBUF) a3 = MAXBUF;
				fill_msg(buf_a, len, tag, 1, (int32_t)len);
				n = make_iov(iov, buf_a, len, 2);
				printf("op cx %ld %ld %ld\n", len, tag, a3);
				r = qb_ipcc_sendv_recv(cli, iov, (uint32_t)n, buf_b, (size_t)a3, 0);
				if (r >= 0) { describe(buf_b, r, d, sizeof d); printf("r %zd %s\n", r, d); }
				else printf("r %zd\n", r);
			}
			print_state();
			continue;
		}
		if (!strcmp(op, "cr") || !strcmp(op, "ce")) {
			long bl = NUM(&p, MAXBUF);
			ssize_t r;
			unsigned char *exact;
			if (bl > MAXBUF) bl = MAXBUF;
			if (bl < 0) bl = 0;
			/* an exactly-sized heap buffer, so that ASan sees any byte written past the caller's length */
			exact = malloc(bl ? (size_t)bl : 1);
			printf("op %s %ld\n", op, bl);
			r = (op[1] == 'r') ? qb_ipcc_recv(cli, exact, (size_t)bl, 0) : qb_ipcc_event_recv(cli, exact, (size_t)bl, 0);
			if (r >= 0) { describe(exact, r, d, sizeof d); printf("r %zd %s\n", r, d); }
			else printf("r %zd\n", r);
			free(exact);
			print_state();
			continue;
		}
		if (!strcmp(op, "cf")) {
			long n = NUM(&p, 1);
			printf("op cf %ld\nr %d\n", n, qb_ipcc_fc_enable_max_set(cli, (uint32_t)n));
			print_state();
			continue;
		}
		if (!strcmp(op, "t")) {
			int rev = 0, calls;
			printf("op t\n");
			turn_mode = T_MAIN;
			calls = server_turn(&rev);
			turn_mode = T_ALL;
			(void)calls;
			printf("r %d\n", rev);
			print_state();
			continue;
		}
		if (!strcmp(op, "sr") || !strcmp(op, "sv") || !strcmp(op, "se") || !strcmp(op, "sw")) {
			long len = NUM(&p, HDR), tag = NUM(&p, 0), parts = NUM(&p, 2);
			ssize_t r;
			if (len > MAXBUF) len = MAXBUF;
			if (len < 0) len = 0;
			fill_msg(buf_a, len, tag, 2, (int32_t)len);
			if (op[1] == 'r' || op[1] == 'e') {
				printf("op %s %ld %ld\n", op, len, tag);
				r = (op[1] == 'r') ? qb_ipcs_response_send(sconn, buf_a, (size_t)len)
						   : qb_ipcs_event_send(sconn, buf_a, (size_t)len);
			} else {
				int n = make_iov(iov, buf_a, len, parts);
				printf("op %s %ld %ld %d\n", op, len, tag, n);
				r = (op[1] == 'v') ? qb_ipcs_response_sendv(sconn, iov, (size_t)n)
						   : qb_ipcs_event_sendv(sconn, iov, (size_t)n);
			}
			printf("r %zd\n", r);
			print_state();
			continue;
		}
		if (!strcmp(op, "rl")) {
			long rl = NUM(&p, 1);
			printf("op rl %ld\n", rl);
			qb_ipcs_request_rate_limit(svc, (enum qb_ipcs_rate_limit)rl);
			printf("r 0\n");
			print_state();
			continue;
		}
		if (!strcmp(op, "rq")) {
			long len = NUM(&p, HDR), hsz = NUM(&p, HDR), id = NUM(&p, 1), tag = NUM(&p, 0);
			struct qb_ipcc_connection *c = cli;
			ssize_t r;
			if (len > MAXBUF) len = MAXBUF;
			if (len < 0) len = 0;
			fill_msg(buf_a, len, tag, (int32_t)id, (int32_t)hsz);
			printf("op rq %ld %ld %ld %ld\n", len, hsz, id, tag);
			if (is_shm) {
				r = qb_rb_chunk_write(c->request.u.shm.rb, buf_a, (size_t)len);
				if (r == len) {
					char one = 1;
					(void)!__real_send(c->setup.u.us.sock, &one, 1, MSG_NOSIGNAL);
				}
			} else {
				r = __real_send(c->request.u.us.sock, buf_a, (size_t)len, MSG_NOSIGNAL);
				if (r < 0) r = -errno;
				else {
					/* keep the shared `sent' counter truthful, as qb_ipc_socket_send would */
					int32_t *sent = (int32_t *)c->request.u.us.shared_data;
					__sync_fetch_and_add(sent, 1);
				}
			}
			printf("r %zd\n", r);
			print_state();
			continue;
		}
		printf("op %s\nr unknown-op\n", op);
	}
	if (svc) do_close();
	teardown();
	printf("END shm_left=%d fds_delta=%d\n", count_shm(), count_fds() - fds_at_start);
	fflush(stdout);
	return 0;
}
