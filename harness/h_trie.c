/* C17/C18 (trie part) correspondence harness: drives the real lib/trie.c behind lib/map.c (both compiled from the
 * working tree, ASan+UBSan) through the PUBLIC qb_map API on a map made by qb_trie_create(), from a script, and
 * prints every observable: return values, keys/values handed out by iterators and by qb_map_foreach, and every
 * notifier callback invocation with its arguments.  ASan is the freed-memory monitor.
 *
 * script lines (stdin); keys are hex strings of the key bytes ("-" = NULL):
 *   P <key> <v>      qb_map_put(key, &vals[v])         G <key>   qb_map_get       R <key>   qb_map_rm
 *   C                qb_map_count_get
 *   F <stop>         qb_map_foreach; the traversal callback returns non-zero at its stop-th call (0 = never)
 *   I <h> <prefix>   h-th iterator := qb_map_pref_iter_create(prefix) / qb_map_iter_create() for "-"
 *   N <h>            qb_map_iter_next             X <h>   qb_map_iter_free
 *   A <key> <fn> <events> <ud>   qb_map_notify_add       D <key> <fn> <events>   qb_map_notify_del
 *   E <key> <fn> <events> <ud>   qb_map_notify_del_2
 *   Z                qb_map_destroy
 *   # case <n>       fresh map (the previous one, its keys and iterators are simply abandoned)
 * output: "op <line>", then "cb <event> <key> <old> <new> <fn> <ud>" per notifier call and "v <key> <val>" per
 * traversal callback, then "r ..." (the result).  Values print as their index (0 = NULL).
 *
 * Every key string lives in its own exact-size heap block, so that any read past the terminator is an ASan
 * report; keys of get/rm/notify/prefix calls are freed right after the call (the library must not keep them),
 * put keys stay allocated (the trie stores the caller's pointer). */
#include "os_base.h"
#include <stdio.h>
#include <stdlib.h>
#include <string.h>
#include <inttypes.h>
#include <qb/qbdefs.h>
#include <qb/qbmap.h>

#define NVALS 4096
#define NITERS 16
static char vals[NVALS];
static qb_map_t *m;
static qb_map_iter_t *iters[NITERS];
static char *iter_prefix[NITERS];

static char *mkkey(const char *hex)
{
	size_t n, i;
	char *k;
	if (hex[0] == '-' && hex[1] == 0) {
		return NULL;
	}
	n = strlen(hex) / 2;
	k = malloc(n + 1);
	for (i = 0; i < n; i++) {
		unsigned int b = 0;
		sscanf(hex + 2 * i, "%2x", &b);
		k[i] = (char)b;
	}
	k[n] = 0;
	return k;
}

static void prkey(const char *k)
{
	if (k == NULL) {
		printf("-");
		return;
	}
	for (; *k; k++) {
		printf("%02x", (unsigned char)*k);
	}
}

static long validx(void *p)
{
	return p ? (long)((char *)p - vals) : 0;
}

static void cb_common(int fn, uint32_t event, char *key, void *old_value, void *value, void *user_data)
{
	printf("cb %" PRIu32 " ", event);
	prkey(key);
	printf(" %ld %ld %d %ld\n", validx(old_value), validx(value), fn, (long)(intptr_t)user_data);
}
static void cb0(uint32_t e, char *k, void *o, void *v, void *u) { cb_common(0, e, k, o, v, u); }
static void cb1(uint32_t e, char *k, void *o, void *v, void *u) { cb_common(1, e, k, o, v, u); }
static void cb2(uint32_t e, char *k, void *o, void *v, void *u) { cb_common(2, e, k, o, v, u); }
static qb_map_notify_fn fns[3] = { cb0, cb1, cb2 };

static int visit_stop, visit_cnt;
static int32_t visit(const char *key, void *value, void *user_data)
{
	(void)user_data;
	printf("v ");
	prkey(key);
	printf(" %ld\n", validx(value));
	visit_cnt++;
	return (visit_cnt == visit_stop) ? 1 : 0;
}

static void fresh(void)
{
	int i;
	m = qb_trie_create();
	for (i = 0; i < NITERS; i++) {
		iters[i] = NULL;
		iter_prefix[i] = NULL;
	}
}

int main(void)
{
	static char line[8192], a1[4096], a2[4096], a3[64], a4[64];
	setvbuf(stdout, NULL, _IOFBF, 1 << 16);
	fresh();
	while (fgets(line, sizeof line, stdin)) {
		char c = line[0];
		size_t len = strlen(line);
		int na;
		char *k;
		while (len > 0 && (line[len - 1] == '\n' || line[len - 1] == ' ')) {
			line[--len] = 0;
		}
		if (c == '#') {
			fresh();
			printf("%s\n", line);
			fflush(stdout);
			continue;
		}
		if (len == 0) {
			continue;
		}
		a1[0] = a2[0] = a3[0] = a4[0] = 0;
		na = sscanf(line + 1, " %4095s %4095s %63s %63s", a1, a2, a3, a4);
		(void)na;
		printf("op %s\n", line);
		fflush(stdout);
		switch (c) {
		case 'P':
			k = mkkey(a1);
			qb_map_put(m, k, &vals[atoi(a2)]);
			printf("r\n");
			break;
		case 'G': {
			void *v;
			k = mkkey(a1);
			v = qb_map_get(m, k);
			free(k);
			printf("r %ld\n", validx(v));
			break;
		}
		case 'R': {
			int32_t r;
			k = mkkey(a1);
			r = qb_map_rm(m, k);
			free(k);
			printf("r %d\n", r);
			break;
		}
		case 'C':
			printf("r %zu\n", qb_map_count_get(m));
			break;
		case 'F':
			visit_stop = atoi(a1);
			visit_cnt = 0;
			qb_map_foreach(m, visit, NULL);
			printf("r\n");
			break;
		case 'I': {
			int h = atoi(a1) % NITERS;
			k = mkkey(a2);
			iter_prefix[h] = k;          /* the iterator keeps the caller's prefix pointer */
			iters[h] = k ? qb_map_pref_iter_create(m, k) : qb_map_iter_create(m);
			printf("r\n");
			break;
		}
		case 'N': {
			int h = atoi(a1) % NITERS;
			void *v = NULL;
			const char *key = qb_map_iter_next(iters[h], &v);
			if (key == NULL) {
				printf("r end\n");
			} else {
				printf("r ");
				prkey(key);
				printf(" %ld\n", validx(v));
			}
			break;
		}
		case 'X': {
			int h = atoi(a1) % NITERS;
			qb_map_iter_free(iters[h]);
			iters[h] = NULL;
			free(iter_prefix[h]);
			iter_prefix[h] = NULL;
			printf("r\n");
			break;
		}
		case 'A': {
			int32_t r;
			k = mkkey(a1);
			r = qb_map_notify_add(m, k, fns[atoi(a2) % 3], atoi(a3), (void *)(intptr_t)atoi(a4));
			free(k);
			printf("r %d\n", r);
			break;
		}
		case 'D': {
			int32_t r;
			k = mkkey(a1);
			r = qb_map_notify_del(m, k, fns[atoi(a2) % 3], atoi(a3));
			free(k);
			printf("r %d\n", r);
			break;
		}
		case 'E': {
			int32_t r;
			k = mkkey(a1);
			r = qb_map_notify_del_2(m, k, fns[atoi(a2) % 3], atoi(a3), (void *)(intptr_t)atoi(a4));
			free(k);
			printf("r %d\n", r);
			break;
		}
		case 'Z':
			qb_map_destroy(m);
			m = NULL;
			printf("r\n");
			break;
		default:
			printf("r ?\n");
			break;
		}
		fflush(stdout);
	}
	return 0;
}
