/* C01 harness: one writer thread and one reader thread on ONE ring buffer, under the controlled scheduler.
 *
 * THIS translation unit is compiled with `-O0 -fsanitize=thread' (instrumentation only; the __tsan_* entry
 * points are sched_rt.c's and sched_wrap_rb.c's) and contains the real lib/ringbuffer.c and
 * lib/ringbuffer_helper.c by inclusion, so every access they make to write_pt / read_pt / the data words is a
 * scheduling point; memcpy and sem_* are wrapped at link time (sched_wrap_rb.c).
 * The writer uses the creator's handle, the reader a second handle obtained by qb_rb_open() without
 * QB_RB_FLAG_CREATE on the same files (separate mappings, as two IPC processes have) - or the same handle
 * when `open' is given shared=1.
 *
 * script (stdin):
 *   # case <n>
 *   open <S> <nosem> <shared>
 *   pre w <hex|->  |  pre r read <n> | pre r peek | pre r reclaim     sequential prologue (main thread, timeout 0)
 *   w <hex|->                                         append qb_rb_chunk_write(payload) to the writer's program
 *   r read <n> <blk> | r peek <blk> | r reclaim       append to the reader's program (blk: 0 = timeout 0, 1 = wait)
 *   run <item> ...                                    item = <tid>:<n> (n steps of thread tid) | <tid>:c<n> (until n
 *                                                     more of its calls have returned); an item ends early when
 *                                                     the thread is not enabled; afterwards lowest enabled tid first
 * output:
 *   open <rc> <words>            pre <rc> [<hex>]
 *   s <tid> <label>              one line per step (sched_rt.c)
 *   ret <tid> <k> <rc> [<hex>]   return of the k-th call of thread tid (printed inside the step that ends it)
 *   c <loc>=<v>                  shared state changed by the step (diff against a shadow copy, sched_wrap_rb.c)
 *   c ro <name> changed          a handle structure / word_size / ref_count / path name was stored to (never expected)
 *   end <0|1|2>                  all done / deadlock / step limit
 *   fin <wpt> <rpt> <sem> <hash> final shared state
 *   drain <rc> [<hex>]           (script line `drain', after a run that ended with 0) main thread: 64 extra tokens
 *                                are posted in semaphore mode, then qb_rb_chunk_read(8192 bytes, timeout 0) is
 *                                repeated until it fails: what is still in the ring, in order
 */
#include "os_base.h"
#include <stdio.h>
#include <stdlib.h>
#include <string.h>
#include <inttypes.h>
#include <errno.h>
#include <unistd.h>
#include "../lib/ringbuffer.c"
#include "../lib/ringbuffer_helper.c"
#include "sched_rt.h"

void rbc_detach(void);
void rbc_attach(int k, void *hdr_wpt, void *data, uint32_t words, void *sem);
void rbc_snapshot(void);
void rbc_watch(const char *name, const void *addr, size_t len);
int rbc_enabled(int tid, const int *done);
void rbc_step(int tid);

struct call { char kind; long n; int blk; unsigned char *pay; size_t len; };
#define MAXCALLS 64
static struct call prog[2][MAXCALLS];
static int nprog[2];
static int done[2];
static int calls_done[2];
static qb_ringbuffer_t *rbA, *rbB;
static int nosem;
static int case_no;
static char hdr_path[PATH_MAX], data_path[PATH_MAX];

static size_t parse_hex(const char *s, unsigned char **out)
{
	size_t n, i;
	if (s[0] == '-' || s[0] == 0) { *out = malloc(1); return 0; }
	n = strlen(s) / 2;
	*out = malloc(n + 1);
	for (i = 0; i < n; i++) {
		unsigned v = 0;
		sscanf(s + 2 * i, "%2x", &v);
		(*out)[i] = (unsigned char)v;
	}
	return n;
}

static void print_hex(const unsigned char *p, long n)
{
	long i;
	if (n <= 0) return;
	putchar(' ');
	for (i = 0; i < n; i++) printf("%02x", p[i]);
}

/* one API call; prints "<head> <rc> [hex]" */
static void do_call(qb_ringbuffer_t *rb, struct call *c, const char *head)
{
	if (c->kind == 'w') {
		ssize_t rc = qb_rb_chunk_write(rb, c->pay, c->len);
		printf("%s %zd\n", head, rc);
	} else if (c->kind == 'R') {
		unsigned char *buf = malloc(c->n > 0 ? (size_t)c->n : 1);
		ssize_t rc = qb_rb_chunk_read(rb, buf, (size_t)c->n, c->blk ? -1 : 0);
		printf("%s %zd", head, rc);
		print_hex(buf, rc);
		putchar('\n');
		free(buf);
	} else if (c->kind == 'P') {
		void *p = NULL;
		ssize_t rc = qb_rb_chunk_peek(rb, &p, c->blk ? -1 : 0);
		unsigned char *buf = malloc(rc > 0 ? (size_t)rc : 1);
		if (rc > 0) memcpy(buf, p, (size_t)rc);          /* the consumer reads the chunk in place */
		printf("%s %zd", head, rc);
		print_hex(buf, rc);
		putchar('\n');
		free(buf);
	} else {
		qb_rb_chunk_reclaim(rb);
		printf("%s 0\n", head);
	}
}

static void thread_body(void *arg)
{
	int tid = (int)(intptr_t)arg;
	qb_ringbuffer_t *rb = tid == 0 ? rbA : rbB;
	int k;
	for (k = 0; k < nprog[tid]; k++) {
		char head[48];
		snprintf(head, sizeof head, "ret %d %d", tid, k);
		do_call(rb, &prog[tid][k], head);
		calls_done[tid]++;
	}
	done[tid] = 1;
}

static void close_ring(void)
{
	if (rbB && rbB != rbA) qb_rb_close(rbB);
	if (rbA) qb_rb_close(rbA);
	rbA = rbB = NULL;
}

static void fresh(void)
{
	int t, k;
	sch_reset();
	rbc_detach();
	close_ring();
	for (t = 0; t < 2; t++) {
		for (k = 0; k < nprog[t]; k++) free(prog[t][k].pay);
		nprog[t] = 0;
		done[t] = 0;
		calls_done[t] = 0;
	}
}

static int parse_call(const char *s, struct call *c)
{
	char w[16] = "";
	memset(c, 0, sizeof *c);
	if (s[0] == 'w') {
		const char *h = s + 1;
		while (*h == ' ') h++;
		c->kind = 'w';
		c->len = parse_hex(h, &c->pay);
		return 1;
	}
	if (s[0] != 'r') return 0;
	sscanf(s + 1, "%15s", w);
	if (strcmp(w, "read") == 0) { c->kind = 'R'; sscanf(s + 1, "%*s %ld %d", &c->n, &c->blk); }
	else if (strcmp(w, "peek") == 0) { c->kind = 'P'; sscanf(s + 1, "%*s %d", &c->blk); }
	else if (strcmp(w, "reclaim") == 0) c->kind = 'C';
	else return 0;
	return 1;
}

static void finish_state(void)
{
	uint64_t h = 0;
	uint32_t i, W = rbA->shared_hdr->word_size;
	int sv = -1;
	for (i = 0; i < W; i++) h = (h * 31 + rbA->shared_data[i]) % 1000000007ULL;
	if (!nosem) sem_getvalue(&rbA->shared_hdr->posix_sem, &sv);
	printf("fin %u %u %d %" PRIu64 "\n", rbA->shared_hdr->write_pt, rbA->shared_hdr->read_pt, sv, h);
}

int main(void)
{
	static char line[1 << 16];
	const char *tag = getenv("RBCONC_TAG");
	setvbuf(stdout, NULL, _IOFBF, 1 << 20);
	while (fgets(line, sizeof line, stdin)) {
		size_t len = strlen(line);
		if (len && line[len - 1] == '\n') line[len - 1] = 0;
		if (line[0] == '#') {
			fresh();
			puts(line);
			fflush(stdout);
			case_no++;
		} else if (strncmp(line, "open ", 5) == 0) {
			long S = 0;
			int ns = 0, shared = 0;
			uint32_t fl;
			char name[256];
			sscanf(line + 5, "%ld %d %d", &S, &ns, &shared);
			nosem = ns;
			fl = QB_RB_FLAG_SHARED_PROCESS | (ns ? QB_RB_FLAG_NO_SEMAPHORE : 0);
			snprintf(name, sizeof name, "/dev/shm/vrbc-%s-%d-%d", tag ? tag : "x", (int)getpid(), case_no);
			rbA = qb_rb_open(name, (size_t)S, fl | QB_RB_FLAG_CREATE, 0);
			if (rbA == NULL) { printf("open %d 0\n", -errno); continue; }
			snprintf(hdr_path, sizeof hdr_path, "%s", rbA->shared_hdr->hdr_path);
			snprintf(data_path, sizeof data_path, "%s", rbA->shared_hdr->data_path);
			rbB = shared ? rbA : qb_rb_open(name, (size_t)S, fl, 0);
			if (rbB == NULL) { printf("open %d 0\n", -errno); close_ring(); continue; }
			printf("open 0 %u\n", rbA->shared_hdr->word_size);
		} else if (rbA == NULL) {
			continue;
		} else if (strncmp(line, "pre ", 4) == 0) {
			struct call c;
			if (parse_call(line + 4, &c)) {
				c.blk = 0;
				do_call(c.kind == 'w' ? rbA : rbB, &c, "pre");
				free(c.pay);
			}
		} else if (line[0] == 'w' || (line[0] == 'r' && line[1] == ' ')) {
			int t = line[0] == 'w' ? 0 : 1;
			if (nprog[t] < MAXCALLS && parse_call(line, &prog[t][nprog[t]])) nprog[t]++;
		} else if (strncmp(line, "drain", 5) == 0) {
			int i;
			unsigned char *buf = malloc(8192);
			if (!nosem) for (i = 0; i < 64; i++) sem_post(&rbA->shared_hdr->posix_sem);
			for (i = 0; i < 100; i++) {
				ssize_t rc = qb_rb_chunk_read(rbB, buf, 8192, 0);
				printf("drain %zd", rc);
				print_hex(buf, rc);
				putchar('\n');
				if (rc < 0) break;
			}
			free(buf);
		} else if (strncmp(line, "run", 3) == 0) {
			char *s = line + 3;
			long steps = 0;
			int rc = 0, t;
			rbc_attach(0, (void *)&rbA->shared_hdr->write_pt, rbA->shared_data, rbA->shared_hdr->word_size,
				   nosem ? NULL : &rbA->shared_hdr->posix_sem);
			if (rbB != rbA)
				rbc_attach(1, (void *)&rbB->shared_hdr->write_pt, rbB->shared_data, rbB->shared_hdr->word_size,
					   nosem ? NULL : &rbB->shared_hdr->posix_sem);
			rbc_snapshot();
			/* nothing may store to these after qb_rb_open: the model has one word_size / notifier mode for both handles */
			rbc_watch("handle[creator]", rbA, sizeof *rbA);
			if (rbB != rbA) rbc_watch("handle[opener]", rbB, sizeof *rbB);
			rbc_watch("hdr.word_size", &rbA->shared_hdr->word_size, sizeof rbA->shared_hdr->word_size);
			rbc_watch("hdr.ref_count", &rbA->shared_hdr->ref_count, sizeof rbA->shared_hdr->ref_count);
			rbc_watch("hdr.paths", rbA->shared_hdr->hdr_path, 2 * PATH_MAX);
			for (t = 0; t < 2; t++) {
				sch_spawn(thread_body, (void *)(intptr_t)t);
			}
			for (;;) {
				int tid = 0, bycalls = 0, target;
				long n = 0;
				char *e;
				while (*s == ' ') s++;
				if (!*s) break;
				tid = (int)strtol(s, &e, 10);
				if (e == s || *e != ':') break;
				s = e + 1;
				if (*s == 'c') { bycalls = 1; s++; }
				n = strtol(s, &e, 10);
				s = e;
				if (tid < 0 || tid > 1) continue;
				target = calls_done[tid] + (int)n;
				while (rbc_enabled(tid, done) && steps < 400000 &&
				       (bycalls ? calls_done[tid] < target : n-- > 0)) {
					rbc_step(tid);
					steps++;
				}
			}
			for (;;) {
				int pick = -1;
				for (t = 0; t < 2 && pick < 0; t++) if (rbc_enabled(t, done)) pick = t;
				if (pick < 0) break;
				if (steps >= 400000) { rc = 2; break; }
				rbc_step(pick);
				steps++;
			}
			if (rc == 0 && !(done[0] && done[1])) rc = 1;
			printf("end %d\n", rc);
			finish_state();
			if (rc != 0) {
				/* parked threads cannot be recovered: remove the ring files and leave; the batch runner restarts */
				unlink(hdr_path);
				unlink(data_path);
				fflush(stdout);
				_exit(97);
			}
		}
	}
	fresh();
	fflush(stdout);
	return 0;
}
