/* C19 concurrent harness.  THIS translation unit is compiled with `-O0 -fsanitize=thread' (instrumentation
 * only; the __tsan_* entry points are sched_rt.c's) and contains the real lib/array.c by inclusion, so every
 * access array.c makes to the array object and to the bin table is visible to the controlled scheduler.
 *
 * script (stdin):
 *   # case <n>
 *   c <max> <esize> <auto>          qb_array_create_2 (main thread)
 *   pre i <idx> | pre g <n>         calls made by the main thread before the threads exist
 *   t <tid> i <idx> | t <tid> g <n> append a call to the program of virtual thread <tid> (0..3)
 *   run <tid> <tid> ...             execute the programs under this schedule (see sched_rt.h), then
 *                                   re-index every index that was returned (main thread) and report
 * output:
 *   "s <tid> <label>"               one line per scheduling step (sched_rt.c)
 *   "ret <tid> <k> <rc> [<blk> <off>]"   return of the k-th call of thread tid; "p <idx> <ptr> <esize>" raw pointer
 *   "uaf <tid> <R|W> <label>"       access to a freed bin table
 *   "end <0|1|2>"                   all threads finished / deadlock / step limit
 *   "fin <idx> <rc> <blk> <off>"    sequential re-index after the run;  "finbins <n>"
 * realloc always moves: the new table is registered as region "tbl", the old one is poisoned (0xDD),
 * kept allocated until the end of the case and marked freed for the scheduler.
 */
#include "os_base.h"
#include <stdio.h>
#include <stdlib.h>
#include <string.h>
#include <inttypes.h>
#include <errno.h>
#include "../lib/array.c"
#include "sched_rt.h"

void *__real_calloc(size_t n, size_t sz);
void *__real_realloc(void *p, size_t n);

#define MAXBLK 8192
static struct { char *p; size_t n; } blk[MAXBLK];
static int nblk;
static int in_index_depth;   /* calloc tracking (counts nested use by several threads: only one runs at a time) */
static int in_array;

#define MAXTBL 256
static struct { void *p; size_t n; int live; } tbls[MAXTBL];
static int ntbl;

void *__wrap_calloc(size_t n, size_t sz)
{
	void *p = __real_calloc(n, sz);
	if (in_array && sch_holds_lock() && p && nblk < MAXBLK) {   /* the bin callocs happen under the grow lock */
		blk[nblk].p = p;
		blk[nblk].n = n * sz;
		nblk++;
	} else if (in_array && sch_self() < 0 && in_index_depth && p && nblk < MAXBLK) {
		blk[nblk].p = p;
		blk[nblk].n = n * sz;
		nblk++;
	}
	return p;
}

void *__wrap_realloc(void *old, size_t n)
{
	int i, slot = -1;
	size_t oldn = 0;
	char *np;
	if (!in_array) {
		return __real_realloc(old, n);
	}
	for (i = 0; i < ntbl; i++) {
		if (old && tbls[i].live && tbls[i].p == old) {
			oldn = tbls[i].n;
			slot = i;
		}
	}
	if (old && slot < 0) {
		return __real_realloc(old, n);
	}
	np = malloc(n ? n : 1);
	memset(np, 0xAB, n);
	if (old) {
		memcpy(np, old, oldn < n ? oldn : n);
		memset(old, 0xDD, oldn);            /* poison, keep allocated (quarantine) */
		tbls[slot].live = 0;
		sch_freed(old);
	}
	if (ntbl < MAXTBL) {
		tbls[ntbl].p = np;
		tbls[ntbl].n = n;
		tbls[ntbl].live = 1;
		ntbl++;
	}
	sch_region("tbl", np, n, sizeof(void *));
	return np;
}

static qb_array_t *arr;
static size_t cur_esize;

struct call { char kind; long long arg; };
#define MAXCALLS 64
#define NTHR 4
static struct call prog[NTHR][MAXCALLS];
static int nprog[NTHR];
static char touched[65536];

static int canon(void *p, long *b, long *o)
{
	int k;
	for (k = 0; k < nblk; k++) {
		if ((char *)p >= blk[k].p && (char *)p < blk[k].p + blk[k].n) {
			*b = k;
			*o = (char *)p - blk[k].p;
			return 1;
		}
	}
	return 0;
}

static void report_index(const char *tag, int tid, int k, long long idx, int32_t rc, void *p)
{
	long b = 0, o = 0;
	char head[64];
	if (tid >= 0) snprintf(head, sizeof head, "%s %d %d", tag, tid, k);
	else snprintf(head, sizeof head, "%s %lld", tag, idx);
	if (rc != 0) {
		printf("%s %d\n", head, rc);
	} else if (canon(p, &b, &o)) {
		printf("%s 0 %ld %ld\n", head, b, o);
		printf("p %lld %p %zu\n", idx, p, cur_esize);
		if (idx >= 0 && idx < 65536) touched[idx] = 1;
	} else {
		printf("%s 0 ? ?\n", head);
		printf("note pointer-outside-every-bin-block idx=%lld ptr=%p\n", idx, p);
	}
}

static void thread_body(void *arg)
{
	int tid = (int)(intptr_t)arg;
	int k;
	for (k = 0; k < nprog[tid]; k++) {
		struct call *c = &prog[tid][k];
		sch_point("call");
		if (c->kind == 'i') {
			void *p = (void *)0x1;
			int32_t rc = qb_array_index(arr, (int32_t)c->arg, &p);
			report_index("ret", tid, k, c->arg, rc, p);
		} else {
			int32_t rc = qb_array_grow(arr, (size_t)c->arg);
			printf("ret %d %d %d\n", tid, k, rc);
		}
	}
}

static void fresh(void)
{
	int i;
	sch_reset();
	if (arr) {
		qb_array_free(arr);
		arr = NULL;
	}
	for (i = 0; i < ntbl; i++) {
		if (!tbls[i].live) free(tbls[i].p);     /* quarantined old tables; the live one was freed by qb_array_free */
	}
	ntbl = 0;
	nblk = 0;
	memset(nprog, 0, sizeof nprog);
	memset(touched, 0, sizeof touched);
}

static void register_array(void)
{
	sch_region("a.bin", &arr->bin, sizeof arr->bin, 0);
	sch_region("a.max_elements", &arr->max_elements, sizeof arr->max_elements, 0);
	sch_region("a.element_size", &arr->element_size, sizeof arr->element_size, 0);
	sch_region("a.num_bins", &arr->num_bins, sizeof arr->num_bins, 0);
	sch_region("a.autogrow_elements", &arr->autogrow_elements, sizeof arr->autogrow_elements, 0);
	sch_region("a.grow_lock", &arr->grow_lock, sizeof arr->grow_lock, 0);
	sch_region("a.new_bin_cb", &arr->new_bin_cb, sizeof arr->new_bin_cb, 0);
	sch_region("tbl", arr->bin, arr->num_bins * sizeof(void *), sizeof(void *));
}

int main(void)
{
	static char line[1 << 16];
	setvbuf(stdout, NULL, _IOLBF, 1 << 16);
	while (fgets(line, sizeof line, stdin)) {
		long long x = 0, y = 0, z = 0;
		size_t len = strlen(line);
		if (len && line[len - 1] == '\n') line[len - 1] = 0;
		if (line[0] == '#') {
			fresh();
			puts(line);
		} else if (line[0] == 'c') {
			sscanf(line + 1, "%lld %lld %lld", &x, &y, &z);
			printf("op %s\n", line);
			errno = 0;
			in_array = 1;
			arr = qb_array_create_2((size_t)x, (size_t)y, (size_t)z);
			in_array = 0;
			cur_esize = (size_t)y;
			printf("r %d\n", arr ? 0 : -errno);
		} else if (arr == NULL) {
			continue;
		} else if (strncmp(line, "pre ", 4) == 0) {
			char k = line[4];
			sscanf(line + 5, "%lld", &x);
			printf("op %s\n", line);
			in_array = 1;
			if (k == 'i') {
				void *p = (void *)0x1;
				int32_t rc;
				in_index_depth = 1;
				rc = qb_array_index(arr, (int32_t)x, &p);
				in_index_depth = 0;
				report_index("pre", -1, 0, x, rc, p);
			} else {
				printf("pre %lld %d\n", x, qb_array_grow(arr, (size_t)x));
			}
			in_array = 0;
		} else if (line[0] == 't') {
			int tid = 0;
			char k = 0;
			if (sscanf(line + 1, "%d %c %lld", &tid, &k, &x) == 3 && tid >= 0 && tid < NTHR && nprog[tid] < MAXCALLS) {
				prog[tid][nprog[tid]].kind = k;
				prog[tid][nprog[tid]].arg = x;
				nprog[tid]++;
				printf("op %s\n", line);
			}
		} else if (strncmp(line, "run", 3) == 0) {
			static int sched[1 << 14];
			int n = 0, t, rc, nthr = 0, i;
			char *s = line + 3, *e;
			for (;;) {
				long v = strtol(s, &e, 10);
				if (e == s) break;
				if (n < (1 << 14)) sched[n++] = (int)v;
				s = e;
			}
			for (t = 0; t < NTHR; t++) if (nprog[t]) nthr = t + 1;
			register_array();
			in_array = 1;
			for (t = 0; t < nthr; t++) sch_spawn(thread_body, (void *)(intptr_t)t);
			rc = sch_run(sched, n, 100000);
			printf("end %d\n", rc);
			if (rc != 0) {
				fflush(stdout);
				_exit(97);              /* parked threads cannot be recovered */
			}
			for (i = 0; i < 65536; i++) {
				if (touched[i]) {
					void *p = (void *)0x1;
					int32_t r2;
					in_index_depth = 1;
					r2 = qb_array_index(arr, i, &p);
					in_index_depth = 0;
					report_index("fin", -1, 0, i, r2, p);
				}
			}
			in_array = 0;
			printf("finbins %zu\n", qb_array_num_bins_get(arr));
		}
	}
	fresh();
	fflush(stdout);
	return 0;
}
