/* C08 / C10 correspondence harness: drives the real event loop (lib/loop.c, loop_job.c, loop_timerlist.c,
 * loop_poll.c, loop_poll_epoll.c compiled from the working tree under ASan+UBSan) from a script and
 * prints every observable: each API call and its result, each user-callback invocation with its
 * arguments, and one line per epoll_wait call (= one per loop iteration) with the timeout the loop asked for.
 *
 * The kernel side is virtual (-Wl,--wrap): clock_gettime/clock_getres (virtual clock, 1 ns resolution),
 * random() (scripted stream, then 1000001, 1000002, ...), epoll_ctl (interest list kept here: ADD on a
 * present fd = EEXIST, MOD/DEL on an absent one = ENOENT), epoll_wait (reports the readiness the script's
 * per-iteration environment names, at most maxevents, in script order), usleep (logged, no delay).
 * Signals are real: raise() runs libqb's handler, which writes to libqb's real pipe; the pipe's read end
 * is reported ready by the virtual epoll_wait when poll(2) says it is readable.
 *
 * script (stdin), per case:
 *   # case <n>
 *   rand v1 v2 ...
 *   beh <key> <n> <ret> : <op> ; <op> ...      what the n-th invocation of a callback with user data <key> does / returns
 *   op <op>                                    API call from outside the loop
 *   run <env> | <env> ...                      qb_loop_run; env = <adv_ns> <stop 0/1> [s <signo>...] [r <fd>:<epoll bits>...]
 * ops: ja p key | jd p key | ta p dur key reg | td reg | tr reg | pa p fd events key | pm p fd events key | pd fd
 *      | sa p signo key reg | sm p signo key reg | sd reg | stop | close fd | raise signo
 * fd -2 in an environment = the signal pipe.
 * output: "o <op>", "r <tag> = <res>", "cb <kind> <key> <a> <b>", "w <timeout> <nevents>", "usleep", "runret".
 */
#include "os_base.h"
#include <stdio.h>
#include <stdlib.h>
#include <string.h>
#include <inttypes.h>
#include <signal.h>
#include <poll.h>
#include <sys/epoll.h>
#include <qb/qbdefs.h>
#include <qb/qblist.h>
#include <qb/qbloop.h>

/* ------------------------------------------------------------------ script */
enum { JA = 1, JD, TA, TD, TR, PA, PM, PD, SA, SM, SD, STOP, CLOSE, RAISE };
struct op { int kind; long long a[5]; };
struct beh { long long key, n, ret; int nops; struct op *ops; };
struct envt { long long adv; int stop; int nsig; int sigs[16]; int nready; struct { int fd; unsigned bits; } ready[256]; };

#define MAXKEY 65536
#define MAXREG 4096
static struct beh *behs;
static int nbeh, capbeh;
static long long cnt[MAXKEY];
static uint64_t treg[MAXREG];
static void *sreg[MAXREG];
static long *rnd;
static int nrnd, caprnd, rndpos;
static long long rndn;
static long long now_ns;
static struct qb_loop *loop;
static struct envt *envs;
static int nenv, envpos;

/* ------------------------------------------------------------------ wrapped kernel / libc */
long __wrap_random(void)
{
	long v = (rndpos < nrnd) ? rnd[rndpos] : 1000001 + rndn;
	if (rndpos < nrnd) rndpos++;
	rndn++;
	return v;
}
int __wrap_clock_gettime(clockid_t id, struct timespec *ts)
{
	(void)id;
	ts->tv_sec = now_ns / 1000000000LL;
	ts->tv_nsec = now_ns % 1000000000LL;
	return 0;
}
int __wrap_clock_getres(clockid_t id, struct timespec *ts)
{
	(void)id;
	ts->tv_sec = 0;
	ts->tv_nsec = 1;
	return 0;
}
int __wrap_usleep(useconds_t us)
{
	(void)us;
	printf("usleep\n");
	return 0;
}

struct kreg { int fd; uint32_t events; uint64_t data; };
static struct kreg kset[1024];
static int nk;
static int pipe_rfd = -1;           /* real number of the signal pipe's read end (first fd added) */

static int kfind(int fd)
{
	for (int i = 0; i < nk; i++) if (kset[i].fd == fd) return i;
	return -1;
}
int __wrap_epoll_ctl(int epfd, int op, int fd, struct epoll_event *ev)
{
	int i = kfind(fd);
	(void)epfd;
	if (op == EPOLL_CTL_ADD) {
		if (i >= 0) { errno = EEXIST; return -1; }
		if (nk >= 1024) { errno = ENOSPC; return -1; }
		kset[nk].fd = fd; kset[nk].events = ev->events; kset[nk].data = ev->data.u64; nk++;
		return 0;
	}
	if (i < 0) { errno = ENOENT; return -1; }
	if (op == EPOLL_CTL_MOD) {
		kset[i].events = ev->events; kset[i].data = ev->data.u64;
		return 0;
	}
	memmove(&kset[i], &kset[i + 1], (nk - i - 1) * sizeof(kset[0]));
	nk--;
	return 0;
}
static void k_close(int fd)
{
	int i = kfind(fd);
	if (i >= 0) { memmove(&kset[i], &kset[i + 1], (nk - i - 1) * sizeof(kset[0])); nk--; }
}
static void do_raise(int signo)
{
	struct sigaction sa;
	if (sigaction(signo, NULL, &sa) == 0 && (sa.sa_flags & SA_SIGINFO) && sa.sa_sigaction != NULL) {
		raise(signo);
	}
}
int __wrap_epoll_wait(int epfd, struct epoll_event *events, int maxevents, int timeout)
{
	static const struct envt env_end = { 0, 1, 0, {0}, 0, {{0, 0}} };
	const struct envt *e = (envpos < nenv) ? &envs[envpos++] : &env_end;
	int n = 0, pipe_ready;
	struct pollfd pfd;
	(void)epfd;
	now_ns += e->adv;
	for (int i = 0; i < e->nsig; i++) do_raise(e->sigs[i]);
	if (e->stop) qb_loop_stop(loop);
	pfd.fd = pipe_rfd; pfd.events = POLLIN; pfd.revents = 0;
	pipe_ready = (pipe_rfd >= 0 && poll(&pfd, 1, 0) == 1 && (pfd.revents & POLLIN));
	for (int i = 0; i < e->nready && n < maxevents; i++) {
		int fd = (e->ready[i].fd == -2) ? pipe_rfd : e->ready[i].fd;
		int k = kfind(fd);
		uint32_t got;
		if (k < 0) continue;
		got = e->ready[i].bits & (kset[k].events | EPOLLERR | EPOLLHUP);
		if (e->ready[i].fd == -2 && !pipe_ready) continue;
		if (got == 0) continue;
		events[n].events = got;
		events[n].data.u64 = kset[k].data;
		n++;
	}
	printf("w %d %d\n", timeout, n);
	errno = 0;
	return n;
}

/* ------------------------------------------------------------------ ops */
static void exec_op(const struct op *o);

static long long enter_cb(int kind, long long key, long long a, long long b)
{
	long long n;
	printf("cb %d %lld %lld %lld\n", kind, key, a, b);
	if (key < 0 || key >= MAXKEY) return 0;
	n = cnt[key]++;
	for (int i = 0; i < nbeh; i++) {
		if (behs[i].key == key && behs[i].n == n) {
			for (int j = 0; j < behs[i].nops; j++) exec_op(&behs[i].ops[j]);
			return behs[i].ret;
		}
	}
	return 0;
}
static void job_cb(void *data) { (void)enter_cb(0, (intptr_t)data, 0, 0); }
static void timer_cb(void *data) { (void)enter_cb(1, (intptr_t)data, 0, 0); }
static int32_t poll_cb(int32_t fd, int32_t revents, void *data) { return (int32_t)enter_cb(2, (intptr_t)data, fd, revents); }
static int32_t sig_cb(int32_t sig, void *data) { return (int32_t)enter_cb(3, (intptr_t)data, sig, 0); }

static const char *opname[] = { "", "ja", "jd", "ta", "td", "tr", "pa", "pm", "pd", "sa", "sm", "sd", "stop", "close", "raise" };
static const int opargs[] = { 0, 2, 2, 4, 1, 1, 4, 4, 1, 4, 4, 1, 0, 1, 1 };

static void exec_op(const struct op *o)
{
	const long long *a = o->a;
	long long res = 0;
	int has = 1;
	printf("o %s", opname[o->kind]);
	for (int i = 0; i < opargs[o->kind]; i++) printf(" %lld", a[i]);
	printf("\n");
	switch (o->kind) {
	case JA: res = qb_loop_job_add(loop, a[0], (void *)(intptr_t)a[1], job_cb); break;
	case JD: res = qb_loop_job_del(loop, a[0], (void *)(intptr_t)a[1], job_cb); break;
	case TA: {
		qb_loop_timer_handle h = 0;
		res = qb_loop_timer_add(loop, a[0], (uint64_t)a[1], (void *)(intptr_t)a[2], timer_cb, &h);
		treg[a[3] % MAXREG] = h;
		break;
	}
	case TD: res = qb_loop_timer_del(loop, treg[a[0] % MAXREG]); break;
	case TR: res = qb_loop_timer_is_running(loop, treg[a[0] % MAXREG]); break;
	case PA: res = qb_loop_poll_add(loop, a[0], a[1], a[2], (void *)(intptr_t)a[3], poll_cb); break;
	case PM: res = qb_loop_poll_mod(loop, a[0], a[1], a[2], (void *)(intptr_t)a[3], poll_cb); break;
	case PD: res = qb_loop_poll_del(loop, a[0]); break;
	case SA: {
		qb_loop_signal_handle h = NULL;
		res = qb_loop_signal_add(loop, a[0], a[1], (void *)(intptr_t)a[2], sig_cb, &h);
		sreg[a[3] % MAXREG] = h;
		break;
	}
	case SM: res = qb_loop_signal_mod(loop, a[0], a[1], (void *)(intptr_t)a[2], sig_cb, sreg[a[3] % MAXREG]); break;
	case SD: res = qb_loop_signal_del(loop, sreg[a[0] % MAXREG]); break;
	case STOP: qb_loop_stop(loop); has = 0; break;
	case CLOSE: k_close(a[0]); has = 0; break;
	case RAISE: do_raise(a[0]); has = 0; break;
	default: has = 0; break;
	}
	if (has) printf("r %d = %lld\n", o->kind, res);
}

/* ------------------------------------------------------------------ parsing */
static int parse_op(char **tok, int ntok, struct op *o)
{
	memset(o, 0, sizeof(*o));
	if (ntok < 1) return -1;
	for (int k = 1; k <= RAISE; k++) {
		if (strcmp(tok[0], opname[k]) == 0) {
			if (ntok != 1 + opargs[k]) return -1;
			o->kind = k;
			for (int i = 0; i < opargs[k]; i++) o->a[i] = strtoll(tok[1 + i], NULL, 0);
			return 0;
		}
	}
	return -1;
}
static int tokenize(char *line, char **tok, int max)
{
	int n = 0;
	for (char *p = strtok(line, " \t\r\n"); p && n < max; p = strtok(NULL, " \t\r\n")) tok[n++] = p;
	return n;
}

static int used_sig[65];
static void case_reset(void)
{
	if (loop) { qb_loop_destroy(loop); loop = NULL; }
	for (int i = 1; i < 65; i++) if (used_sig[i]) { signal(i, SIG_DFL); used_sig[i] = 0; }
	for (int i = 0; i < nbeh; i++) free(behs[i].ops);
	nbeh = 0; nrnd = 0; rndpos = 0; rndn = 0; nk = 0; pipe_rfd = -1;
	memset(cnt, 0, sizeof(cnt)); memset(treg, 0, sizeof(treg)); memset(sreg, 0, sizeof(sreg));
	now_ns = 1000000000LL;
}
static void ensure_loop(void)
{
	if (!loop) {
		loop = qb_loop_create();
		if (!loop) { printf("note: qb_loop_create failed\n"); exit(3); }
		pipe_rfd = nk > 0 ? kset[0].fd : -1;
	}
}
static void note_sig(const struct op *o)
{
	if ((o->kind == SA || o->kind == SM) && o->a[1] >= 1 && o->a[1] < 65) used_sig[o->a[1]] = 1;
}

int main(void)
{
	char *line = NULL;
	size_t cap = 0;
	static char *tok[8192];
	setvbuf(stdout, NULL, _IOLBF, 0);
	case_reset();
	while (getline(&line, &cap, stdin) > 0) {
		int ntok;
		if (line[0] == '#') {
			case_reset();
			fputs(line, stdout);
			continue;
		}
		ntok = tokenize(line, tok, 8192);
		if (ntok == 0) continue;
		if (strcmp(tok[0], "rand") == 0) {
			for (int i = 1; i < ntok; i++) {
				if (nrnd >= caprnd) { caprnd = caprnd ? 2 * caprnd : 64; rnd = realloc(rnd, caprnd * sizeof(long)); }
				rnd[nrnd++] = strtol(tok[i], NULL, 0);
			}
		} else if (strcmp(tok[0], "beh") == 0 && ntok >= 5) {
			struct beh b;
			int i = 5, start = 5;
			b.key = strtoll(tok[1], NULL, 0); b.n = strtoll(tok[2], NULL, 0); b.ret = strtoll(tok[3], NULL, 0);
			b.nops = 0; b.ops = calloc(ntok, sizeof(struct op));
			for (; i <= ntok; i++) {
				if (i == ntok || strcmp(tok[i], ";") == 0) {
					if (i > start) {
						if (parse_op(&tok[start], i - start, &b.ops[b.nops]) != 0) { printf("note: bad op in beh\n"); exit(3); }
						note_sig(&b.ops[b.nops]);
						b.nops++;
					}
					start = i + 1;
				}
			}
			if (nbeh >= capbeh) { capbeh = capbeh ? 2 * capbeh : 64; behs = realloc(behs, capbeh * sizeof(struct beh)); }
			behs[nbeh++] = b;
		} else if (strcmp(tok[0], "op") == 0) {
			struct op o;
			if (parse_op(&tok[1], ntok - 1, &o) != 0) { printf("note: bad op\n"); exit(3); }
			note_sig(&o);
			ensure_loop();
			exec_op(&o);
		} else if (strcmp(tok[0], "run") == 0) {
			int i = 1;
			nenv = 0; envpos = 0;
			free(envs);
			envs = calloc(ntok + 1, sizeof(struct envt));
			while (i < ntok) {
				struct envt *e = &envs[nenv];
				int mode = 0;
				if (strcmp(tok[i], "|") == 0) { i++; continue; }
				if (i + 1 >= ntok) { printf("note: bad env\n"); exit(3); }
				e->adv = strtoll(tok[i], NULL, 0); e->stop = atoi(tok[i + 1]); i += 2;
				for (; i < ntok && strcmp(tok[i], "|") != 0; i++) {
					if (strcmp(tok[i], "s") == 0) mode = 1;
					else if (strcmp(tok[i], "r") == 0) mode = 2;
					else if (mode == 1 && e->nsig < 16) e->sigs[e->nsig++] = atoi(tok[i]);
					else if (mode == 2 && e->nready < 256) {
						char *c = strchr(tok[i], ':');
						if (!c) { printf("note: bad ready\n"); exit(3); }
						e->ready[e->nready].fd = atoi(tok[i]);
						e->ready[e->nready].bits = (unsigned)strtoul(c + 1, NULL, 0);
						e->nready++;
					}
				}
				nenv++;
			}
			ensure_loop();
			qb_loop_run(loop);
			printf("runret\n");
		}
	}
	case_reset();
	return 0;
}
