/* C07 / C11 correspondence harness: drives the real lib/ringbuffer.c (compiled from the working tree,
 * ASan+UBSan) through its PUBLIC API only, from a script on stdin, and prints every observable result.
 * The extracted Gallina model (ocaml/C07_driver.ml) reads the same script and must print the same lines.
 *
 * script lines:
 *   # case <n>          close the current ring; echo the line
 *   O <S> <flags>       qb_rb_open(name, S, CREATE | flags): flags letters  o = OVERWRITE, n = NO_SEMAPHORE, - = none
 *   W <hex|->           qb_rb_chunk_write(rb, bytes, len)
 *   A <rlen> <hex|->    p = qb_rb_chunk_alloc(rb, rlen); memcpy(p, bytes, len); qb_rb_chunk_commit(rb, len)   (len <= rlen)
 *   R <n>               qb_rb_chunk_read(rb, buf[n], n, 0)
 *   P                   qb_rb_chunk_peek(rb, &p, 0)
 *   X                   qb_rb_chunk_reclaim(rb)
 *   Q                   (nothing: the query line is printed after every operation anyway)
 *   D                   qb_rb_write_to_file(rb, memfd) and print the file
 * output lines:
 *   o 1                 ring opened
 *   r <ret> <hex|->     return value and, for read/peek, the bytes delivered (ret > 0)
 *                       a trailing " CLOBBER" = the read buffer was modified beyond what the call reported
 *   q <space_free> <space_used> <chunks_used>      after every operation
 *   d <w>.<w>. ...      dump file as hex words: word_size write_pt read_pt version hash data[0..word_size)
 */
#define _GNU_SOURCE
#include "os_base.h"
#include <stdio.h>
#include <stdlib.h>
#include <string.h>
#include <inttypes.h>
#include <unistd.h>
#include <fcntl.h>
#include <sys/mman.h>
#include <qb/qbrb.h>

static FILE *fo;
static qb_ringbuffer_t *rb;
static int ring_no;
static size_t cur_S;

static unsigned char *databuf;
static size_t databuf_sz;

static size_t unhex(const char *h)
{
	size_t n, i;
	if (h[0] == '-' || h[0] == 0) {
		return 0;
	}
	n = strlen(h) / 2;
	if (n > databuf_sz) {
		databuf = realloc(databuf, n);
		databuf_sz = n;
	}
	for (i = 0; i < n; i++) {
		unsigned v;
		sscanf(h + 2 * i, "%2x", &v);
		databuf[i] = (unsigned char)v;
	}
	return n;
}

static void puthex(const unsigned char *p, size_t n)
{
	static const char dig[] = "0123456789abcdef";
	size_t i;
	if (n == 0) {
		fputc('-', fo);
		return;
	}
	for (i = 0; i < n; i++) {
		fputc(dig[p[i] >> 4], fo);
		fputc(dig[p[i] & 15], fo);
	}
}

static void query(void)
{
	ssize_t f, u, c;
	if (!rb) {
		return;
	}
	f = qb_rb_space_free(rb);
	u = qb_rb_space_used(rb);
	c = qb_rb_chunks_used(rb);
	fprintf(fo, "q %zd %zd %zd\n", f, u, c);
}

static void close_ring(void)
{
	if (rb) {
		qb_rb_close(rb);
		rb = NULL;
	}
}

int main(void)
{
	char *line = NULL;
	size_t cap = 0;
	ssize_t got;
	int saved = dup(1);
	int nul = open("/dev/null", O_WRONLY);

	/* the library's print_header() writes to stdout: keep it away from our log */
	dup2(nul, 1);
	fo = fdopen(saved, "w");
	setvbuf(fo, NULL, _IOFBF, 1 << 16);
	databuf_sz = 1 << 16;
	databuf = malloc(databuf_sz);

	while ((got = getline(&line, &cap, stdin)) > 0) {
		char c = line[0];
		char *arg = line + 1;
		while (got > 0 && (line[got - 1] == '\n' || line[got - 1] == '\r')) {
			line[--got] = 0;
		}
		while (*arg == ' ') {
			arg++;
		}
		if (c == '#') {
			close_ring();
			fprintf(fo, "%s\n", line);
			fflush(fo);
			continue;
		}
		if (c == 'O') {
			char name[128], fl[32] = "-";
			unsigned long S = 0;
			uint32_t flags = QB_RB_FLAG_CREATE;
			close_ring();
			sscanf(arg, "%lu %31s", &S, fl);
			if (strchr(fl, 'o')) flags |= QB_RB_FLAG_OVERWRITE;
			if (strchr(fl, 'n')) flags |= QB_RB_FLAG_NO_SEMAPHORE;
			snprintf(name, sizeof name, "/dev/shm/vrb-%d-%d", (int)getpid(), ring_no++);
			rb = qb_rb_open(name, S, flags, 0);
			cur_S = S;
			fprintf(fo, "o %d\n", rb ? 1 : 0);
			query();
			continue;
		}
		if (!rb) {
			fprintf(fo, "r noring\n");
			continue;
		}
		if (c == 'W') {
			size_t n = unhex(arg);
			ssize_t res = qb_rb_chunk_write(rb, databuf, n);
			fprintf(fo, "r %zd -\n", res);
		} else if (c == 'A') {
			char *end;
			unsigned long rlen = strtoul(arg, &end, 10);
			size_t n;
			void *p;
			while (*end == ' ') end++;
			n = unhex(end);
			errno = 0;
			p = qb_rb_chunk_alloc(rb, rlen);
			if (p == NULL) {
				fprintf(fo, "r %d -\n", -errno);
			} else {
				int32_t res;
				memcpy(p, databuf, n);
				res = qb_rb_chunk_commit(rb, n);
				fprintf(fo, "r %d -\n", res);
			}
		} else if (c == 'R') {
			size_t n = strtoul(arg, NULL, 10);
			unsigned char *buf = malloc(n ? n : 1);
			ssize_t res;
			size_t i, from;
			int clobber = 0;
			memset(buf, 0x5A, n ? n : 1);
			res = qb_rb_chunk_read(rb, buf, n, 0);
			from = (res > 0) ? (size_t)res : 0;
			for (i = from; i < n; i++) {
				if (buf[i] != 0x5A) clobber = 1;
			}
			fprintf(fo, "r %zd ", res);
			puthex(buf, (res > 0 && (size_t)res <= n) ? (size_t)res : 0);
			fprintf(fo, "%s\n", clobber ? " CLOBBER" : "");
			free(buf);
		} else if (c == 'P') {
			void *p = NULL;
			ssize_t res = qb_rb_chunk_peek(rb, &p, 0);
			fprintf(fo, "r %zd ", res);
			/* a sane chunk is smaller than the data area (cur_S + page is a safe upper bound for printing) */
			puthex(p, (res > 0 && p && (size_t)res <= cur_S + 2 * 4096) ? (size_t)res : 0);
			fprintf(fo, "\n");
		} else if (c == 'X') {
			qb_rb_chunk_reclaim(rb);
			fprintf(fo, "r 0 -\n");
		} else if (c == 'Q') {
			/* query line only */
		} else if (c == 'D') {
			int fd = memfd_create("vrbdump", 0);
			ssize_t res = qb_rb_write_to_file(rb, fd);
			uint32_t w;
			fprintf(fo, "d ");
			if (res > 0) {
				lseek(fd, 0, SEEK_SET);
				while (read(fd, &w, 4) == 4) {
					fprintf(fo, "%x.", w);
				}
			} else {
				fprintf(fo, "error%zd", res);
			}
			fprintf(fo, "\n");
			close(fd);
		} else {
			continue;
		}
		query();
	}
	close_ring();
	fflush(fo);
	return 0;
}
