/* Controlled scheduler + tsan-stub runtime (builder "arrthr": C19 concurrent part, C16).
 *
 * Library sources compiled with `-O0 -fsanitize=thread' call __tsan_read/write<N>(addr) before every
 * memory access.  This runtime defines those entry points itself (libtsan is NOT linked).  Real pthreads
 * are used as coroutines: exactly one "virtual thread" runs at a time; it stops at every YIELD POINT and
 * the controller (sch_run, in the main thread) decides who goes next from a given schedule.
 *
 * Yield points:
 *   - every synchronisation operation (lock, unlock, semaphore post/wait/getvalue, thread create/join),
 *     reached through the -Wl,--wrap wrappers in sched_wrap_*.c;
 *   - every instrumented access to a registered shared region made while the thread holds NO virtual lock
 *     (accesses made inside a critical section do not yield: a lock-protected section runs as one step,
 *     from the grant of the lock up to the next yield point);
 *   - explicit sch_point() calls of the harness.
 * A step of the schedule = "release thread t from the yield point it is parked at; it performs the
 * pending operation and runs up to its next yield point".  A thread whose pending operation is not
 * enabled (lock held by another thread, semaphore 0, join target alive) cannot be chosen.
 *
 * Every granted step is logged as  "s <tid> <label>".  Accesses to memory passed to sch_freed() are
 * logged as "uaf <tid> <R|W> <label>" (use after free), whether or not they yield.
 */
#ifndef SCHED_RT_H
#define SCHED_RT_H
#include <stddef.h>

typedef void (*sch_fn)(void *);

void sch_reset(void);
int sch_spawn(sch_fn fn, void *arg);                 /* from the controller: new virtual thread, returns its tid */
/* schedule entries are tids; an entry naming a thread that is not enabled is skipped; when the schedule is
 * used up the last thread continues while it can, then the lowest enabled tid.
 * returns 0 = all threads finished, 1 = deadlock, 2 = step limit */
int sch_run(const int *schedule, int n, int max_steps);
void sch_region(const char *name, void *addr, size_t len, size_t elsz);
void sch_region_del(void *addr);
void sch_freed(void *addr);                          /* the region starting at addr is now freed memory */
void sch_point(const char *label);                   /* explicit yield point (virtual threads only) */
int sch_self(void);                                  /* tid of the calling virtual thread, -1 otherwise */
int sch_holds_lock(void);
void sch_note(const char *fmt, ...);                 /* log a line */
extern int sch_verbose;                              /* also log non-yielding shared accesses ("a <tid> ..") */

/* virtual synchronisation objects, keyed by address (used by the wrappers) */
void sch_lock(void *l);
int sch_trylock(void *l);                            /* 0 or EBUSY */
void sch_unlock(void *l);
void sch_lock_forget(void *l);
void sch_sem_init(void *s, unsigned v);
void sch_sem_post(void *s);
void sch_sem_wait(void *s);
int sch_sem_value(void *s);
void sch_sem_forget(void *s);
int sch_thread_create(sch_fn fn, void *arg);         /* from a virtual thread */
void sch_thread_join(int tid);
void sch_thread_exit(void) __attribute__((noreturn));
#endif
