/* kill-at-k supervisor (DESIGN.md 4.2, C03): the dying side is a forked child traced with ptrace; the tracer counts
 * the child's system-call ENTRY stops (PTRACE_O_TRACESYSGOOD) and SIGKILLs it when it is about to perform its k-th
 * system call, i.e. at the boundary between call k-1 and call k.  k = 0 means "never kill" (the child runs to its
 * own _exit; the exit is then the death).  This file is #included by harness/h_ipcdeath.c (no header needed).
 *
 * The child calls ka_child_begin() right after fork (closes every inherited descriptor above 2, asks to be traced,
 * stops itself); counting starts at the first system call after ka_child_arm() (a getppid() marker issued by the
 * child when its set-up is done), so that k enumerates exactly the calls of the scenario proper.
 */
#include <sys/ptrace.h>
#include <sys/wait.h>
#include <sys/user.h>
#include <sys/syscall.h>
#include <signal.h>
#include <unistd.h>
#include <errno.h>
#include <stdio.h>
#include <string.h>

#define KA_MAXTRACE 4096
struct ka {
	pid_t pid;
	int k;              /* kill at the k-th counted syscall entry; 0 = never */
	int count;          /* counted syscall entries so far */
	int armed;          /* the marker has been seen */
	int in_syscall;     /* between entry and exit stop */
	int dead;           /* reaped */
	int killed;         /* we killed it (otherwise it exited by itself) */
	int exit_status;
	int ntrace;
	struct { long nr, a0, a1, a2; } trace[KA_MAXTRACE];
};

#define KA_MARK_A 0x6b61      /* arguments of the marker call: syscall(SYS_getpriority, KA_MARK_A, KA_MARK_B) */
#define KA_MARK_B 0x31

static void ka_child_begin(void)
{
	/* a clean process: nothing of the survivor's descriptors stays open in the dying side */
	int fd;
	for (fd = 3; fd < 1024; fd++) close(fd);
	ptrace(PTRACE_TRACEME, 0, 0, 0);
	raise(SIGSTOP);
}
static void ka_child_arm(void)
{
	syscall(SYS_getpriority, KA_MARK_A, KA_MARK_B);
}

static void ka_init(struct ka *t, pid_t pid, int k)
{
	memset(t, 0, sizeof *t);
	t->pid = pid; t->k = k;
}

/* wait for the initial SIGSTOP and set the options; returns 0 on success */
static int ka_attach(struct ka *t)
{
	int st;
	if (waitpid(t->pid, &st, __WALL) != t->pid) return -1;
	if (!WIFSTOPPED(st)) { t->dead = 1; t->exit_status = st; return -1; }
	if (ptrace(PTRACE_SETOPTIONS, t->pid, 0, PTRACE_O_TRACESYSGOOD | PTRACE_O_EXITKILL) < 0) return -1;
	if (ptrace(PTRACE_SYSCALL, t->pid, 0, 0) < 0) return -1;
	return 0;
}

static void ka_kill(struct ka *t)
{
	int st;
	if (t->dead) return;
	kill(t->pid, SIGKILL);
	while (waitpid(t->pid, &st, __WALL) != t->pid) {
		if (errno != EINTR) break;
	}
	t->dead = 1; t->killed = 1; t->exit_status = st;
}

/* Handle at most one pending stop of the child.  block != 0: wait for it.
 * Returns: 1 a stop was handled and the child continues; 0 nothing pending (child running or blocked in the kernel);
 *          2 the child is at its k-th counted syscall entry and still STOPPED there: the caller decides when to call
 *            ka_kill (this is where a survivor may take a stale poll snapshot first);  3 the child is gone. */
static int ka_step(struct ka *t, int block)
{
	int st;
	pid_t r;
	if (t->dead) return 3;
	r = waitpid(t->pid, &st, __WALL | (block ? 0 : WNOHANG));
	if (r == 0) return 0;
	if (r < 0) { if (errno == EINTR) return 0; t->dead = 1; return 3; }
	if (WIFEXITED(st) || WIFSIGNALED(st)) { t->dead = 1; t->exit_status = st; return 3; }
	if (!WIFSTOPPED(st)) return 1;
	if (WSTOPSIG(st) == (SIGTRAP | 0x80)) {
		if (!t->in_syscall) {
			struct user_regs_struct regs;
			t->in_syscall = 1;
			if (ptrace(PTRACE_GETREGS, t->pid, 0, &regs) == 0) {
				long nr = (long)regs.orig_rax;
				if (!t->armed) {
					if (nr == SYS_getpriority && regs.rdi == KA_MARK_A && regs.rsi == KA_MARK_B) t->armed = 1;
				} else {
					t->count++;
					if (t->ntrace < KA_MAXTRACE) {
						t->trace[t->ntrace].nr = nr; t->trace[t->ntrace].a0 = (long)regs.rdi;
						t->trace[t->ntrace].a1 = (long)regs.rsi; t->trace[t->ntrace].a2 = (long)regs.rdx;
						t->ntrace++;
					}
					if (t->k > 0 && t->count == t->k) return 2;
				}
			}
		} else {
			t->in_syscall = 0;
		}
		ptrace(PTRACE_SYSCALL, t->pid, 0, 0);
		return 1;
	}
	/* some other signal: deliver it (SIGSTOP from our own protocol is swallowed) */
	ptrace(PTRACE_SYSCALL, t->pid, 0, (WSTOPSIG(st) == SIGSTOP || WSTOPSIG(st) == SIGTRAP) ? 0 : WSTOPSIG(st));
	return 1;
}

/* 'S'/'D' = sleeping in the kernel (blocked in a system call), 'R' running, 't' tracing stop, 'Z' zombie, 0 unknown */
static int ka_proc_state(pid_t pid)
{
	char path[64], buf[512];
	FILE *f;
	char *p;
	snprintf(path, sizeof path, "/proc/%d/stat", (int)pid);
	f = fopen(path, "r");
	if (!f) return 0;
	if (!fgets(buf, sizeof buf, f)) { fclose(f); return 0; }
	fclose(f);
	p = strrchr(buf, ')');
	if (!p || !p[1] || !p[2]) return 0;
	return p[2];
}
