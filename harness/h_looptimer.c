/* C09 correspondence harness: the real lib/loop_timerlist.c + include/tlist.h + lib/loop.c +
 * lib/loop_job.c + lib/util.c of the working tree (ASan+UBSan), driven by a script, under a
 * virtual CLOCK_MONOTONIC (-Wl,--wrap=clock_gettime,--wrap=clock_getres) and with
 * epoll_wait wrapped (-Wl,--wrap=epoll_wait) so that the timeout the loop asks for is recorded
 * and virtual time advances by exactly what the script says (usually: by that timeout).
 *
 * script (stdin); "# case <n>" starts a fresh loop / heap:
 *   I <res_ns> <clk0> <cstep>   clock_getres answer, initial clock (ns), advance per clock read
 *  loop level (symbolic; the model runner reads the same lines):
 *   B <data> <op> ; <op> ; ...  what the callback registered with user-data <data> does when it runs
 *   A <p> <dur> <data> <chk>    qb_loop_timer_add(p, dur ns, data); random() returns chk
 *   D <ref>   qb_loop_timer_del            X <ref>  qb_loop_timer_expire_time_get
 *   R <ref>   ..._expire_time_remaining    U <ref>  qb_loop_timer_is_running
 *   M         qb_loop_timer_msec_duration_to_expire
 *   J <p> <data>  qb_loop_job_add          S  qb_loop_stop        T <n>  n ns pass
 *   RUN d1 d2 ...  qb_loop_run; turn k's epoll_wait returns after d_k ns (d_k < 0: after the timeout it
 *                  was given (0 when that is negative) plus -d_k - 1 ns); the last one calls qb_loop_stop
 *   ref = @k (handle returned by the k-th timer_add of the case, 0 if none) | L<number>
 *  heap level (the bare struct timerlist of tlist.h):
 *   HA <dur>  timerlist_add_duration      HD <k>  timerlist_del of the k-th added (if still in)
 *   HE <now>  clock := now; timerlist_expire
 * output: "r <res> <val>"  "cb <kind> <data> <now>"  "poll <timeout> <now>"
 *         "m ..." lines: the concrete call about to be made and the virtual clock, for the independent
 *         monitor only (never compared with the model)
 *         heap level: "hop A <expire>" | "hop D <id>" | "hop E <now>", "hf <id>" per expired timer,
 *         then "hs <size> id:exp:pos ..." and "hv <timerlist_debug_is_valid_heap>"
 */
#include "os_base.h"
#include <stdio.h>
#include <stdlib.h>
#include <string.h>
#include <inttypes.h>
#include <time.h>
#include <sys/epoll.h>
#include <qb/qbdefs.h>
#include <qb/qblist.h>
#include <qb/qbloop.h>
#include "loop_int.h"
#include "tlist.h"

/* ------------------------------------------------------------------ virtual clock */
static uint64_t vclk = 1, cstep = 0, res_ns = 1;
static int clock_virtual = 0;

static void vadvance(uint64_t n)
{
	vclk = (n > UINT64_MAX - vclk) ? UINT64_MAX : vclk + n;
}

int __real_clock_gettime(clockid_t id, struct timespec *ts);
int __wrap_clock_gettime(clockid_t id, struct timespec *ts)
{
	if (!clock_virtual) {
		return __real_clock_gettime(id, ts);
	}
	ts->tv_sec = (time_t)(vclk / 1000000000ULL);
	ts->tv_nsec = (long)(vclk % 1000000000ULL);
	if (id == CLOCK_MONOTONIC) {
		vadvance(cstep);
	}
	return 0;
}

int __real_clock_getres(clockid_t id, struct timespec *ts);
int __wrap_clock_getres(clockid_t id, struct timespec *ts)
{
	if (!clock_virtual) {
		return __real_clock_getres(id, ts);
	}
	ts->tv_sec = (time_t)(res_ns / 1000000000ULL);
	ts->tv_nsec = (long)(res_ns % 1000000000ULL);
	return 0;
}

static long next_random = 1;
long __wrap_random(void) { return next_random; }

/* ------------------------------------------------------------------ loop level */
static qb_loop_t *loop = NULL;
#define MAXH 20000
static qb_loop_timer_handle issued[MAXH];
static int n_issued = 0;

#define MAXB 4096
static char *beh[MAXB];

#define MAXD 4096
static long long dirs[MAXD];
static int n_dirs = 0, turn = 0, running = 0;

int __real_epoll_wait(int epfd, struct epoll_event *events, int maxevents, int timeout);
int __wrap_epoll_wait(int epfd, struct epoll_event *events, int maxevents, int timeout)
{
	long long d;
	if (!running) {
		return __real_epoll_wait(epfd, events, maxevents, timeout);
	}
	printf("poll %d %" PRIu64 "\n", timeout, vclk);
	d = (turn < n_dirs) ? dirs[turn] : 0;
	turn++;
	if (d < 0) {
		if (timeout > 0) {
			vadvance((uint64_t)timeout * 1000000ULL);
		}
		vadvance((uint64_t)(-d - 1));
	} else {
		vadvance((uint64_t)d);
	}
	if (turn >= n_dirs) {
		qb_loop_stop(loop);
	}
	return 0;
}

static uint64_t resolve(const char *s)
{
	if (s[0] == 'L') {
		return strtoull(s + 1, NULL, 0);
	}
	if (s[0] == '@') {
		long k = strtol(s + 1, NULL, 10);
		return (k >= 0 && k < n_issued) ? issued[k] : 0;
	}
	return 0;
}

static void timer_cb(void *data);
static void job_cb(void *data);

/* one API call; `line' is "<letter> args" */
static void api(const char *line)
{
	char a1[64] = "", a2[64] = "", a3[64] = "", a4[64] = "";
	char c = line[0];
	sscanf(line + 1, " %63s %63s %63s %63s", a1, a2, a3, a4);
	switch (c) {
	case 'A': {
		qb_loop_timer_handle h = 0;
		int32_t res;
		next_random = strtol(a4, NULL, 0);
		printf("m A %ld %" PRIu64 " %ld %" PRIu64 "\n", strtol(a1, NULL, 0), (uint64_t)strtoull(a2, NULL, 0),
		       strtol(a3, NULL, 0), vclk);
		res = qb_loop_timer_add(loop, (enum qb_loop_priority)strtol(a1, NULL, 0), strtoull(a2, NULL, 0),
					(void *)(intptr_t)strtol(a3, NULL, 0), timer_cb, &h);
		if (n_issued < MAXH) {
			issued[n_issued++] = (res == 0) ? h : 0;
		}
		printf("r %d %" PRIu64 "\n", res, (res == 0) ? h : (uint64_t)0);
		break;
	}
	case 'D':
		printf("m D %" PRIu64 " %" PRIu64 "\n", resolve(a1), vclk);
		printf("r %d 0\n", qb_loop_timer_del(loop, resolve(a1)));
		break;
	case 'X':
		printf("m X %" PRIu64 " %" PRIu64 "\n", resolve(a1), vclk);
		printf("r 0 %" PRIu64 "\n", qb_loop_timer_expire_time_get(loop, resolve(a1)));
		break;
	case 'R':
		printf("m R %" PRIu64 " %" PRIu64 "\n", resolve(a1), vclk);
		printf("r 0 %" PRIu64 "\n", qb_loop_timer_expire_time_remaining(loop, resolve(a1)));
		break;
	case 'U':
		printf("m U %" PRIu64 " %" PRIu64 "\n", resolve(a1), vclk);
		printf("r 0 %d\n", qb_loop_timer_is_running(loop, resolve(a1)));
		break;
	case 'M':
		printf("m M %" PRIu64 "\n", vclk);
		printf("r 0 %d\n", qb_loop_timer_msec_duration_to_expire(loop->timer_source));
		break;
	case 'J':
		printf("m J %ld %ld\n", strtol(a1, NULL, 0), strtol(a2, NULL, 0));
		printf("r %d 0\n", qb_loop_job_add(loop, (enum qb_loop_priority)strtol(a1, NULL, 0),
						   (void *)(intptr_t)strtol(a2, NULL, 0), job_cb));
		break;
	case 'S':
		printf("m S\n");
		qb_loop_stop(loop);
		break;
	case 'T':
		vadvance(strtoull(a1, NULL, 0));
		break;
	default:
		printf("note bad-op %c\n", c);
	}
}

static void run_beh(long data)
{
	char *copy, *p, *save = NULL;
	if (data < 0 || data >= MAXB || beh[data] == NULL) {
		return;
	}
	copy = strdup(beh[data]);
	for (p = strtok_r(copy, ";", &save); p; p = strtok_r(NULL, ";", &save)) {
		while (*p == ' ') p++;
		if (*p) api(p);
	}
	free(copy);
}

static void timer_cb(void *data)
{
	printf("cb 0 %ld %" PRIu64 "\n", (long)(intptr_t)data, vclk);
	run_beh((long)(intptr_t)data);
}

static void job_cb(void *data)
{
	printf("cb 1 %ld %" PRIu64 "\n", (long)(intptr_t)data, vclk);
	run_beh((long)(intptr_t)data);
}

/* ------------------------------------------------------------------ heap level */
static struct timerlist utl;
static int utl_live = 0;
#define MAXU 20000
static timer_handle uh[MAXU];          /* handle cells: cleared by the library when the timer leaves the heap */
static struct timerlist_timer *uptr[MAXU];
static int n_u = 0;

static void unit_cb(void *data)
{
	printf("hf %ld\n", (long)(intptr_t)data);
}

static void unit_dump(void)
{
	size_t i;
	printf("hs %zu", utl.size);
	for (i = 0; i < utl.size; i++) {
		struct timerlist_timer *t = utl.heap_entries[i];
		printf(" %ld:%" PRIu64 ":%zu", (long)(intptr_t)t->data, t->expire_time, t->heap_pos);
	}
	printf("\nhv %d\n", timerlist_debug_is_valid_heap(&utl));
}

static void fresh(void)
{
	int i;
	if (loop) {
		qb_loop_destroy(loop);
		loop = NULL;
	}
	if (utl_live) {
		timerlist_destroy(&utl);
		utl_live = 0;
	}
	for (i = 0; i < MAXB; i++) {
		free(beh[i]);
		beh[i] = NULL;
	}
	n_issued = 0;
	n_u = 0;
	running = 0;
}

int main(void)
{
	static char line[1 << 16];
	setvbuf(stdout, NULL, _IOFBF, 1 << 16);
	while (fgets(line, sizeof line, stdin)) {
		size_t n = strlen(line);
		while (n && (line[n - 1] == '\n' || line[n - 1] == '\r')) line[--n] = 0;
		if (line[0] == '#') {
			fresh();
			puts(line);
			continue;
		}
		if (line[0] == 0) {
			continue;
		}
		if (line[0] == 'I') {
			unsigned long long r = 1, c = 1, s = 0;
			char *e1, *e2;
			r = strtoull(line + 1, &e1, 0);
			c = strtoull(e1, &e2, 0);
			s = strtoull(e2, NULL, 0);
			fresh();
			res_ns = r; vclk = c; cstep = s;
			clock_virtual = 1;
			printf("m I %llu %llu %llu\n", r, c, s);
			loop = qb_loop_create();
			timerlist_init(&utl);
			utl_live = 1;
		} else if (loop == NULL) {
			printf("note no-init\n");
		} else if (line[0] == 'B') {
			long d = -1;
			int off = 0;
			sscanf(line + 1, " %ld %n", &d, &off);
			if (d >= 0 && d < MAXB) {
				free(beh[d]);
				beh[d] = strdup(line + 1 + off);
			}
		} else if (!strncmp(line, "RUN", 3)) {
			char *p = line + 3, *end;
			n_dirs = 0;
			for (;;) {
				long long v = strtoll(p, &end, 0);
				if (end == p) break;
				if (n_dirs < MAXD) dirs[n_dirs++] = v;
				p = end;
			}
			if (n_dirs > 0) {
				turn = 0;
				running = 1;
				printf("m RUN %d\n", n_dirs);
				qb_loop_run(loop);
				running = 0;
				printf("m END\n");
			}
		} else if (line[0] == 'H') {
			char c = line[1];
			if (c == 'A') {
				uint64_t dur = strtoull(line + 2, NULL, 0);
				if (n_u < MAXU) {
					int k = n_u++;
					int32_t res = timerlist_add_duration(&utl, unit_cb, (void *)(intptr_t)(k + 1), dur, &uh[k]);
					uptr[k] = (res == 0) ? (struct timerlist_timer *)uh[k] : NULL;
					printf("hop A %" PRIu64 "\n", uptr[k] ? uptr[k]->expire_time : (uint64_t)0);
				}
			} else if (c == 'D') {
				long k = strtol(line + 2, NULL, 0);
				printf("hop D %ld\n", k + 1);
				if (k >= 0 && k < n_u && uh[k] != NULL) {
					timerlist_del(&utl, uh[k]);
				}
			} else if (c == 'E') {
				vclk = strtoull(line + 2, NULL, 0);
				printf("hop E %" PRIu64 "\n", vclk);
				timerlist_expire(&utl);
			}
			unit_dump();
		} else {
			api(line);
		}
	}
	fresh();
	return 0;
}
