/* C14 correspondence harness: drives the real qb_vsnprintf_serialize / qb_vsnprintf_deserialize
 * (lib/log_format.c of the working tree, ASan+UBSan) from a script.  Every buffer handed to the
 * library is a heap block of EXACTLY the stated size, so one byte too far is a sanitizer report.
 * The single-directive snprintf calls the decoder makes are recorded (link with -Wl,--wrap=snprintf)
 * so that the model consumes the same oracle answers.
 *
 * script lines (stdin), all byte strings in hex ("-" = empty):
 *   # case <n>                     marker, echoed
 *   S <max_len> <fmt> <arg>*       serialize into malloc(max_len); args:
 *                                    i<dec> int   l<dec> long   q<dec> long long   p<dec> pointer-sized
 *                                    d<16 hex digits> double (raw bits)   s<hex> string   sN  NULL string
 *                                  -> "ser <ret> <first min(ret,max_len) bytes>"; these bytes become the record
 *   R <bytes>                      take arbitrary bytes as the record
 *   D <n> <garbage>                decode the record (exact-size copy) with the classic entry point into
 *                                  malloc(n) pre-filled by repeating <garbage>
 *   N <n> <garbage>                same through qb_vsnprintf_deserialize_n(.., buf_len = record length) when the
 *                                  tree has it ("nodesn" is printed and the classic entry point is used on a
 *                                  zero-padded copy otherwise)
 *                                  -> "snp <fmt> <kind><arg> <n> <ret> <written>" per snprintf call, then
 *                                     "des <ret> <all n bytes of the buffer>"
 *   V <fmt> <arg>*                 reference: vsnprintf of the same format/arguments -> "ref <len> <text>"
 */
#include "os_base.h"
#include <stdio.h>
#include <stdlib.h>
#include <string.h>
#include <stdarg.h>
#include <stdint.h>
#include <inttypes.h>

#if !defined(__x86_64__) || !defined(__linux__)
#error "h_ser.c builds va_list by hand: x86-64 SysV only"
#endif

extern size_t qb_vsnprintf_serialize(char *serialize, size_t max_len, const char *fmt, va_list ap);
extern size_t qb_vsnprintf_deserialize(char *string, size_t str_len, const char *buf);
extern size_t qb_vsnprintf_deserialize_n(char *string, size_t str_len, const char *buf, size_t buf_len)
	__attribute__((weak));

/* ------------------------------------------------------------------ hex helpers */
static int hexval(int c)
{
	if (c >= '0' && c <= '9') return c - '0';
	if (c >= 'a' && c <= 'f') return c - 'a' + 10;
	if (c >= 'A' && c <= 'F') return c - 'A' + 10;
	return -1;
}

/* decode hex into a fresh malloc(len + extra) block; *len = number of bytes */
static unsigned char *unhex(const char *s, size_t *len, size_t extra)
{
	size_t n = (strcmp(s, "-") == 0) ? 0 : strlen(s) / 2;
	unsigned char *b = malloc(n + extra ? n + extra : 1);
	size_t i;
	for (i = 0; i < n; i++) {
		b[i] = (unsigned char)(hexval(s[2 * i]) * 16 + hexval(s[2 * i + 1]));
	}
	for (i = 0; i < extra; i++) {
		b[n + i] = 0;
	}
	*len = n;
	return b;
}

static void puthex(const unsigned char *b, size_t n)
{
	size_t i;
	if (n == 0) {
		putchar('-');
		return;
	}
	for (i = 0; i < n; i++) {
		printf("%02x", b[i]);
	}
}

/* ------------------------------------------------------------------ oracle recording */
static int recording = 0;
static char snap[1 << 16];
static size_t snap_len;

int __wrap_snprintf(char *s, size_t n, const char *fmt, ...)
{
	va_list ap, aq;
	int ret;
	va_start(ap, fmt);
	if (recording) {
		size_t fl = strlen(fmt);
		char conv = fl ? fmt[fl - 1] : 0;
		int nl = 0, wide = 0;
		size_t i;
		unsigned char a[8];
		for (i = 0; i < fl; i++) {
			if (fmt[i] == 'l') nl++;
			if (fmt[i] == 'z' || fmt[i] == 't' || fmt[i] == 'j') wide = 1;
		}
		va_copy(aq, ap);
		printf("snp ");
		puthex((const unsigned char *)fmt, fl);
		putchar(' ');
		switch (conv) {
		case 'd': case 'i': case 'o': case 'u': case 'x': case 'X':
			if (nl >= 2 || wide) {
				long long v = va_arg(aq, long long);
				memcpy(a, &v, 8);
				putchar('q');
				puthex(a, 8);
			} else if (nl == 1) {
				long v = va_arg(aq, long);
				memcpy(a, &v, sizeof(long));
				putchar(sizeof(long) == 8 ? 'q' : 'l');	/* keyed by size: "%lld" may be handed a long */
				puthex(a, sizeof(long));
			} else {
				int v = va_arg(aq, int);
				memcpy(a, &v, 4);
				putchar('i');
				puthex(a, 4);
			}
			break;
		case 'e': case 'E': case 'f': case 'F': case 'g': case 'G': case 'a': case 'A': {
			double v = va_arg(aq, double);
			memcpy(a, &v, 8);
			putchar('d');
			puthex(a, 8);
			break;
		}
		case 'c': {
			int v = va_arg(aq, int);
			a[0] = (unsigned char)v;
			putchar('c');
			puthex(a, 1);
			break;
		}
		case 's': {
			const char *v = va_arg(aq, const char *);
			putchar('s');
			puthex((const unsigned char *)v, strlen(v));
			break;
		}
		case 'p': {
			void *v = va_arg(aq, void *);
			memcpy(a, &v, sizeof(void *));
			putchar('p');
			puthex(a, sizeof(void *));
			break;
		}
		default:
			putchar('?');
			putchar('-');
			break;
		}
		va_end(aq);
	}
	if (recording) {
		/* libc may store bytes even when it fails (returns < 0): keep the prior content to see which */
		snap_len = n < sizeof(snap) ? n : sizeof(snap);
		memcpy(snap, s, snap_len);
	}
	ret = vsnprintf(s, n, fmt, ap);
	va_end(ap);
	if (recording) {
		size_t w = 0;
		if (n > 0 && ret >= 0) {
			w = ((size_t)ret < n - 1 ? (size_t)ret : n - 1) + 1;
		} else if (ret < 0) {
			size_t i;
			for (i = 0; i < snap_len; i++) {
				if (snap[i] != s[i]) {
					w = i + 1;
				}
			}
		}
		printf(" %zu %d ", n, ret);
		puthex((const unsigned char *)s, w);
		putchar('\n');
	}
	return ret;
}

/* ------------------------------------------------------------------ arguments */
#define MAXARGS 64
static uint64_t slots[MAXARGS + 64];
static void *owned[MAXARGS];
static int n_owned;

static void free_args(void)
{
	int i;
	for (i = 0; i < n_owned; i++) {
		free(owned[i]);
	}
	n_owned = 0;
	memset(slots, 0, sizeof(slots));
}

/* parse the remaining tokens of the line into argument slots */
static int parse_args(char *save)
{
	int n = 0;
	char *tok;
	free_args();
	while ((tok = strtok_r(NULL, " \n", &save)) != NULL && n < MAXARGS) {
		switch (tok[0]) {
		case 'i': slots[n] = (uint64_t)(int64_t)(int)strtoll(tok + 1, NULL, 0); break;
		case 'l':
		case 'q':
			slots[n] = tok[1] == '-' ? (uint64_t)strtoll(tok + 1, NULL, 0) : (uint64_t)strtoull(tok + 1, NULL, 0);
			break;
		case 'p': slots[n] = (uint64_t)strtoull(tok + 1, NULL, 0); break;
		case 'd': slots[n] = (uint64_t)strtoull(tok + 1, NULL, 16); break;
		case 's':
			if (tok[1] == 'N') {
				slots[n] = 0;
			} else {
				size_t len;
				unsigned char *b = unhex(tok + 1, &len, 1);	/* exact: len + NUL */
				owned[n_owned++] = b;
				slots[n] = (uint64_t)(uintptr_t)b;
			}
			break;
		default:
			printf("note bad argument token %s\n", tok);
			break;
		}
		n++;
	}
	return n;
}

/* x86-64 SysV: a va_list whose register areas are exhausted takes every argument (integer, pointer
 * and double alike) from consecutive 8-byte slots of overflow_arg_area. */
static void make_va(va_list ap)
{
	ap[0].gp_offset = 48;
	ap[0].fp_offset = 304;
	ap[0].overflow_arg_area = slots;
	ap[0].reg_save_area = NULL;
}

static void selftest(const char *dummy, ...)
{
	char a[128], b[128];
	va_list ap;
	double dv = 2.5;
	const char *sv = "xyz";
	slots[0] = (uint64_t)(int64_t)-7;
	memcpy(&slots[1], &dv, 8);
	slots[2] = (uint64_t)(uintptr_t)sv;
	slots[3] = (uint64_t)-9000000000LL;
	slots[4] = 'q';
	make_va(ap);
	vsnprintf(a, sizeof(a), "%d|%f|%s|%lld|%c", ap);
	sprintf(b, "%d|%f|%s|%lld|%c", -7, 2.5, "xyz", -9000000000LL, 'q');
	if (strcmp(a, b) != 0) {
		printf("note hand-made va_list does not work here: %s vs %s\n", a, b);
		exit(3);
	}
	memset(slots, 0, sizeof(slots));
}

/* ------------------------------------------------------------------ main */
static unsigned char *record;
static size_t record_len;

static void decode(int bounded, size_t n, const unsigned char *garb, size_t glen)
{
	unsigned char *out = malloc(n ? n : 1);
	unsigned char *rec;
	size_t i, ret;
	for (i = 0; i < n; i++) {
		out[i] = glen ? garb[i % glen] : 0xa5;
	}
	if (bounded && qb_vsnprintf_deserialize_n) {
		rec = malloc(record_len ? record_len : 1);
		memcpy(rec, record, record_len);
		recording = 1;
		ret = qb_vsnprintf_deserialize_n((char *)out, n, (const char *)rec, record_len);
		recording = 0;
	} else if (bounded) {
		size_t pad = 8 * record_len + 64;
		printf("nodesn\n");
		rec = calloc(1, record_len + pad);
		memcpy(rec, record, record_len);
		recording = 1;
		ret = qb_vsnprintf_deserialize((char *)out, n, (const char *)rec);
		recording = 0;
	} else {
		rec = malloc(record_len ? record_len : 1);
		memcpy(rec, record, record_len);
		recording = 1;
		ret = qb_vsnprintf_deserialize((char *)out, n, (const char *)rec);
		recording = 0;
	}
	printf("des %zu ", ret);
	puthex(out, n);
	putchar('\n');
	free(rec);
	free(out);
}

int main(void)
{
	static char line[1 << 20];
	static char big[1 << 16];
	selftest("x");
	record = malloc(1);
	record_len = 0;
	while (fgets(line, sizeof(line), stdin)) {
		char *save = NULL;
		char *cmd;
		if (line[0] == '#') {
			fputs(line, stdout);
			fflush(stdout);
			continue;
		}
		cmd = strtok_r(line, " \n", &save);
		if (!cmd) {
			continue;
		}
		if (strcmp(cmd, "S") == 0) {
			size_t max_len = strtoull(strtok_r(NULL, " \n", &save), NULL, 10);
			size_t flen, ret, keep;
			unsigned char *fmt = unhex(strtok_r(NULL, " \n", &save), &flen, 1);
			unsigned char *buf = malloc(max_len ? max_len : 1);
			va_list ap;
			parse_args(save);
			memset(buf, 0xee, max_len ? max_len : 1);
			make_va(ap);
			ret = qb_vsnprintf_serialize((char *)buf, max_len, (const char *)fmt, ap);
			keep = ret < max_len ? ret : max_len;
			printf("ser %zu ", ret);
			puthex(buf, keep);
			putchar('\n');
			free(record);
			record = malloc(keep ? keep : 1);
			memcpy(record, buf, keep);
			record_len = keep;
			free(buf);
			free(fmt);
		} else if (strcmp(cmd, "R") == 0) {
			free(record);
			record = unhex(strtok_r(NULL, " \n", &save), &record_len, 0);
		} else if (strcmp(cmd, "D") == 0 || strcmp(cmd, "N") == 0) {
			size_t n = strtoull(strtok_r(NULL, " \n", &save), NULL, 10);
			size_t glen;
			unsigned char *g = unhex(strtok_r(NULL, " \n", &save), &glen, 0);
			decode(cmd[0] == 'N', n, g, glen);
			free(g);
		} else if (strcmp(cmd, "V") == 0) {
			size_t flen;
			unsigned char *fmt = unhex(strtok_r(NULL, " \n", &save), &flen, 1);
			va_list ap;
			int r;
			parse_args(save);
			make_va(ap);
			r = vsnprintf(big, sizeof(big), (const char *)fmt, ap);
			printf("ref %d ", r);
			puthex((unsigned char *)big, r > 0 ? ((size_t)r < sizeof(big) ? (size_t)r : sizeof(big) - 1) : 0);
			putchar('\n');
			free(fmt);
		} else {
			printf("note unknown command %s\n", cmd);
		}
		fflush(stdout);
	}
	free_args();
	free(record);
	return 0;
}
