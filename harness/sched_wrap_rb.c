/* C01 runtime part (compiled WITHOUT sanitizer instrumentation; linked with sched_rt.c).
 *
 *  - __tsan_atomic32_load/store: the acquire/release accesses of lib/ringbuffer.c (QB_RB_CHUNK_MAGIC_GET/SET)
 *    become yield points labelled "AR d[i] mo=<n>" / "AW d[i] mo=<n>";
 *  - memcpy into / out of the ring data area (any of its four mappings) is performed BYTE BY BYTE, one yield
 *    point per byte, labelled "WB b[j]" / "RB b[j]" (j = byte offset in the data file, i.e. mod 4*W);
 *  - sem_post / sem_trywait / sem_wait / sem_timedwait on the ring's notifier semaphore are yield points
 *    ("post", "trywait", "wait"); the REAL semaphore in the shared header keeps the count; a blocking wait is
 *    not enabled while the count is 0 (rbc_enabled);
 *  - plain loads/stores of write_pt / read_pt / data words reach sched_rt.c's __tsan_read4/write4 through the
 *    regions registered by rbc_attach ("R hdr[0]" = write_pt, "hdr[1]" = read_pt, "d[i]" = data word i);
 *  - rbc_step: one scheduling step of one thread, followed by a diff of the whole shared state (both pointers,
 *    every data word, the semaphore count) against a shadow copy: one "c <loc>=<value>" line per change;
 *  - rbc_watch: memory that nothing may store to after qb_rb_open (both private handle structures with their
 *    cached flags / pointers / notifier table, word_size, ref_count and the path names in the shared header) is
 *    compared with a copy taken before the run after every step as well: "c ro <name> changed".
 *
 * Outside virtual threads (main thread: ring creation, sequential prologue) everything runs directly. */
#define _GNU_SOURCE
#include "sched_rt.h"
#include <semaphore.h>
#include <stdio.h>
#include <stdlib.h>
#include <string.h>
#include <stdint.h>
#include <errno.h>
#include <time.h>

extern __thread int sch_internal;

void *__real_memcpy(void *d, const void *s, size_t n);
int __real_sem_post(sem_t *s);
int __real_sem_trywait(sem_t *s);
int __real_sem_wait(sem_t *s);
int __real_sem_timedwait(sem_t *s, const struct timespec *ts);

#define NMAP 2
static struct {
	int on;
	uint32_t W;                      /* words */
	char *data[NMAP];                /* start of the double mapping of each handle (2 * 4W bytes) */
	volatile uint32_t *hdr[NMAP];    /* &write_pt of each handle's header mapping (read_pt follows) */
	sem_t *sem[NMAP];                /* the notifier semaphore seen through each header mapping, or NULL */
	uint32_t *shadow;
	uint32_t sh_wpt, sh_rpt;
	int sh_sem;
} R;

static int waiting[16];

#define NWATCH 8
static struct { const char *name; const void *addr; size_t len; void *copy; } watch[NWATCH];
static int nwatch;

void rbc_watch(const char *name, const void *addr, size_t len)
{
	if (nwatch >= NWATCH) return;
	watch[nwatch].name = name;
	watch[nwatch].addr = addr;
	watch[nwatch].len = len;
	watch[nwatch].copy = malloc(len);
	__real_memcpy(watch[nwatch].copy, addr, len);
	nwatch++;
}

void rbc_detach(void)
{
	int i;
	for (i = 0; i < nwatch; i++) free(watch[i].copy);
	nwatch = 0;
	free(R.shadow);
	memset(&R, 0, sizeof R);
	memset(waiting, 0, sizeof waiting);
}

static int semvalue(void)
{
	int v = 0;
	if (!R.sem[0]) return -1;
	sem_getvalue(R.sem[0], &v);
	return v;
}

void rbc_attach(int k, void *hdr_wpt, void *data, uint32_t words, void *sem)
{
	R.on = 1;
	R.W = words;
	R.hdr[k] = hdr_wpt;
	R.data[k] = data;
	R.sem[k] = sem;
	sch_region("hdr", hdr_wpt, 8, 4);
	sch_region("d", data, (size_t)words * 4, 4);
	sch_region("d", (char *)data + (size_t)words * 4, (size_t)words * 4, 4);
}

void rbc_snapshot(void)
{
	if (!R.shadow) R.shadow = malloc((size_t)R.W * 4);
	__real_memcpy(R.shadow, R.data[0], (size_t)R.W * 4);
	R.sh_wpt = R.hdr[0][0];
	R.sh_rpt = R.hdr[0][1];
	R.sh_sem = semvalue();
}

/* byte offset in the data file of an address inside one of the mappings, or -1 */
static long data_off(const void *p)
{
	int k;
	for (k = 0; k < NMAP; k++) {
		if (R.data[k] && (const char *)p >= R.data[k] && (const char *)p < R.data[k] + (size_t)R.W * 8) {
			return (long)(((const char *)p - R.data[k]) % ((size_t)R.W * 4));
		}
	}
	return -1;
}

static int is_ring_sem(sem_t *s)
{
	return R.on && ((R.sem[0] && s == R.sem[0]) || (R.sem[1] && s == R.sem[1]));
}

#define VIRT (!sch_internal && sch_self() >= 0)

/* ------------------------------------------------------------------ diff after every step */
static void diff(void)
{
	uint32_t i;
	const uint32_t *d = (const uint32_t *)R.data[0];
	int sv;
	if (R.hdr[0][0] != R.sh_wpt) { R.sh_wpt = R.hdr[0][0]; printf("c hdr[0]=%u\n", R.sh_wpt); }
	if (R.hdr[0][1] != R.sh_rpt) { R.sh_rpt = R.hdr[0][1]; printf("c hdr[1]=%u\n", R.sh_rpt); }
	for (i = 0; i < R.W; i++) {
		if (d[i] != R.shadow[i]) {
			R.shadow[i] = d[i];
			printf("c d[%u]=%u\n", i, d[i]);
		}
	}
	sv = semvalue();
	if (sv != R.sh_sem) { R.sh_sem = sv; printf("c sem=%d\n", sv); }
	for (i = 0; i < (uint32_t)nwatch; i++) {
		if (memcmp(watch[i].copy, watch[i].addr, watch[i].len) != 0) {
			__real_memcpy(watch[i].copy, watch[i].addr, watch[i].len);
			printf("c ro %s changed\n", watch[i].name);
		}
	}
}

int rbc_enabled(int tid, const int *done)
{
	if (done[tid]) return 0;
	if (waiting[tid] && semvalue() <= 0) return 0;
	return 1;
}

void rbc_step(int tid)
{
	int sch[1];
	sch[0] = tid;
	(void)sch_run(sch, 1, 1);
	diff();
}

/* ------------------------------------------------------------------ atomics of the instrumented code */
int __tsan_atomic32_load(const volatile int *a, int mo)
{
	long off = VIRT ? data_off((const void *)a) : -1;
	if (off >= 0) {
		char b[64];
		snprintf(b, sizeof b, "AR d[%ld] mo=%d", off / 4, mo);
		sch_point(b);
	}
	return __atomic_load_n(a, __ATOMIC_SEQ_CST);
}

void __tsan_atomic32_store(volatile int *a, int v, int mo)
{
	long off = VIRT ? data_off((const void *)a) : -1;
	if (off >= 0) {
		char b[64];
		snprintf(b, sizeof b, "AW d[%ld] mo=%d", off / 4, mo);
		sch_point(b);
	}
	__atomic_store_n(a, v, __ATOMIC_SEQ_CST);
}

int __tsan_atomic32_fetch_add(volatile int *a, int v, int mo) { return __atomic_fetch_add(a, v, __ATOMIC_SEQ_CST); }
int __tsan_atomic32_fetch_sub(volatile int *a, int v, int mo) { return __atomic_fetch_sub(a, v, __ATOMIC_SEQ_CST); }
int __tsan_atomic32_exchange(volatile int *a, int v, int mo) { return __atomic_exchange_n(a, v, __ATOMIC_SEQ_CST); }
int __tsan_atomic32_compare_exchange_strong(volatile int *a, int *c, int v, int mo, int fmo)
{
	return __atomic_compare_exchange_n(a, c, v, 0, __ATOMIC_SEQ_CST, __ATOMIC_SEQ_CST);
}
void __tsan_atomic_thread_fence(int mo) { __atomic_thread_fence(__ATOMIC_SEQ_CST); }
void __tsan_atomic_signal_fence(int mo) { }

/* ------------------------------------------------------------------ memcpy */
void *__wrap_memcpy(void *dst, const void *src, size_t n)
{
	long od, os;
	size_t k;
	if (!R.on || !VIRT) return __real_memcpy(dst, src, n);
	od = data_off(dst);
	os = data_off(src);
	if (od < 0 && os < 0) return __real_memcpy(dst, src, n);
	for (k = 0; k < n; k++) {
		char b[64];
		if (od >= 0) snprintf(b, sizeof b, "WB b[%ld]", (long)((od + k) % ((size_t)R.W * 4)));
		else snprintf(b, sizeof b, "RB b[%ld]", (long)((os + k) % ((size_t)R.W * 4)));
		sch_point(b);
		((volatile char *)dst)[k] = ((const volatile char *)src)[k];
	}
	return dst;
}

/* ------------------------------------------------------------------ semaphore */
int __wrap_sem_post(sem_t *s)
{
	if (VIRT && is_ring_sem(s)) sch_point("post");
	return __real_sem_post(s);
}

int __wrap_sem_trywait(sem_t *s)
{
	if (VIRT && is_ring_sem(s)) sch_point("trywait");
	return __real_sem_trywait(s);
}

static int blocking_wait(sem_t *s)
{
	int t = sch_self(), rc;
	waiting[t] = 1;
	sch_point("wait");             /* the controller releases this thread only while the count is > 0 */
	waiting[t] = 0;
	rc = __real_sem_trywait(s);
	if (rc != 0) {
		printf("note blocking-wait-released-with-count-0 tid=%d\n", t);
	}
	return rc;
}

int __wrap_sem_wait(sem_t *s)
{
	if (VIRT && is_ring_sem(s)) return blocking_wait(s);
	return __real_sem_wait(s);
}

int __wrap_sem_timedwait(sem_t *s, const struct timespec *ts)
{
	if (VIRT && is_ring_sem(s)) return blocking_wait(s);   /* positive timeouts are not generated (virtual time is not modelled) */
	return __real_sem_timedwait(s, ts);
}
