/* C11 blackbox harness: drives the real logging blackbox (lib/log.c + lib/log_blackbox.c on top of the overwrite
 * ring of lib/ringbuffer.c, compiled from the working tree, ASan+UBSan) through the PUBLIC API
 *     qb_log_init / qb_log_ctl(QB_LOG_BLACKBOX, SIZE | MAX_LINE_LEN | ENABLED) / qb_log_filter_ctl /
 *     qb_log_from_external_source / qb_log_blackbox_write_to_file,
 * and reads every dump back the way qb_log_blackbox_print_from_file (tools/qb_blackbox) does:
 *     skip the 20-byte blackbox header, qb_rb_create_from_file, qb_rb_chunk_read until it fails.
 * (Sequential scripts on the bare overwrite ring use harness/h_rb.c.)
 *
 * What the blackbox layer does with the ring is observed hook-free with -Wl,--wrap on three calls that cross
 * object files: qb_rb_chunk_alloc, qb_rb_chunk_commit (log_blackbox.o -> ringbuffer.o) and qb_vsnprintf_serialize
 * (log_blackbox.o -> log_format.o; its answers are the ORACLE the model is fed with).  clock_gettime is wrapped to
 * a virtual clock so that the time stamp stored in each record is known.
 *
 * script lines (stdin):
 *   # case <n>                       qb_log_fini(); echo
 *   B <size> <maxline>               init + configure + enable the blackbox (maxline 0 = leave the default)
 *   L <seq> <lineno> <tags> <prio> <fnhex> <kind> <arg>
 *        kind t: format = text <arg hex> (no '%'), no arguments
 *        kind s: format = "%s", argument string <arg hex>
 *        kind d: format = "n=%d", argument int <arg decimal>
 *   D                                dump to a file and read it back
 *
 * ring commands (lower case; the "split" stage of props/C11.py - alloc / copy / commit as separate calls and waits with
 * ms_timeout != 0, for coq/RbOwSplitModel.v and coq/RbOwWaitModel.v; output format of harness/h_rb.c):
 *   o <S> <flags>      qb_rb_open(name, S, CREATE | flags)   flags letters o = OVERWRITE, n = NO_SEMAPHORE, - = none
 *   w <hex|->          qb_rb_chunk_write                                              -> r <ret> -
 *   a <rlen>           p = qb_rb_chunk_alloc(rb, rlen)            -> ra 0 (no q line)  |  r <-errno> - and q line when it fails
 *   f <hex|->          memcpy(p, bytes, len)   (skipped when the last alloc failed)   -> nothing
 *   c <len>            qb_rb_chunk_commit(rb, len)  (skipped, silently, when the last alloc failed) -> r <ret> -
 *   r <n> <ms>         qb_rb_chunk_read(rb, buf[n], n, ms)                            -> r <ret> <hex|->
 *   p <ms>             qb_rb_chunk_peek(rb, &ptr, ms)                                 -> r <ret> <hex|->
 *   x                  qb_rb_chunk_reclaim                                            -> r 0 -
 *   d                  qb_rb_write_to_file(rb, memfd), the file as hex words          -> d <w>.<w>. ...
 *   every command except a / f is followed by  q <space_free> <space_used> <chunks_used>
 *   (the wrapped clock is in the past, so a timed wait on a count of 0 returns at once with ETIMEDOUT)
 *
 * output lines:
 *   B ... (echo)
 *   b <rc size> <rc maxline> <rc filter> <rc enable>
 *   L ... (echo) / s <limit> <ret> <hex> (each serializer call) / a <len> <errno or 0> (alloc) /
 *   c <len> <hex> (commit: committed length, chunk bytes) / t <sec> <nsec> (the time stamp handed to the logger)
 *   w <rc> (qb_log_blackbox_write_to_file) / h <0|1> (blackbox file header as expected) /
 *   k <len> <hex> (each chunk read back) / e <rc> (the read that ended the loop) / k NULL (create_from_file failed)
 */
#define _GNU_SOURCE
#include "os_base.h"
#include <stdio.h>
#include <stdlib.h>
#include <string.h>
#include <stdarg.h>
#include <inttypes.h>
#include <unistd.h>
#include <fcntl.h>
#include <sched.h>
#include <time.h>
#include <sys/mount.h>
#include <sys/mman.h>
#include <qb/qblog.h>
#include <qb/qbrb.h>

#define READBACK_BUF 16384

static FILE *fo;
static int inited;
static int tracing;
static void *last_chunk;
static long vclock;
static struct timespec last_ts, alloc_ts;
static int dump_no;
static qb_ringbuffer_t *ring;
static void *ring_p;
static int ring_alloc_err;
static int ring_no;
static size_t ring_S;

static void puthex(const unsigned char *p, size_t n)
{
	static const char dig[] = "0123456789abcdef";
	size_t i;
	if (n == 0) {
		fputc('-', fo);
		return;
	}
	for (i = 0; i < n; i++) {
		fputc(dig[p[i] >> 4], fo);
		fputc(dig[p[i] & 15], fo);
	}
}

static size_t unhex(const char *h, unsigned char *out, size_t room)
{
	size_t n, i;
	if (h[0] == '-' || h[0] == 0) {
		return 0;
	}
	n = strlen(h) / 2;
	if (n > room) {
		n = room;
	}
	for (i = 0; i < n; i++) {
		unsigned v;
		sscanf(h + 2 * i, "%2x", &v);
		out[i] = (unsigned char)v;
	}
	return n;
}

/* ------------------------------------------------------------------ wrapped calls */
int __real_clock_gettime(clockid_t id, struct timespec *ts);
int __wrap_clock_gettime(clockid_t id, struct timespec *ts)
{
	(void)id;
	vclock++;
	ts->tv_sec = 1700000000L + vclock;
	ts->tv_nsec = (vclock * 1000003L) % 1000000000L;
	last_ts = *ts;
	return 0;
}

void *__real_qb_rb_chunk_alloc(struct qb_ringbuffer_s *rb, size_t len);
void *__wrap_qb_rb_chunk_alloc(struct qb_ringbuffer_s *rb, size_t len)
{
	void *p;
	int e;
	errno = 0;
	p = __real_qb_rb_chunk_alloc(rb, len);
	e = errno;
	if (tracing) {
		fprintf(fo, "a %zu %d\n", len, p ? 0 : e);
		last_chunk = p;
		alloc_ts = last_ts;
	}
	errno = e;
	return p;
}

int32_t __real_qb_rb_chunk_commit(struct qb_ringbuffer_s *rb, size_t len);
int32_t __wrap_qb_rb_chunk_commit(struct qb_ringbuffer_s *rb, size_t len)
{
	if (tracing) {
		fprintf(fo, "c %zu ", len);
		puthex(last_chunk, (last_chunk && len < (1u << 20)) ? len : 0);
		fputc('\n', fo);
	}
	return __real_qb_rb_chunk_commit(rb, len);
}

size_t __real_qb_vsnprintf_serialize(char *serialize, size_t max_len, const char *fmt, va_list ap);
size_t __wrap_qb_vsnprintf_serialize(char *serialize, size_t max_len, const char *fmt, va_list ap)
{
	size_t r = __real_qb_vsnprintf_serialize(serialize, max_len, fmt, ap);
	if (tracing) {
		/* the bytes [0, r) at the destination are what gets committed as the message, whoever wrote them */
		fprintf(fo, "s %zu %zu ", max_len, r);
		puthex((unsigned char *)serialize, r < (1u << 16) ? r : 0);
		fputc('\n', fo);
	}
	return r;
}

/* ------------------------------------------------------------------ operations */
static void fini(void)
{
	if (inited) {
		qb_log_fini();
		inited = 0;
	}
}

static void do_dump(void)
{
	char fn[128];
	ssize_t rc;
	int fd;
	unsigned char hdr[20];
	static const unsigned char want[20] = {
		0, 0, 0, 0, 0xBB, 0xCC, 0xBB, 0xCC, 0xCC, 0xBB, 0xCC, 0xBB, 2, 0, 0, 0, 0, 0, 0, 0
	};
	qb_ringbuffer_t *rb;
	unsigned char *buf;

	snprintf(fn, sizeof fn, "/dev/shm/vbbdump-%d-%d", (int)getpid(), dump_no++);
	rc = qb_log_blackbox_write_to_file(fn);
	fprintf(fo, "w %zd\n", rc);
	if (rc <= 0) {
		unlink(fn);
		return;
	}
	fd = open(fn, O_RDONLY);
	if (fd < 0 || read(fd, hdr, sizeof hdr) != (ssize_t)sizeof hdr) {
		fprintf(fo, "h 0\n");
		if (fd >= 0) close(fd);
		unlink(fn);
		return;
	}
	fprintf(fo, "h %d\n", memcmp(hdr, want, sizeof hdr) == 0);
	rb = qb_rb_create_from_file(fd, 0);
	if (rb == NULL) {
		/* without the private /dev/shm another process may hold the fixed name for a moment: try again */
		int tries;
		for (tries = 0; rb == NULL && tries < 100; tries++) {
			usleep(20000);
			lseek(fd, (off_t)sizeof hdr, SEEK_SET);
			rb = qb_rb_create_from_file(fd, 0);
		}
	}
	close(fd);
	unlink(fn);
	if (rb == NULL) {
		fprintf(fo, "k NULL\n");
		return;
	}
	buf = malloc(READBACK_BUF);
	for (;;) {
		ssize_t n = qb_rb_chunk_read(rb, buf, READBACK_BUF, 0);
		if (n < 0) {
			fprintf(fo, "e %zd\n", n);
			break;
		}
		fprintf(fo, "k %zd ", n);
		puthex(buf, (size_t)n);
		fputc('\n', fo);
	}
	free(buf);
	qb_rb_close(rb);
}

static void ring_query(void)
{
	if (ring) {
		fprintf(fo, "q %zd %zd %zd\n", qb_rb_space_free(ring), qb_rb_space_used(ring), qb_rb_chunks_used(ring));
	}
}

static void ring_close(void)
{
	if (ring) {
		qb_rb_close(ring);
		ring = NULL;
	}
	ring_p = NULL;
	ring_alloc_err = 0;
}

/* returns 1 when the line was a ring command */
static int ring_command(char c, char *arg)
{
	static unsigned char *buf;
	static size_t bufsz;
	if (strchr("owafcrpxd", c) == NULL) {
		return 0;
	}
	if (bufsz == 0) {
		bufsz = 1 << 17;
		buf = malloc(bufsz);
	}
	if (c == 'o') {
		char name[128], fl[32] = "-";
		unsigned long S = 0;
		uint32_t flags = QB_RB_FLAG_CREATE;
		ring_close();
		sscanf(arg, "%lu %31s", &S, fl);
		if (strchr(fl, 'o')) flags |= QB_RB_FLAG_OVERWRITE;
		if (strchr(fl, 'n')) flags |= QB_RB_FLAG_NO_SEMAPHORE;
		snprintf(name, sizeof name, "/dev/shm/vrbs-%d-%d", (int)getpid(), ring_no++);
		ring = qb_rb_open(name, S, flags, 0);
		ring_S = S;
		fprintf(fo, "o %d\n", ring ? 1 : 0);
		ring_query();
		return 1;
	}
	if (!ring) {
		fprintf(fo, "r noring\n");
		return 1;
	}
	if (c == 'w') {
		size_t n = unhex(arg, buf, bufsz);
		fprintf(fo, "r %zd -\n", qb_rb_chunk_write(ring, buf, n));
	} else if (c == 'a') {
		unsigned long rlen = strtoul(arg, NULL, 10);
		errno = 0;
		ring_p = qb_rb_chunk_alloc(ring, rlen);
		ring_alloc_err = ring_p ? 0 : errno;
		if (ring_p) {
			fprintf(fo, "ra 0\n");
			return 1;
		}
		fprintf(fo, "r %d -\n", -ring_alloc_err);      /* reported like a failed composite operation */
	} else if (c == 'f') {
		size_t n = unhex(arg, buf, bufsz);
		if (ring_p) {
			memcpy(ring_p, buf, n);
		}
		return 1;
	} else if (c == 'c') {
		unsigned long len = strtoul(arg, NULL, 10);
		if (ring_p == NULL) {
			return 1;                               /* the alloc failed and said so */
		}
		fprintf(fo, "r %d -\n", qb_rb_chunk_commit(ring, len));
		ring_p = NULL;
	} else if (c == 'r') {
		long n = 0, ms = 0;
		unsigned char *out;
		ssize_t res;
		size_t i, from;
		int clobber = 0;
		sscanf(arg, "%ld %ld", &n, &ms);
		out = malloc(n ? n : 1);
		memset(out, 0x5A, n ? n : 1);
		res = qb_rb_chunk_read(ring, out, n, (int32_t)ms);
		from = (res > 0) ? (size_t)res : 0;
		for (i = from; i < (size_t)n; i++) {
			if (out[i] != 0x5A) clobber = 1;
		}
		fprintf(fo, "r %zd ", res);
		puthex(out, (res > 0 && res <= n) ? (size_t)res : 0);
		fprintf(fo, "%s\n", clobber ? " CLOBBER" : "");
		free(out);
	} else if (c == 'p') {
		void *ptr = NULL;
		ssize_t res = qb_rb_chunk_peek(ring, &ptr, (int32_t)strtol(arg, NULL, 10));
		fprintf(fo, "r %zd ", res);
		puthex(ptr, (res > 0 && ptr && (size_t)res <= ring_S + 2 * 4096) ? (size_t)res : 0);
		fprintf(fo, "\n");
	} else if (c == 'x') {
		qb_rb_chunk_reclaim(ring);
		fprintf(fo, "r 0 -\n");
	} else if (c == 'd') {
		int fd = memfd_create("vrbsdump", 0);
		ssize_t res = qb_rb_write_to_file(ring, fd);
		uint32_t w;
		fprintf(fo, "d ");
		if (res > 0) {
			lseek(fd, 0, SEEK_SET);
			while (read(fd, &w, 4) == 4) {
				fprintf(fo, "%x.", w);
			}
		} else {
			fprintf(fo, "error%zd", res);
		}
		fprintf(fo, "\n");
		close(fd);
	}
	ring_query();
	return 1;
}

int main(void)
{
	char *line = NULL;
	size_t cap = 0;
	ssize_t got;
	int saved = dup(1);
	int nul = open("/dev/null", O_WRONLY);

	/* a private /dev/shm: qb_rb_create_from_file uses the FIXED name "create_from_file" (O_EXCL), which would
	 * collide with any other process reading a dump at the same moment */
	if (unshare(CLONE_NEWNS) == 0) {
		(void)mount("none", "/", NULL, MS_REC | MS_PRIVATE, NULL);
		if (mount("tmpfs", "/dev/shm", "tmpfs", 0, "size=256m") != 0) {
			fprintf(stderr, "h_rbow: private /dev/shm not available (mount)\n");
		}
	} else {
		fprintf(stderr, "h_rbow: private /dev/shm not available (unshare)\n");
	}

	/* the library's print_header() writes to stdout, its own messages go to stderr: keep both away from our log */
	dup2(nul, 1);
	fo = fdopen(saved, "w");
	setvbuf(fo, NULL, _IOFBF, 1 << 16);

	while ((got = getline(&line, &cap, stdin)) > 0) {
		char c = line[0];
		char *arg = line + 1;
		while (got > 0 && (line[got - 1] == '\n' || line[got - 1] == '\r')) {
			line[--got] = 0;
		}
		while (*arg == ' ') {
			arg++;
		}
		if (ring_command(c, arg)) {
			continue;
		}
		if (c == '#') {
			fini();
			ring_close();
			vclock = 0;
			fprintf(fo, "%s\n", line);
			fflush(fo);
		} else if (c == 'B') {
			long size = 0, maxline = 0;
			int r1, r2 = 0, r3, r4;
			sscanf(arg, "%ld %ld", &size, &maxline);
			fprintf(fo, "%s\n", line);
			fini();
			qb_log_init("vbb", LOG_USER, LOG_EMERG);
			inited = 1;
			qb_log_ctl(QB_LOG_SYSLOG, QB_LOG_CONF_ENABLED, QB_FALSE);
			r1 = qb_log_ctl(QB_LOG_BLACKBOX, QB_LOG_CONF_SIZE, (int32_t)size);
			if (maxline != 0) {
				r2 = qb_log_ctl(QB_LOG_BLACKBOX, QB_LOG_CONF_MAX_LINE_LEN, (int32_t)maxline);
			}
			/* only our own call sites: libqb's internal messages (ringbuffer.c ...) stay out of the blackbox */
			r3 = qb_log_filter_ctl(QB_LOG_BLACKBOX, QB_LOG_FILTER_ADD, QB_LOG_FILTER_FILE, "vbb.c", LOG_TRACE);
			r4 = qb_log_ctl(QB_LOG_BLACKBOX, QB_LOG_CONF_ENABLED, QB_TRUE);
			fprintf(fo, "b %d %d %d %d\n", r1, r2, r3, r4);
		} else if (c == 'L') {
			unsigned long seq, lineno, tags, prio;
			static char fnhex[2100], kind[8], ahex[20000];
			static unsigned char fn[1100], text[9100];
			size_t nf, nt;
			if (sscanf(arg, "%lu %lu %lu %lu %2099s %7s %19999s", &seq, &lineno, &tags, &prio, fnhex, kind, ahex) != 7) {
				continue;
			}
			fprintf(fo, "%s\n", line);
			if (!inited) {
				continue;
			}
			nf = unhex(fnhex, fn, sizeof fn - 1);
			fn[nf] = 0;
			tracing = 1;
			alloc_ts.tv_sec = 0;
			alloc_ts.tv_nsec = 0;
			if (kind[0] == 't') {
				nt = unhex(ahex, text, sizeof text - 1);
				text[nt] = 0;
				qb_log_from_external_source((char *)fn, "vbb.c", (char *)text, (uint8_t)prio, (uint32_t)lineno,
							    (uint32_t)tags);
			} else if (kind[0] == 's') {
				nt = unhex(ahex, text, sizeof text - 1);
				text[nt] = 0;
				qb_log_from_external_source((char *)fn, "vbb.c", "%s", (uint8_t)prio, (uint32_t)lineno,
							    (uint32_t)tags, (char *)text);
			} else {
				qb_log_from_external_source((char *)fn, "vbb.c", "n=%d", (uint8_t)prio, (uint32_t)lineno,
							    (uint32_t)tags, atoi(ahex));
			}
			tracing = 0;
			fprintf(fo, "t %ld %ld\n", (long)alloc_ts.tv_sec, (long)alloc_ts.tv_nsec);
		} else if (c == 'D') {
			fprintf(fo, "D\n");
			if (inited) {
				do_dump();
			}
		}
	}
	fini();
	ring_close();
	fflush(fo);
	return 0;
}
