/* Controlled scheduler + tsan-stub runtime; see sched_rt.h.  Compiled WITHOUT -fsanitize=thread.
 * Baton passing uses raw futexes so that --wrap'ped pthread/sem entry points are never re-entered
 * from the runtime; its own pthread_create/join calls are bracketed by sch_internal. */
#define _GNU_SOURCE
#include "sched_rt.h"
#include <pthread.h>
#include <stdio.h>
#include <stdlib.h>
#include <string.h>
#include <stdarg.h>
#include <errno.h>
#include <stdint.h>
#include <unistd.h>
#include <sys/syscall.h>
#include <linux/futex.h>

#define MAXT 16
#define MAXR 256
#define MAXL 32

enum { K_NONE, K_START, K_POINT, K_ACCESS, K_LOCK, K_TRYLOCK, K_UNLOCK, K_SEMPOST, K_SEMWAIT, K_SEMVAL,
       K_CREATE, K_JOIN, K_EXIT };
enum { T_UNUSED, T_STARTING, T_PARKED, T_RUNNING, T_FINISHED };

struct vt {
	pthread_t th;
	int state;              /* futex word while starting */
	int go;                 /* futex word: 1 = released by the controller */
	int kind;
	void *obj;
	int arg;
	int result;
	char label[160];
	sch_fn fn;
	void *farg;
	int nlocks;
	int tid;
};
struct region { char name[40]; char *addr; size_t len; size_t elsz; int freed; int used; };
struct vlock { void *addr; int owner; int used; };
struct vsem { void *addr; int count; int used; };

static struct vt vts[MAXT];
static int nvt;
static struct region regs[MAXR];
static struct vlock locks[MAXL];
static struct vsem sems[MAXL];
static int evt;                 /* futex word: bumped whenever the running thread parks or finishes */
static __thread struct vt *cur;
__thread int sch_internal;      /* set around the runtime's own pthread calls (see sched_wrap_*.c) */
int sch_verbose;

static void fwait(int *w, int v) { syscall(SYS_futex, w, FUTEX_WAIT, v, NULL, NULL, 0); }
static void fwake(int *w) { syscall(SYS_futex, w, FUTEX_WAKE, 64, NULL, NULL, 0); }

void sch_note(const char *fmt, ...)
{
	va_list ap;
	va_start(ap, fmt);
	vprintf(fmt, ap);
	va_end(ap);
	putchar('\n');
}

int sch_self(void) { return cur ? cur->tid : -1; }
int sch_holds_lock(void) { return cur ? cur->nlocks > 0 : 0; }

/* ------------------------------------------------------------------ tables */
static struct vlock *lock_of(void *a)
{
	int i;
	for (i = 0; i < MAXL; i++) if (locks[i].used && locks[i].addr == a) return &locks[i];
	for (i = 0; i < MAXL; i++) if (!locks[i].used) { locks[i].used = 1; locks[i].addr = a; locks[i].owner = -1; return &locks[i]; }
	fprintf(stderr, "sched_rt: too many locks\n"); abort();
}
static struct vsem *sem_of(void *a)
{
	int i;
	for (i = 0; i < MAXL; i++) if (sems[i].used && sems[i].addr == a) return &sems[i];
	for (i = 0; i < MAXL; i++) if (!sems[i].used) { sems[i].used = 1; sems[i].addr = a; sems[i].count = 0; return &sems[i]; }
	fprintf(stderr, "sched_rt: too many semaphores\n"); abort();
}
void sch_lock_forget(void *l) { int i; for (i = 0; i < MAXL; i++) if (locks[i].used && locks[i].addr == l) locks[i].used = 0; }
void sch_sem_forget(void *s) { int i; for (i = 0; i < MAXL; i++) if (sems[i].used && sems[i].addr == s) sems[i].used = 0; }
void sch_sem_init(void *s, unsigned v) { sem_of(s)->count = (int)v; }

void sch_region(const char *name, void *addr, size_t len, size_t elsz)
{
	int i;
	for (i = 0; i < MAXR; i++) {
		if (!regs[i].used) {
			regs[i].used = 1; regs[i].freed = 0; regs[i].addr = addr; regs[i].len = len; regs[i].elsz = elsz;
			snprintf(regs[i].name, sizeof regs[i].name, "%s", name);
			return;
		}
	}
	fprintf(stderr, "sched_rt: too many regions\n"); abort();
}
void sch_region_del(void *addr) { int i; for (i = 0; i < MAXR; i++) if (regs[i].used && regs[i].addr == (char *)addr) regs[i].used = 0; }
void sch_freed(void *addr) { int i; for (i = 0; i < MAXR; i++) if (regs[i].used && !regs[i].freed && regs[i].addr == (char *)addr) regs[i].freed = 1; }

static struct region *region_of(void *a)
{
	int i;
	struct region *hit = NULL;
	for (i = 0; i < MAXR; i++) {
		if (regs[i].used && (char *)a >= regs[i].addr && (char *)a < regs[i].addr + regs[i].len) {
			if (!regs[i].freed) return &regs[i];   /* a live region wins over a stale one at a reused address */
			hit = &regs[i];
		}
	}
	return hit;
}

/* ------------------------------------------------------------------ parking */
static void park(struct vt *t, int kind, void *obj, int arg, const char *label)
{
	t->kind = kind; t->obj = obj; t->arg = arg;
	snprintf(t->label, sizeof t->label, "%s", label);
	__atomic_store_n(&t->state, T_PARKED, __ATOMIC_RELEASE);
	if (kind == K_START) {
		fwake(&t->state);
	} else {
		__atomic_add_fetch(&evt, 1, __ATOMIC_RELEASE);
		fwake(&evt);
	}
	while (__atomic_load_n(&t->go, __ATOMIC_ACQUIRE) == 0) fwait(&t->go, 0);
	__atomic_store_n(&t->go, 0, __ATOMIC_RELAXED);
}

static void finish(struct vt *t)
{
	__atomic_store_n(&t->state, T_FINISHED, __ATOMIC_RELEASE);
	__atomic_add_fetch(&evt, 1, __ATOMIC_RELEASE);
	fwake(&evt);
}

static void *vt_main(void *p)
{
	struct vt *t = p;
	cur = t;
	park(t, K_START, NULL, 0, "start");
	t->fn(t->farg);
	finish(t);
	return NULL;
}

static int new_thread(sch_fn fn, void *arg)
{
	struct vt *t;
	int rc;
	if (nvt >= MAXT) { fprintf(stderr, "sched_rt: too many threads\n"); abort(); }
	t = &vts[nvt];
	memset(t, 0, sizeof *t);
	t->tid = nvt++;
	t->fn = fn; t->farg = arg; t->state = T_STARTING;
	sch_internal++;
	rc = pthread_create(&t->th, NULL, vt_main, t);
	sch_internal--;
	if (rc != 0) { fprintf(stderr, "sched_rt: pthread_create failed\n"); abort(); }
	while (__atomic_load_n(&t->state, __ATOMIC_ACQUIRE) == T_STARTING) fwait(&t->state, T_STARTING);
	return t->tid;
}

int sch_spawn(sch_fn fn, void *arg) { return new_thread(fn, arg); }

void sch_reset(void)
{
	int i;
	for (i = 0; i < nvt; i++) {
		if (vts[i].state == T_FINISHED) {
			sch_internal++;
			pthread_join(vts[i].th, NULL);
			sch_internal--;
		}
		vts[i].state = T_UNUSED;
	}
	nvt = 0;
	memset(regs, 0, sizeof regs);
	memset(locks, 0, sizeof locks);
	memset(sems, 0, sizeof sems);
}

/* ------------------------------------------------------------------ controller */
static int enabled(struct vt *t)
{
	if (t->state != T_PARKED) return 0;
	switch (t->kind) {
	case K_LOCK: return lock_of(t->obj)->owner < 0;
	case K_SEMWAIT: return sem_of(t->obj)->count > 0;
	case K_JOIN: return vts[t->arg].state == T_FINISHED;
	default: return 1;
	}
}

static void grant(struct vt *t)
{
	int e;
	switch (t->kind) {                     /* the effect of the operation on the virtual objects */
	case K_LOCK: lock_of(t->obj)->owner = t->tid; t->nlocks++; break;
	case K_TRYLOCK:
		if (lock_of(t->obj)->owner < 0) { lock_of(t->obj)->owner = t->tid; t->nlocks++; t->result = 0; }
		else t->result = EBUSY;
		break;
	case K_UNLOCK:
		if (lock_of(t->obj)->owner != t->tid) sch_note("note unlock-of-a-lock-not-held tid=%d", t->tid);
		lock_of(t->obj)->owner = -1; if (t->nlocks > 0) t->nlocks--; break;
	case K_SEMPOST: sem_of(t->obj)->count++; break;
	case K_SEMWAIT: sem_of(t->obj)->count--; break;
	case K_SEMVAL: t->result = sem_of(t->obj)->count; break;
	default: break;
	}
	if (t->kind == K_TRYLOCK || t->kind == K_SEMVAL) sch_note("s %d %s = %d", t->tid, t->label, t->result);
	else sch_note("s %d %s", t->tid, t->label);
	e = __atomic_load_n(&evt, __ATOMIC_ACQUIRE);
	__atomic_store_n(&t->state, T_RUNNING, __ATOMIC_RELEASE);
	__atomic_store_n(&t->go, 1, __ATOMIC_RELEASE);
	fwake(&t->go);
	while (__atomic_load_n(&evt, __ATOMIC_ACQUIRE) == e) fwait(&evt, e);
}

int sch_run(const int *schedule, int n, int max_steps)
{
	int pos = 0, steps = 0, last = -1;
	for (;;) {
		int i, any_enabled = 0, all_done = 1, pick = -1;
		for (i = 0; i < nvt; i++) {
			if (vts[i].state != T_FINISHED) all_done = 0;
			if (enabled(&vts[i])) any_enabled = 1;
		}
		if (all_done) return 0;
		if (!any_enabled) {
			for (i = 0; i < nvt; i++)
				if (vts[i].state == T_PARKED) sch_note("blocked %d %s", i, vts[i].label);
			return 1;
		}
		if (steps >= max_steps) return 2;
		while (pos < n && pick < 0) {
			int t = schedule[pos++];
			if (t >= 0 && t < nvt && enabled(&vts[t])) pick = t;
		}
		if (pick < 0) {
			if (last >= 0 && last < nvt && enabled(&vts[last])) pick = last;
			else for (i = 0; i < nvt && pick < 0; i++) if (enabled(&vts[i])) pick = i;
		}
		last = pick;
		steps++;
		grant(&vts[pick]);
	}
}

/* ------------------------------------------------------------------ operations of virtual threads */
void sch_point(const char *label) { if (cur) park(cur, K_POINT, NULL, 0, label); }

static int lock_id(void *l) { return (int)(lock_of(l) - locks); }
static int sem_id(void *s) { return (int)(sem_of(s) - sems); }

void sch_lock(void *l) { char b[64]; snprintf(b, sizeof b, "lock L%d", lock_id(l)); park(cur, K_LOCK, l, 0, b); }
int sch_trylock(void *l) { char b[64]; snprintf(b, sizeof b, "trylock L%d", lock_id(l)); park(cur, K_TRYLOCK, l, 0, b); return cur->result; }
void sch_unlock(void *l) { char b[64]; snprintf(b, sizeof b, "unlock L%d", lock_id(l)); park(cur, K_UNLOCK, l, 0, b); }
void sch_sem_post(void *s) { char b[64]; snprintf(b, sizeof b, "post S%d", sem_id(s)); park(cur, K_SEMPOST, s, 0, b); }
void sch_sem_wait(void *s) { char b[64]; snprintf(b, sizeof b, "wait S%d", sem_id(s)); park(cur, K_SEMWAIT, s, 0, b); }
int sch_sem_value(void *s) { char b[64]; snprintf(b, sizeof b, "getvalue S%d", sem_id(s)); park(cur, K_SEMVAL, s, 0, b); return cur->result; }

int sch_thread_create(sch_fn fn, void *arg)
{
	park(cur, K_CREATE, NULL, 0, "create");
	return new_thread(fn, arg);
}
void sch_thread_join(int tid) { char b[64]; snprintf(b, sizeof b, "join T%d", tid); park(cur, K_JOIN, NULL, tid, b); }
void sch_thread_exit(void)
{
	struct vt *t = cur;
	park(t, K_EXIT, NULL, 0, "exit");
	finish(t);
	sch_internal++;
	pthread_exit(NULL);
}

/* ------------------------------------------------------------------ tsan entry points */
static void mem_access(void *a, int size, int wr)
{
	struct region *r;
	char b[128];
	size_t off;
	if (!cur) return;
	r = region_of(a);
	if (!r) return;
	off = (size_t)((char *)a - r->addr);
	if (r->elsz) snprintf(b, sizeof b, "%c %s[%zu]", wr ? 'W' : 'R', r->name, off / r->elsz);
	else if (off) snprintf(b, sizeof b, "%c %s+%zu", wr ? 'W' : 'R', r->name, off);
	else snprintf(b, sizeof b, "%c %s", wr ? 'W' : 'R', r->name);
	if (cur->nlocks == 0) {
		park(cur, K_ACCESS, a, 0, b);
		r = region_of(a);                 /* the region may have been freed while we were parked */
	} else if (sch_verbose) {
		sch_note("a %d %s", cur->tid, b);
	}
	if (r && r->freed) sch_note("uaf %d %s", cur->tid, b);
}

void __tsan_init(void) {}
void __tsan_func_entry(void *pc) {}
void __tsan_func_exit(void) {}
void __tsan_read1(void *a) { mem_access(a, 1, 0); }
void __tsan_read2(void *a) { mem_access(a, 2, 0); }
void __tsan_read4(void *a) { mem_access(a, 4, 0); }
void __tsan_read8(void *a) { mem_access(a, 8, 0); }
void __tsan_read16(void *a) { mem_access(a, 16, 0); }
void __tsan_write1(void *a) { mem_access(a, 1, 1); }
void __tsan_write2(void *a) { mem_access(a, 2, 1); }
void __tsan_write4(void *a) { mem_access(a, 4, 1); }
void __tsan_write8(void *a) { mem_access(a, 8, 1); }
void __tsan_write16(void *a) { mem_access(a, 16, 1); }
void __tsan_unaligned_read2(void *a) { mem_access(a, 2, 0); }
void __tsan_unaligned_read4(void *a) { mem_access(a, 4, 0); }
void __tsan_unaligned_read8(void *a) { mem_access(a, 8, 0); }
void __tsan_unaligned_write2(void *a) { mem_access(a, 2, 1); }
void __tsan_unaligned_write4(void *a) { mem_access(a, 4, 1); }
void __tsan_unaligned_write8(void *a) { mem_access(a, 8, 1); }
void __tsan_read_range(void *a, long n) { mem_access(a, (int)n, 0); }
void __tsan_write_range(void *a, long n) { mem_access(a, (int)n, 1); }
void __tsan_vptr_update(void **a, void *v) {}
void __tsan_vptr_read(void **a) {}
