/* C16 harness, sequential part: control histories on the real logging code (lib/log.c, lib/log_thread.c of the
 * working tree, ASan+UBSan).  lib/log_thread.c is part of this translation unit (by inclusion) so that the
 * harness can wait for the worker thread to become quiescent between two calls.
 *
 * Every case runs in a forked child, i.e. from the state of a freshly started program (all statics of
 * log.c / log_thread.c as at program start) - what the model calls kinit.  A child that dies (sanitizer
 * report, signal) is reported as "crash <status>" followed by the first lines of its stderr ("san ...").
 *
 * script (stdin), k = index of a dynamic target slot (pos = QB_LOG_TARGET_DYNAMIC_START + k):
 *   # case <n>
 *   I            qb_log_init (+ syslog disabled)               only when not initialised (else ignored)
 *   F            qb_log_fini
 *   O            qb_log_custom_open(logger, close) + catch-all filter      only when initialised
 *   X <k>        qb_log_custom_close(pos)
 *   E <k> <0|1>  qb_log_ctl(pos, QB_LOG_CONF_ENABLED, b)
 *   T <k> <0|1>  qb_log_ctl(pos, QB_LOG_CONF_THREADED, b)
 *   C <k>        qb_log_ctl(pos, QB_LOG_CONF_EXTENDED, 1)
 *   S            qb_log_thread_start
 *   L <m>        log message number m through one call site          only when initialised
 * output per executed op:  "op <line>", then "w <k> <m> <T|S>" per logger callback (T = called by another thread
 * than the caller of the API), "close <k>" per close callback, then "r <rc>".
 */
#include "os_base.h"
#include <stdio.h>
#include <stdlib.h>
#include <string.h>
#include <errno.h>
#include <unistd.h>
#include <pthread.h>
#include <sys/wait.h>
#include <qb/qbdefs.h>
#include <qb/qblog.h>
#include "../lib/log_thread.c"

static int inited;
static int worker_alive;
static pthread_t main_thread;

#define MAXEV 4096
static char evbuf[MAXEV][48];
static int nev;
static pthread_mutex_t evlock = PTHREAD_MUTEX_INITIALIZER;

static void ev(const char *fmt, long a, long b, const char *c)
{
	pthread_mutex_lock(&evlock);
	if (nev < MAXEV) {
		snprintf(evbuf[nev], sizeof evbuf[0], fmt, a, b, c);
		nev++;
	}
	pthread_mutex_unlock(&evlock);
}

static void flush_ev(void)
{
	int i;
	pthread_mutex_lock(&evlock);
	for (i = 0; i < nev; i++) puts(evbuf[i]);
	nev = 0;
	pthread_mutex_unlock(&evlock);
}

static void logger(int32_t t, struct qb_log_callsite *cs, struct timespec *ts, const char *msg)
{
	(void)cs; (void)ts;
	ev("w %ld %ld %s", (long)t - QB_LOG_TARGET_DYNAMIC_START, msg[0] == 'm' ? atol(msg + 1) : -1,
	   pthread_equal(pthread_self(), main_thread) ? "S" : "T");
}

static void closer(int32_t t)
{
	ev("close %ld", (long)t - QB_LOG_TARGET_DYNAMIC_START, 0, "");
}

/* wait until the worker has written everything queued (it writes while holding the lock) */
static void quiesce(void)
{
	int i;
	if (!worker_alive) return;
	for (i = 0; i < 100000; i++) {
		int empty;
		(void)qb_thread_lock(logt_wthread_lock);
		empty = qb_list_empty(&logt_print_finished_records);
		(void)qb_thread_unlock(logt_wthread_lock);
		if (empty) return;
		usleep(50);
	}
	puts("note quiesce-timeout");
}

static void do_line(char *line)
{
	long a = 0, b = 0;
	int32_t rc = 0;
	int pos;
	sscanf(line + 1, "%ld %ld", &a, &b);
	pos = QB_LOG_TARGET_DYNAMIC_START + (int)a;
	switch (line[0]) {
	case 'I':
		if (inited) return;
		printf("op %s\n", line);
		qb_log_init("vlogthr", LOG_USER, LOG_EMERG);
		(void)qb_log_ctl(QB_LOG_SYSLOG, QB_LOG_CONF_ENABLED, QB_FALSE);
		inited = 1;
		break;
	case 'F':
		printf("op %s\n", line);
		fflush(stdout);
		qb_log_fini();
		if (inited) worker_alive = 0;        /* an uninitialised system's qb_log_fini returns at once */
		inited = 0;
		break;
	case 'O':
		if (!inited) return;
		printf("op %s\n", line);
		rc = qb_log_custom_open(logger, closer, NULL, NULL);
		if (rc >= 0) {
			(void)qb_log_filter_ctl(rc, QB_LOG_FILTER_ADD, QB_LOG_FILTER_FILE, "*", LOG_TRACE);
		}
		break;
	case 'X':
		printf("op %s\n", line);
		fflush(stdout);
		qb_log_custom_close(pos);
		break;
	case 'E':
		printf("op %s\n", line);
		fflush(stdout);
		rc = qb_log_ctl(pos, QB_LOG_CONF_ENABLED, (int32_t)b);
		break;
	case 'T':
		printf("op %s\n", line);
		fflush(stdout);
		rc = qb_log_ctl(pos, QB_LOG_CONF_THREADED, (int32_t)b);
		break;
	case 'C':
		printf("op %s\n", line);
		fflush(stdout);
		rc = qb_log_ctl(pos, QB_LOG_CONF_EXTENDED, QB_TRUE);
		break;
	case 'S': {
		int was = wthread_active;
		printf("op %s\n", line);
		fflush(stdout);
		rc = qb_log_thread_start();
		if (rc == 0 && !was) worker_alive = 1;
		break;
	}
	case 'L': {
		struct qb_log_callsite *cs;
		if (!inited) return;
		printf("op %s\n", line);
		fflush(stdout);
		cs = qb_log_callsite_get(__func__, __FILE__, "m%ld", LOG_INFO, 100, 0);
		qb_log_real_(cs, a);
		break;
	}
	default:
		return;
	}
	quiesce();
	flush_ev();
	printf("r %d\n", rc);
	fflush(stdout);
}

#define MAXCASE (1 << 20)
static char casebuf[MAXCASE];

static void run_child(void)
{
	char *p = casebuf;
	main_thread = pthread_self();
	while (*p) {
		char *e = strchr(p, '\n');
		if (e) *e = 0;
		do_line(p);
		if (!e) break;
		p = e + 1;
	}
	fflush(stdout);
	_exit(0);
}

static void run_case(void)
{
	int pfd[2];
	pid_t pid;
	int status = 0;
	char errbuf[8192];
	ssize_t n, tot = 0;
	fflush(stdout);
	if (pipe(pfd) != 0) { perror("pipe"); exit(2); }
	pid = fork();
	if (pid == 0) {
		close(pfd[0]);
		dup2(pfd[1], 2);
		close(pfd[1]);
		run_child();
	}
	close(pfd[1]);
	while ((n = read(pfd[0], errbuf + tot, sizeof errbuf - 1 - tot)) > 0) {
		tot += n;
		if (tot >= (ssize_t)sizeof errbuf - 1) {
			char sink[4096];
			while (read(pfd[0], sink, sizeof sink) > 0) { }
			break;
		}
	}
	close(pfd[0]);
	errbuf[tot] = 0;
	waitpid(pid, &status, 0);
	if (status != 0) {
		char *p = errbuf;
		int lines = 0;
		printf("crash %d\n", WIFEXITED(status) ? WEXITSTATUS(status) : 1000 + WTERMSIG(status));
		while (*p && lines < 14) {
			char *e = strchr(p, '\n');
			if (e) *e = 0;
			if (strstr(p, "ERROR") || strstr(p, "runtime error") || strstr(p, " in qb_") || strstr(p, "SUMMARY")) {
				printf("san %s\n", p);
				lines++;
			}
			if (!e) break;
			p = e + 1;
		}
	}
	fflush(stdout);
}

int main(void)
{
	static char line[1 << 12];
	size_t used = 0;
	int have = 0;
	setvbuf(stdout, NULL, _IOFBF, 1 << 16);
	while (fgets(line, sizeof line, stdin)) {
		if (line[0] == '#') {
			if (have) run_case();
			used = 0;
			casebuf[0] = 0;
			have = 1;
			fputs(line, stdout);
			continue;
		}
		if (have && used + strlen(line) + 1 < MAXCASE) {
			memcpy(casebuf + used, line, strlen(line) + 1);
			used += strlen(line);
		}
	}
	if (have) run_case();
	fflush(stdout);
	return 0;
}
