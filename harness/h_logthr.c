/* C16 harness, sequential part: control histories on the real logging code (lib/log.c, lib/log_thread.c of the
 * working tree, ASan+UBSan).  lib/log_thread.c is part of this translation unit (by inclusion) so that the
 * harness can wait for the worker thread to become quiescent between two calls.
 *
 * Every case runs in a forked child, i.e. from the state of a freshly started program (all statics of
 * log.c / log_thread.c as at program start) - what the model calls kinit.  A child that dies (sanitizer
 * report, signal) is reported as "crash <status>" followed by the first lines of its stderr ("san ...").
 *
 * script (stdin), k = index of a dynamic target slot (pos = QB_LOG_TARGET_DYNAMIC_START + k):
 *   # case <n>
 *   I            qb_log_init (+ syslog disabled)               only when not initialised (else ignored)
 *   F            qb_log_fini
 *   O            qb_log_custom_open(logger, close) + catch-all filter      only when initialised
 *   X <k>        qb_log_custom_close(pos)
 *   E <k> <0|1>  qb_log_ctl(pos, QB_LOG_CONF_ENABLED, b)
 *   T <k> <0|1>  qb_log_ctl(pos, QB_LOG_CONF_THREADED, b)
 *   C <k>        qb_log_ctl(pos, QB_LOG_CONF_EXTENDED, 1)
 *   S            qb_log_thread_start
 *   L <m>        log message number m through one call site          only when initialised
 * output per executed op:  "op <line>", then "w <k> <m> <T|S>" per logger callback (T = called by another thread
 * than the caller of the API), "close <k>" per close callback, then "r <rc>".
 */
#include "os_base.h"
#include <stdio.h>
#include <stdlib.h>
#include <string.h>
#include <errno.h>
#include <unistd.h>
#include <pthread.h>
#include <sys/wait.h>
#include <qb/qbdefs.h>
#include <qb/qblog.h>
#include "../lib/log_thread.c"

#define MAXCASE (1 << 20)
static char casebuf[MAXCASE];

#ifndef LOGTHR_CONC
static int inited;
static int worker_alive;
static pthread_t main_thread;

#define MAXEV 4096
static char evbuf[MAXEV][48];
static int nev;
static pthread_mutex_t evlock = PTHREAD_MUTEX_INITIALIZER;

static void ev(const char *fmt, long a, long b, const char *c)
{
	pthread_mutex_lock(&evlock);
	if (nev < MAXEV) {
		snprintf(evbuf[nev], sizeof evbuf[0], fmt, a, b, c);
		nev++;
	}
	pthread_mutex_unlock(&evlock);
}

static void flush_ev(void)
{
	int i;
	pthread_mutex_lock(&evlock);
	for (i = 0; i < nev; i++) puts(evbuf[i]);
	nev = 0;
	pthread_mutex_unlock(&evlock);
}

static void logger(int32_t t, struct qb_log_callsite *cs, struct timespec *ts, const char *msg)
{
	(void)cs; (void)ts;
	ev("w %ld %ld %s", (long)t - QB_LOG_TARGET_DYNAMIC_START, msg[0] == 'm' ? atol(msg + 1) : -1,
	   pthread_equal(pthread_self(), main_thread) ? "S" : "T");
}

static void closer(int32_t t)
{
	ev("close %ld", (long)t - QB_LOG_TARGET_DYNAMIC_START, 0, "");
}

/* wait until the worker has written everything queued (it writes while holding the lock) */
static void quiesce(void)
{
	int i;
	if (!worker_alive) return;
	for (i = 0; i < 100000; i++) {
		int empty;
		(void)qb_thread_lock(logt_wthread_lock);
		empty = qb_list_empty(&logt_print_finished_records);
		(void)qb_thread_unlock(logt_wthread_lock);
		if (empty) return;
		usleep(50);
	}
	puts("note quiesce-timeout");
}

static void do_line(char *line)
{
	long a = 0, b = 0;
	int32_t rc = 0;
	int pos;
	sscanf(line + 1, "%ld %ld", &a, &b);
	pos = QB_LOG_TARGET_DYNAMIC_START + (int)a;
	switch (line[0]) {
	case 'I':
		if (inited) return;
		printf("op %s\n", line);
		qb_log_init("vlogthr", LOG_USER, LOG_EMERG);
		(void)qb_log_ctl(QB_LOG_SYSLOG, QB_LOG_CONF_ENABLED, QB_FALSE);
		inited = 1;
		break;
	case 'F':
		printf("op %s\n", line);
		fflush(stdout);
		qb_log_fini();
		if (inited) worker_alive = 0;        /* an uninitialised system's qb_log_fini returns at once */
		inited = 0;
		break;
	case 'O':
		if (!inited) return;
		printf("op %s\n", line);
		rc = qb_log_custom_open(logger, closer, NULL, NULL);
		if (rc >= 0) {
			(void)qb_log_filter_ctl(rc, QB_LOG_FILTER_ADD, QB_LOG_FILTER_FILE, "*", LOG_TRACE);
		}
		break;
	case 'X':
		printf("op %s\n", line);
		fflush(stdout);
		qb_log_custom_close(pos);
		break;
	case 'E':
		printf("op %s\n", line);
		fflush(stdout);
		rc = qb_log_ctl(pos, QB_LOG_CONF_ENABLED, (int32_t)b);
		break;
	case 'T':
		printf("op %s\n", line);
		fflush(stdout);
		rc = qb_log_ctl(pos, QB_LOG_CONF_THREADED, (int32_t)b);
		break;
	case 'C':
		printf("op %s\n", line);
		fflush(stdout);
		rc = qb_log_ctl(pos, QB_LOG_CONF_EXTENDED, QB_TRUE);
		break;
	case 'S': {
		int was = wthread_active;
		printf("op %s\n", line);
		fflush(stdout);
		rc = qb_log_thread_start();
		if (rc == 0 && !was) worker_alive = 1;
		break;
	}
	case 'L': {
		struct qb_log_callsite *cs;
		if (!inited) return;
		printf("op %s\n", line);
		fflush(stdout);
		cs = qb_log_callsite_get(__func__, __FILE__, "m%ld", LOG_INFO, 100, 0);
		qb_log_real_(cs, a);
		break;
	}
	default:
		return;
	}
	quiesce();
	flush_ev();
	printf("r %d\n", rc);
	fflush(stdout);
}


static void run_child(void)
{
	char *p = casebuf;
	main_thread = pthread_self();
	while (*p) {
		char *e = strchr(p, '\n');
		if (e) *e = 0;
		do_line(p);
		if (!e) break;
		p = e + 1;
	}
	fflush(stdout);
	_exit(0);
}

#else /* LOGTHR_CONC */

/* ================================================================================================
 * Concurrent part (-DLOGTHR_CONC; this translation unit is then compiled with `-O0 -fsanitize=thread',
 * instrumentation only, and linked with sched_rt.c + sched_wrap_lock.c + sched_wrap_logthr.c):
 * producers, the REAL worker thread (qb_logt_worker_thread) and a control thread run as virtual threads of
 * the controlled scheduler; every lock / unlock / sem_post / sem_wait / sem_getvalue / pthread_create / join /
 * exit is a scheduling point, and so are "log" (before each log call), "ctl" (before each control call) and
 * "write" (inside the target's logger callback).  The statics of log_thread.c are registered as shared
 * regions: an access to them made WITHOUT holding the lock becomes a scheduling point of its own
 * ("s <tid> R|W <name>"), which the model does not have - so a change that moves such an access out of the
 * critical section shows up as a trace difference.
 *
 * script:  # case <n>
 *          m c <0|1> | m x | m stop         control thread: qb_log_ctl(t, ENABLED, b) | qb_log_custom_close(t) |
 *                                           join all producers + qb_log_fini
 *          p <i> <len>                      producer i (0..7) logs one more message of strlen <len> (8..4000)
 *          run <tid> <tid> ...              schedule: 0 = control thread, 1 = worker, 2+i = producer i
 * output:  start-up steps (qb_log_thread_start inside the control thread), "begin", then per step "s <tid> <label>"
 *          followed by what the thread printed during the step: "w <i> <seq>" (logger callback), "close" (close
 *          callback), "<n> messages lost" (log_thread.c itself), "rc <v>" (return of qb_log_ctl), "stopped";
 *          "end <0|1|2>" (all finished / deadlock / step limit), "final <memory_used> <dropped> <queued>".
 */
#include "sched_rt.h"
#define NPROD 8
#define MAXMSG 4096
static int c_target;
static struct qb_log_callsite *c_cs;
static int c_started;
static int c_in_write;
static struct { char kind; int arg; } c_mops[256];
static int c_nmops;
static int c_len[NPROD][MAXMSG];
static int c_nmsg[NPROD];
static int c_ptid[NPROD];
static int c_nprod;

static void c_logger(int32_t t, struct qb_log_callsite *cs, struct timespec *ts, const char *msg)
{
	int i = -1, k = -1;
	(void)t; (void)cs; (void)ts;
	c_in_write = 1;
	sch_point("write");
	c_in_write = 0;
	sscanf(msg, "m%d.%d", &i, &k);
	printf("w %d %d\n", i, k);
}

static void c_closer(int32_t t)
{
	(void)t;
	puts("close");
	if (c_in_write) puts("note close-callback-during-logger-callback");
}

static void c_prod_body(void *arg)
{
	int i = (int)(intptr_t)arg, k;
	static char text[NPROD][QB_LOG_ABSOLUTE_MAX_LEN];
	for (k = 0; k < c_nmsg[i]; k++) {
		int n = c_len[i][k], l;
		sch_point("log");
		l = snprintf(text[i], sizeof text[i], "m%d.%d.", i, k);
		if (n > (int)sizeof text[i] - 1) n = (int)sizeof text[i] - 1;
		if (l < n) memset(text[i] + l, 'x', (size_t)(n - l));
		text[i][n > l ? n : l] = 0;
		qb_log_real_(c_cs, text[i]);
	}
}

static void c_main_body(void *arg)
{
	int k, i;
	int32_t rc;
	(void)arg;
	rc = qb_log_thread_start();
	if (rc != 0) printf("note thread_start %d\n", rc);
	c_started = 1;
	for (k = 0; k < c_nmops; k++) {
		sch_point("ctl");
		switch (c_mops[k].kind) {
		case 'c':
			rc = qb_log_ctl(c_target, QB_LOG_CONF_ENABLED, c_mops[k].arg);
			printf("rc %d\n", rc);
			break;
		case 'x':
			qb_log_custom_close(c_target);
			break;
		case 's':
			for (i = 0; i < c_nprod; i++) sch_thread_join(c_ptid[i]);
			qb_log_fini();
			puts("stopped");
			return;                 /* nothing may follow qb_log_fini */
		}
	}
}

static void run_child(void)
{
	static int sched[1 << 16];
	int nsched = 0, i, rc, have_run = 0;
	char *p = casebuf;
	setvbuf(stdout, NULL, _IOLBF, 1 << 16);
	while (*p) {
		char *e = strchr(p, '\n');
		int a = 0, b = 0;
		if (e) *e = 0;
		if (p[0] == 'm' && c_nmops < 256) {
			if (p[2] == 'c') { sscanf(p + 3, "%d", &a); c_mops[c_nmops].kind = 'c'; c_mops[c_nmops].arg = a; c_nmops++; }
			else if (p[2] == 'x') { c_mops[c_nmops].kind = 'x'; c_nmops++; }
			else if (p[2] == 's') { c_mops[c_nmops].kind = 's'; c_nmops++; }
		} else if (p[0] == 'p') {
			if (sscanf(p + 1, "%d %d", &a, &b) == 2 && a >= 0 && a < NPROD && c_nmsg[a] < MAXMSG) {
				c_len[a][c_nmsg[a]++] = b;
				if (a + 1 > c_nprod) c_nprod = a + 1;
			}
		} else if (strncmp(p, "run", 3) == 0) {
			char *s = p + 3, *q2;
			have_run = 1;
			for (;;) {
				long v = strtol(s, &q2, 10);
				if (q2 == s) break;
				if (nsched < (1 << 16)) sched[nsched++] = (int)v;
				s = q2;
			}
		}
		if (!e) break;
		p = e + 1;
	}
	if (!have_run) _exit(0);
	qb_log_init("vlogthr", LOG_USER, LOG_EMERG);
	(void)qb_log_ctl(QB_LOG_SYSLOG, QB_LOG_CONF_ENABLED, QB_FALSE);
	c_target = qb_log_custom_open(c_logger, c_closer, NULL, NULL);
	(void)qb_log_filter_ctl(c_target, QB_LOG_FILTER_ADD, QB_LOG_FILTER_FILE, "*", LOG_TRACE);
	(void)qb_log_ctl(c_target, QB_LOG_CONF_MAX_LINE_LEN, QB_LOG_ABSOLUTE_MAX_LEN);
	(void)qb_log_ctl(c_target, QB_LOG_CONF_ENABLED, QB_TRUE);
	(void)qb_log_ctl(c_target, QB_LOG_CONF_THREADED, QB_TRUE);
	c_cs = qb_log_callsite_get(__func__, __FILE__, "%s", LOG_INFO, 200, 0);
	sch_reset();
	sch_region("wthread_should_exit", &wthread_should_exit, sizeof wthread_should_exit, 0);
	sch_region("logt_memory_used", &logt_memory_used, sizeof logt_memory_used, 0);
	sch_region("logt_dropped_messages", &logt_dropped_messages, sizeof logt_dropped_messages, 0);
	sch_region("logt_records", &logt_print_finished_records, sizeof logt_print_finished_records, 0);
	sch_spawn(c_main_body, NULL);
	for (i = 0; i < 40 && !c_started; i++) {
		rc = sch_run(NULL, 0, 1);
		if (rc != 2) break;
	}
	if (!c_started) {
		puts("note thread-start-did-not-complete");
		fflush(stdout);
		_exit(0);
	}
	for (i = 0; i < c_nprod; i++) {
		c_ptid[i] = sch_spawn(c_prod_body, (void *)(intptr_t)i);
		(void)sch_run(&c_ptid[i], 1, 1);        /* its "start" step: up to the first "log" point */
	}
	puts("begin");
	rc = sch_run(sched, nsched, 400000);
	printf("end %d\n", rc);
	if (rc == 0) {
		int n = 0;
		struct qb_list_head *it;
		qb_list_for_each(it, &logt_print_finished_records) n++;
		printf("final %d %d %d\n", logt_memory_used, logt_dropped_messages, n);
	}
	fflush(stdout);
	_exit(0);
}
#endif /* LOGTHR_CONC */

static void run_case(void)
{
	int pfd[2];
	pid_t pid;
	int status = 0;
	char errbuf[8192];
	ssize_t n, tot = 0;
	fflush(stdout);
	if (pipe(pfd) != 0) { perror("pipe"); exit(2); }
	pid = fork();
	if (pid == 0) {
		close(pfd[0]);
		dup2(pfd[1], 2);
		close(pfd[1]);
		run_child();
	}
	close(pfd[1]);
	while ((n = read(pfd[0], errbuf + tot, sizeof errbuf - 1 - tot)) > 0) {
		tot += n;
		if (tot >= (ssize_t)sizeof errbuf - 1) {
			char sink[4096];
			while (read(pfd[0], sink, sizeof sink) > 0) { }
			break;
		}
	}
	close(pfd[0]);
	errbuf[tot] = 0;
	waitpid(pid, &status, 0);
	if (status != 0) {
		char *p = errbuf;
		int lines = 0;
		printf("crash %d\n", WIFEXITED(status) ? WEXITSTATUS(status) : 1000 + WTERMSIG(status));
		while (*p && lines < 14) {
			char *e = strchr(p, '\n');
			if (e) *e = 0;
			if (strstr(p, "ERROR") || strstr(p, "runtime error") || strstr(p, " in qb_") || strstr(p, "SUMMARY")) {
				printf("san %s\n", p);
				lines++;
			}
			if (!e) break;
			p = e + 1;
		}
	}
	fflush(stdout);
}

int main(void)
{
	static char line[1 << 12];
	size_t used = 0;
	int have = 0;
	setvbuf(stdout, NULL, _IOFBF, 1 << 16);
	while (fgets(line, sizeof line, stdin)) {
		if (line[0] == '#') {
			if (have) run_case();
			used = 0;
			casebuf[0] = 0;
			have = 1;
			fputs(line, stdout);
			continue;
		}
		if (have && used + strlen(line) + 1 < MAXCASE) {
			memcpy(casebuf + used, line, strlen(line) + 1);
			used += strlen(line);
		}
	}
	if (have) run_case();
	fflush(stdout);
	return 0;
}
