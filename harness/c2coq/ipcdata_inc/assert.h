/* Used ONLY by tools/c2coq.py for the ipcdata* specs (harness/c2coq/ipcdata*.json, via "cflags": -I this directory).
 * The translator has no rule for glibc's assert() expansion (comma operator + statement expression, or `(void)0'
 * under NDEBUG).  With this header assert(e) is an empty statement, i.e. the translated functions are those of a
 * build in which no assertion fires.  The library itself is always compiled with the system <assert.h>. */
#undef assert
#define assert(e) do { } while (0)
