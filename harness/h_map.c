/* C17 / C18 correspondence harness: drives the real lib/map.c + lib/hashtable.c + lib/skiplist.c
 * (compiled from the working tree, ASan+UBSan) through the PUBLIC qb_map API from a script and
 * prints every observable: return values, traversal callback calls, notifier calls.  random()
 * is wrapped: its answers come from the script (L line) or a per-case LCG and are logged ("o"),
 * the model consumes the same answers.  ASan is the freed-memory monitor.
 *
 * script lines (stdin); keys are hex strings prefixed by 'k' ("k6162" = "ab", "k" = ""), '-' = NULL:
 *   # case <n>           reset everything (previous map, iterators and strings are abandoned)
 *   M h <max_size>       qb_hashtable_create(max_size)          M s    qb_skiplist_create()
 *   L <n>                the next random() calls answer 0 (n times) then 65535: forces skiplist level n
 *   P <key> <val>        qb_map_put            G <key>  qb_map_get        R <key>  qb_map_rm
 *   C                    qb_map_count_get
 *   F <stop>             qb_map_foreach; the callback returns 1 at its <stop>-th call (0 = never)
 *   I <id>               qb_map_iter_create into iterator id <id> (ids are used once)
 *   N <id>               qb_map_iter_next      X <id>   qb_map_iter_free
 *   A <key|-> <fn> <events> <ud>     qb_map_notify_add (fn = 0..3 selects one of four callbacks)
 *   D <key|-> <fn> <events>          qb_map_notify_del
 *   E <key|-> <fn> <events> <ud>     qb_map_notify_del_2
 *   Z                    qb_map_destroy
 * output: the script line echoed as "op ...", then "o <random answer>" / "e <key> <val>" (traversal
 * callback) / "n <fn> <ud> <event> <key> <old> <new>" (notifier) lines, then "r ..." (result).
 * Operations that cannot be issued (no map, unknown / freed iterator id) print "r ignored".
 */
#include "os_base.h"
#include <stdio.h>
#include <stdlib.h>
#include <string.h>
#include <inttypes.h>
#include <qb/qbmap.h>

/* ---- random() oracle ---- */
static int forced_zero = -1;	/* >=0: answer 0 that many times, then 65535 once */
static uint32_t lcg = 12345;
long __wrap_random(void);
long __wrap_random(void)
{
	long v;
	if (forced_zero > 0) {
		forced_zero--;
		v = 0;
	} else if (forced_zero == 0) {
		forced_zero = -1;
		v = 65535;
	} else {
		lcg = lcg * 1103515245u + 12345u;
		v = (long)((lcg >> 8) & 0x7fffffff);
	}
	printf("o %ld\n", v);
	return v;
}

/* ---- strings: keys handed to the map must stay alive (the map stores the pointer) ---- */
#define MAXSTR 200000
static char *strs[MAXSTR];
static int nstrs = 0;

static char *mkkey(const char *hex)
{
	size_t n, i;
	char *s;
	if (hex[0] != 'k') {
		return NULL;
	}
	hex++;
	n = strlen(hex) / 2;
	s = malloc(n + 1);
	for (i = 0; i < n; i++) {
		unsigned int b = 0;
		sscanf(hex + 2 * i, "%2x", &b);
		s[i] = (char)b;
	}
	s[n] = 0;
	if (nstrs < MAXSTR) {
		strs[nstrs++] = s;
	}
	return s;
}

static void pkey(const char *k)
{
	if (k == NULL) {
		printf("-");
		return;
	}
	printf("k");
	for (; *k; k++) {
		printf("%02x", (unsigned char)*k);
	}
}

/* ---- callbacks ---- */
static void notified(int fn, uint32_t event, char *key, void *old_value, void *value, void *user_data)
{
	printf("n %d %ld %u ", fn, (long)(intptr_t)user_data, event);
	pkey(key);
	printf(" %ld %ld\n", (long)(intptr_t)old_value, (long)(intptr_t)value);
}
static void nf0(uint32_t e, char *k, void *o, void *v, void *u) { notified(0, e, k, o, v, u); }
static void nf1(uint32_t e, char *k, void *o, void *v, void *u) { notified(1, e, k, o, v, u); }
static void nf2(uint32_t e, char *k, void *o, void *v, void *u) { notified(2, e, k, o, v, u); }
static void nf3(uint32_t e, char *k, void *o, void *v, void *u) { notified(3, e, k, o, v, u); }
static qb_map_notify_fn nfs[4] = { nf0, nf1, nf2, nf3 };

static long fe_calls, fe_stop;
static int32_t traverse(const char *key, void *value, void *user_data)
{
	(void)user_data;
	fe_calls++;
	printf("e ");
	pkey(key);
	printf(" %ld\n", (long)(intptr_t)value);
	return (fe_stop != 0 && fe_calls >= fe_stop) ? 1 : 0;
}

/* ---- state ---- */
#define MAXIT 4096
static qb_map_t *map = NULL;
static qb_map_iter_t *its[MAXIT];
static char it_used[MAXIT];

static void reset_case(void)
{
	int i;
	/* the previous case's map / iterators are abandoned, not destroyed: a case may end in any state */
	map = NULL;
	for (i = 0; i < MAXIT; i++) {
		its[i] = NULL;
		it_used[i] = 0;
	}
	for (i = 0; i < nstrs; i++) {
		free(strs[i]);
	}
	nstrs = 0;
	forced_zero = -1;
	lcg = 12345;
}

int main(void)
{
	static char line[8192], a1[4200], a2[64], a3[64], a4[64];
	setvbuf(stdout, NULL, _IOFBF, 1 << 16);
	while (fgets(line, sizeof line, stdin)) {
		char c = line[0];
		int na;
		size_t ll = strlen(line);
		while (ll && (line[ll - 1] == '\n' || line[ll - 1] == '\r')) line[--ll] = 0;
		if (c == '#') {
			reset_case();
			printf("%s\n", line);
			fflush(stdout);
			continue;
		}
		if (c == 0) continue;
		a1[0] = a2[0] = a3[0] = a4[0] = 0;
		na = sscanf(line + 1, " %4199s %63s %63s %63s", a1, a2, a3, a4);
		(void)na;
		printf("op %s\n", line);
		if (c == 'M') {
			if (a1[0] == 'h') {
				map = qb_hashtable_create((size_t)strtoul(a2, NULL, 10));
			} else {
				map = qb_skiplist_create();
			}
			printf("r %s\n", map ? "ok" : "null");
		} else if (c == 'L') {
			forced_zero = atoi(a1);
			printf("r ok\n");
		} else if (map == NULL) {
			printf("r ignored\n");
		} else if (c == 'P') {
			char *k = mkkey(a1);
			qb_map_put(map, k, (void *)(intptr_t)strtol(a2, NULL, 10));
			printf("r\n");
		} else if (c == 'G') {
			char *k = mkkey(a1);
			void *v = qb_map_get(map, k);
			printf("r %ld\n", (long)(intptr_t)v);
		} else if (c == 'R') {
			char *k = mkkey(a1);
			int32_t rc = qb_map_rm(map, k);
			printf("r %d\n", rc);
		} else if (c == 'C') {
			printf("r %zu\n", qb_map_count_get(map));
		} else if (c == 'F') {
			fe_calls = 0;
			fe_stop = strtol(a1, NULL, 10);
			qb_map_foreach(map, traverse, NULL);
			printf("r\n");
		} else if (c == 'I') {
			long id = strtol(a1, NULL, 10);
			if (id < 0 || id >= MAXIT || it_used[id]) {
				printf("r ignored\n");
			} else {
				it_used[id] = 1;
				its[id] = qb_map_iter_create(map);
				printf("r %s\n", its[id] ? "ok" : "null");
			}
		} else if (c == 'N') {
			long id = strtol(a1, NULL, 10);
			if (id < 0 || id >= MAXIT || its[id] == NULL) {
				printf("r ignored\n");
			} else {
				void *v = NULL;
				const char *k = qb_map_iter_next(its[id], &v);
				if (k) {
					printf("r ");
					pkey(k);
					printf(" %ld\n", (long)(intptr_t)v);
				} else {
					printf("r end\n");
				}
			}
		} else if (c == 'X') {
			long id = strtol(a1, NULL, 10);
			if (id < 0 || id >= MAXIT || its[id] == NULL) {
				printf("r ignored\n");
			} else {
				qb_map_iter_free(its[id]);
				its[id] = NULL;
				printf("r\n");
			}
		} else if (c == 'A' || c == 'D' || c == 'E') {
			char *k = mkkey(a1);
			int fn = atoi(a2) & 3;
			int32_t ev = (int32_t)strtol(a3, NULL, 10);
			void *ud = (void *)(intptr_t)strtol(a4, NULL, 10);
			int32_t rc;
			if (c == 'A') rc = qb_map_notify_add(map, k, nfs[fn], ev, ud);
			else if (c == 'D') rc = qb_map_notify_del(map, k, nfs[fn], ev);
			else rc = qb_map_notify_del_2(map, k, nfs[fn], ev, ud);
			printf("r %d\n", rc);
		} else if (c == 'Z') {
			int i;
			qb_map_destroy(map);
			map = NULL;
			for (i = 0; i < MAXIT; i++) its[i] = NULL;	/* iterators of a destroyed map are dead */
			printf("r\n");
		} else {
			printf("r ignored\n");
		}
	}
	fflush(stdout);
	return 0;
}
