/* Constants of the C01 interleaving model (coq/RbConcModel.v) that are not already in consts/rb.c:
 * the memory orders lib/ringbuffer.c's marker accesses map to, and where write_pt / read_pt sit in the
 * shared header (word index inside the region the harness registers as "hdr"). */
#include "os_base.h"
#include <stdio.h>
#include <stddef.h>
#include "ringbuffer_int.h"
#include "atomic_int.h"

#define P(name, val) printf("Definition %s : Z := (%lld)%%Z.\n", name, (long long)(val))

int main(void)
{
	printf("Require Import ZArith.\n");
	P("RBC_MO_ACQUIRE", qb_model_map(QB_ATOMIC_ACQUIRE));
	P("RBC_MO_RELEASE", qb_model_map(QB_ATOMIC_RELEASE));
	P("RBC_MO_RELAXED", qb_model_map(QB_ATOMIC_RELAXED));
	P("RBC_HDR_WPT_IDX", offsetof(struct qb_ringbuffer_shared_s, write_pt) / sizeof(uint32_t));
	P("RBC_HDR_RPT_IDX", offsetof(struct qb_ringbuffer_shared_s, read_pt) / sizeof(uint32_t));
	return 0;
}
