/* Constants the C17 / C18 map models depend on, evaluated by the C compiler from the working
 * tree's own sources (macros that live in the .c files are reached by including those files). */
#include "os_base.h"
#include <stdio.h>
#include <errno.h>
#include <qb/qbmap.h>
#include "../lib/hashtable.c"
#include "../lib/skiplist.c"

#define P(name, val) printf("Definition %s : Z := (%lld)%%Z.\n", name, (long long)(val))
int main(void)
{
	printf("Require Import ZArith.\n");
	P("MAP_FNV_32_PRIME", FNV_32_PRIME);
	P("MAP_EINVAL", EINVAL);
	P("MAP_ENOENT", ENOENT);
	P("MAP_EEXIST", EEXIST);
	P("MAP_NOTIFY_DELETED", QB_MAP_NOTIFY_DELETED);
	P("MAP_NOTIFY_REPLACED", QB_MAP_NOTIFY_REPLACED);
	P("MAP_NOTIFY_INSERTED", QB_MAP_NOTIFY_INSERTED);
	P("MAP_NOTIFY_RECURSIVE", QB_MAP_NOTIFY_RECURSIVE);
	P("MAP_NOTIFY_FREE", QB_MAP_NOTIFY_FREE);
	P("MAP_SKIPLIST_LEVEL_MAX", SKIPLIST_LEVEL_MAX);
	P("MAP_SKIPLIST_LEVEL_MIN", SKIPLIST_LEVEL_MIN);
	P("MAP_UINT16_MAX", UINT16_MAX);
	P("MAP_SIZEOF_COUNT", sizeof(((struct hash_table *)0)->count));
	P("MAP_SIZEOF_LENGTH", sizeof(((struct skiplist *)0)->length));
	P("MAP_SIZEOF_REFCOUNT", sizeof(((struct hash_node *)0)->refcount));
	return 0;
}
