/* Constants the trie model (C17/C18, coq/MapTrieModel.v) depends on, evaluated by the C compiler from the
 * working tree's own sources: the notifier event bits, the errno values the notifier calls return, the width
 * of the count, and the table of TRIE_CHAR2INDEX over all 256 byte values (the macro lives in lib/trie.c). */
#include "os_base.h"
#include <stdio.h>
#include <errno.h>
#include <qb/qbdefs.h>
#include <qb/qbmap.h>
#include "../lib/trie.c"

#define P(name, val) printf("Definition %s : Z := (%lld)%%Z.\n", name, (long long)(val))
int main(void)
{
	int b;
	printf("Require Import ZArith List.\nImport ListNotations.\n");
	P("TRIE_NOTIFY_DELETED", QB_MAP_NOTIFY_DELETED);
	P("TRIE_NOTIFY_REPLACED", QB_MAP_NOTIFY_REPLACED);
	P("TRIE_NOTIFY_INSERTED", QB_MAP_NOTIFY_INSERTED);
	P("TRIE_NOTIFY_RECURSIVE", QB_MAP_NOTIFY_RECURSIVE);
	P("TRIE_NOTIFY_FREE", QB_MAP_NOTIFY_FREE);
	P("TRIE_EEXIST", EEXIST);
	P("TRIE_EINVAL", EINVAL);
	P("TRIE_ENOENT", ENOENT);
	P("TRIE_QB_TRUE", QB_TRUE);
	P("TRIE_QB_FALSE", QB_FALSE);
	P("TRIE_SIZEOF_LENGTH", sizeof(((struct trie *)0)->length));
	printf("Definition TRIE_C2I_TABLE : list nat := [");
	for (b = 0; b < 256; b++) {
		char ch = (char)b;
		printf("%s%d", b ? "; " : "", (int)TRIE_CHAR2INDEX(ch));
	}
	printf("]%%nat.\n");
	return 0;
}
