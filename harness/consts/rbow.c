/* Constants of the blackbox record framing (lib/log_blackbox.c) that the C11 models depend on,
 * evaluated by the C compiler from the working tree's own sources.  BB_MIN_ENTRY_SIZE and the file
 * header constants are macros local to lib/log_blackbox.c, so that file is included textually. */
#include "os_base.h"
#include <stdio.h>
#include <time.h>
#include <errno.h>
#include "../lib/log_blackbox.c"

#define P(name, val) printf("Definition %s : Z := (%lld)%%Z.\n", name, (long long)(val))

int main(void)
{
	struct _blackbox_file_header h;
	printf("Require Import ZArith.\n");
	P("BBO_SIZEOF_U32", sizeof(uint32_t));
	P("BBO_SIZEOF_U8", sizeof(uint8_t));
	P("BBO_SIZEOF_TIMESPEC", sizeof(struct timespec));
	P("BBO_SIZEOF_TIME_T", sizeof(time_t));
	P("BBO_MIN_ENTRY_SIZE", BB_MIN_ENTRY_SIZE);
	P("BBO_LOG_MAX_LEN", QB_LOG_MAX_LEN);
	P("BBO_LOG_ABSOLUTE_MAX_LEN", QB_LOG_ABSOLUTE_MAX_LEN);
	P("BBO_FILE_HEADER_SIZE", sizeof(h));
	P("BBO_HEADER_WORDSIZE", (uint32_t)QB_BLACKBOX_HEADER_WORDSIZE);
	P("BBO_HEADER_READPT", (uint32_t)QB_BLACKBOX_HEADER_READPT);
	P("BBO_HEADER_WRITEPT", (uint32_t)QB_BLACKBOX_HEADER_WRITEPT);
	P("BBO_HEADER_VERSION", (uint32_t)QB_BLACKBOX_HEADER_VERSION);
	P("BBO_HEADER_HASH", (uint32_t)QB_BLACKBOX_HEADER_HASH);
	P("BBO_ENOENT", ENOENT);
	/* qb_rb_chunk_read / _peek let -EIDRM from the notifier pass (coq/RbOwWaitModel.v) */
	P("RBO_EIDRM", EIDRM);
	return 0;
}
