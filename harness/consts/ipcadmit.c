/* Constants the C05 (IPC admission) model depends on, evaluated by the C compiler from the working tree's
 * own headers: errno values that cross the model/implementation boundary, the transport enum, the size of the
 * connection description buffer (the directory name must fit), permission bit masks of this platform. */
#include "os_base.h"
#include <stdio.h>
#include <errno.h>
#include <sys/stat.h>
#include <qb/qbipcs.h>
#include <qb/qbipc_common.h>
#include "ipc_int.h"

#define P(name, val) printf("Definition %s : Z := (%lld)%%Z.\n", name, (long long)(val))
int main(void)
{
	printf("Require Import ZArith.\n");
	P("ADM_ENOENT", ENOENT);
	P("ADM_EEXIST", EEXIST);
	P("ADM_ENOTEMPTY", ENOTEMPTY);
	P("ADM_EPERM", EPERM);
	P("ADM_EACCES", EACCES);
	P("ADM_EAGAIN", EAGAIN);
	P("ADM_IPC_SHM", QB_IPC_SHM);
	P("ADM_IPC_SOCKET", QB_IPC_SOCKET);
	P("ADM_CONNECTION_DESCRIPTION", CONNECTION_DESCRIPTION);
	P("ADM_S_IRWXU", S_IRWXU);
	P("ADM_S_IRUSR_IWUSR", S_IRUSR | S_IWUSR);
	P("ADM_S_IRWXG", S_IRWXG);
	P("ADM_S_IRWXO", S_IRWXO);
	P("ADM_MSG_AUTHENTICATE", QB_IPC_MSG_AUTHENTICATE);
	return 0;
}
