/* Constants of the C15 model (blackbox dump files), evaluated by the C compiler from the working tree:
 * the macros and struct _blackbox_file_header live in lib/log_blackbox.c, so that file is included textually. */
#include "os_base.h"
#include <stdio.h>
#include <errno.h>
#include <stddef.h>
#include "../lib/log_blackbox.c"

#define P(name, val) printf("Definition %s : Z := (%lld)%%Z.\n", name, (long long)(val))

int main(void)
{
	printf("Require Import ZArith.\n");
	P("BBF_MIN_ENTRY_SIZE", BB_MIN_ENTRY_SIZE);
	P("BBF_LOG_MAX_LEN", QB_LOG_MAX_LEN);
	P("BBF_CHUNK_BUF", 2 * QB_LOG_MAX_LEN);               /* max_size in qb_log_blackbox_print_from_file */
	P("BBF_FILE_HDR_SIZE", sizeof(struct _blackbox_file_header));
	P("BBF_OFF_WORD_SIZE", offsetof(struct _blackbox_file_header, word_size));
	P("BBF_OFF_READ_PT", offsetof(struct _blackbox_file_header, read_pt));
	P("BBF_OFF_WRITE_PT", offsetof(struct _blackbox_file_header, write_pt));
	P("BBF_OFF_VERSION", offsetof(struct _blackbox_file_header, version));
	P("BBF_OFF_HASH", offsetof(struct _blackbox_file_header, hash));
	P("BBF_HDR_WORDSIZE", (uint32_t)QB_BLACKBOX_HEADER_WORDSIZE);
	P("BBF_HDR_READPT", (uint32_t)QB_BLACKBOX_HEADER_READPT);
	P("BBF_HDR_WRITEPT", (uint32_t)QB_BLACKBOX_HEADER_WRITEPT);
	P("BBF_HDR_VERSION", (uint32_t)QB_BLACKBOX_HEADER_VERSION);
	P("BBF_HDR_HASH", (uint32_t)QB_BLACKBOX_HEADER_HASH);
	P("BBF_SIZEOF_TIMESPEC", sizeof(struct timespec));
	P("BBF_SIZEOF_TIME_T", sizeof(time_t));
	P("BBF_SIZEOF_U32", sizeof(uint32_t));
	P("BBF_EIO", EIO);
	P("BBF_NS_IN_MSEC", QB_TIME_NS_IN_MSEC);
	return 0;
}
