/* Constants the C14 (blackbox record serializer) and C13 (log line formatting) models depend on,
 * evaluated by the C compiler from the working tree's own sources. */
#include "os_base.h"
#include <stdio.h>
#include <stddef.h>
#include <stdint.h>
#include <limits.h>
#include <syslog.h>
#include <qb/qbdefs.h>
#include <qb/qblog.h>
#include "../lib/log_format.c"   /* MINI_FORMAT_STR_LEN and the statics live in the .c file */

#define P(name, val) printf("Definition %s : Z := (%lld)%%Z.\n", name, (long long)(val))
int main(void)
{
	char modified_format_probe[1];
	(void)modified_format_probe;
	printf("Require Import ZArith.\n");
	P("LF_MINI_FORMAT_STR_LEN", MINI_FORMAT_STR_LEN);
	P("LF_SIZEOF_INT", sizeof(int));
	P("LF_SIZEOF_LONG", sizeof(long int));
	P("LF_SIZEOF_LLONG", sizeof(long long int));
	P("LF_SIZEOF_DOUBLE", sizeof(double));
	P("LF_SIZEOF_PTRDIFF", sizeof(ptrdiff_t));
	P("LF_SIZEOF_VOIDP", sizeof(void *));
	P("LF_SIZEOF_SIZE_T", sizeof(size_t));
	P("LF_SIZEOF_INTMAX", sizeof(intmax_t));
	P("LF_SIZEOF_UCHAR", sizeof(unsigned char));
	P("LF_SIZEOF_LOCATION", sizeof(uint32_t));
	P("LF_INT_MIN", INT_MIN);
	P("LF_INT_MAX", INT_MAX);
	P("LF_XC", QB_XC);
	P("LF_MAX_LEN", QB_LOG_MAX_LEN);
	P("LF_ABSOLUTE_MAX_LEN", QB_LOG_ABSOLUTE_MAX_LEN);
	P("LF_TIME_STRING_SIZE", TIME_STRING_SIZE);
	P("LF_PRIO_TRACE", LOG_TRACE);
	P("LF_SIZEOF_UINT", sizeof(unsigned int));
	P("LF_TRUE", QB_TRUE);
	P("LF_FALSE", QB_FALSE);
	P("LF_LONG_MAX", LONG_MAX);
#ifdef BUILDING_IN_PLACE
	P("LF_BUILDING_IN_PLACE", 1);
#else
	P("LF_BUILDING_IN_PLACE", 0);
#endif
	{
		/* the priority names %p prints, and the size of the buffer qb_log_format_set expands into */
		int k;
		printf("Require Import List.\nImport ListNotations.\nOpen Scope Z_scope.\n");
		printf("Definition LF_PRIO_NAMES : list (list Z) := [");
		for (k = 0; k <= LOG_TRACE; k++) {
			const char *n = qb_log_priority2str((uint8_t)k);
			printf("%s[", k ? "; " : "");
			for (; *n; n++) {
				printf("%d%s", (unsigned char)*n, n[1] ? "; " : "");
			}
			printf("]");
		}
		printf("].\n");
	}
	return 0;
}
