/* Constants the C03 (death of the IPC peer) model depends on, evaluated by the C compiler from the working tree. */
#include "os_base.h"
#include <stdio.h>
#include <errno.h>
#include <poll.h>
#include <qb/qbdefs.h>
#include <qb/qbipcs.h>
#include <qb/qbipcc.h>
#include "../lib/ipcs.c"     /* MAX_RECV_MSGS, IPC_REQUEST_TIMEOUT live in the .c file */

#define P(name, val) printf("Definition %s : Z := (%lld)%%Z.\n", name, (long long)(val))
int main(void)
{
	printf("Require Import ZArith.\n");
	P("D_AUTH_LEN", sizeof(struct qb_ipc_connection_request));
	P("D_MAX_RECV_MSGS", MAX_RECV_MSGS);
	P("D_IPC_REQUEST_TIMEOUT", IPC_REQUEST_TIMEOUT);
	P("D_MAX_WAIT_MS", QB_IPC_MAX_WAIT_MS);
	P("D_ST_INACTIVE", QB_IPCS_CONNECTION_INACTIVE);
	P("D_ST_ACTIVE", QB_IPCS_CONNECTION_ACTIVE);
	P("D_ST_ESTABLISHED", QB_IPCS_CONNECTION_ESTABLISHED);
	P("D_ST_SHUTTING_DOWN", QB_IPCS_CONNECTION_SHUTTING_DOWN);
	P("D_EAGAIN", EAGAIN);
	P("D_ETIMEDOUT", ETIMEDOUT);
	P("D_ENOTCONN", ENOTCONN);
	P("D_EPIPE", EPIPE);
	P("D_EINTR", EINTR);
	P("D_EMSGSIZE", EMSGSIZE);
	P("D_ENOMSG", ENOMSG);
	P("D_EINVAL", EINVAL);
	P("D_ECONNREFUSED", ECONNREFUSED);
	P("D_ECONNRESET", ECONNRESET);
	P("D_ESHUTDOWN", ESHUTDOWN);
	return 0;
}
