/* Constants the event-loop model (coq/LoopModel.v, C08/C10) depends on, evaluated by the C
 * compiler from the working tree's own sources; to_process is read from a freshly created loop. */
#include "os_base.h"
#include <stdio.h>
#include <errno.h>
#include <poll.h>
#include <sys/epoll.h>
#include <qb/qbdefs.h>
#include <qb/qblist.h>
#include <qb/qbloop.h>
#include "loop_int.h"
#include "../lib/loop_poll_epoll.c"   /* MAX_EVENTS and the statics of the epoll driver */

#define P(name, val) printf("Definition %s : Z := (%lld)%%Z.\n", name, (long long)(val))
int main(void)
{
	struct qb_loop *l = qb_loop_create();
	int same = l != NULL
	    && l->level[QB_LOOP_LOW].to_process == l->level[QB_LOOP_MED].to_process
	    && l->level[QB_LOOP_MED].to_process == l->level[QB_LOOP_HIGH].to_process;
	printf("Require Import ZArith.\n");
	P("LOOP_LOW", QB_LOOP_LOW);
	P("LOOP_MED", QB_LOOP_MED);
	P("LOOP_HIGH", QB_LOOP_HIGH);
	/* to_process of the three levels of a new loop (-1 when they differ: the model has one constant) */
	P("LOOP_TO_PROCESS", same ? l->level[QB_LOOP_HIGH].to_process : -1);
	P("LOOP_LEVEL_PRIO_OK", l && l->level[QB_LOOP_LOW].priority == QB_LOOP_LOW
	  && l->level[QB_LOOP_MED].priority == QB_LOOP_MED && l->level[QB_LOOP_HIGH].priority == QB_LOOP_HIGH);
	P("LOOP_ENTRY_EMPTY", QB_POLL_ENTRY_EMPTY);
	P("LOOP_ENTRY_JOBLIST", QB_POLL_ENTRY_JOBLIST);
	P("LOOP_ENTRY_DELETED", QB_POLL_ENTRY_DELETED);
	P("LOOP_ENTRY_ACTIVE", QB_POLL_ENTRY_ACTIVE);
	P("LOOP_TYPE_FD", QB_LOOP_FD);
	P("LOOP_TYPE_JOB", QB_LOOP_JOB);
	P("LOOP_TYPE_TIMER", QB_LOOP_TIMER);
	P("LOOP_TYPE_SIG", QB_LOOP_SIG);
	P("LOOP_MAX_EVENTS", MAX_EVENTS);
	P("LOOP_POLLIN", POLLIN);
	P("LOOP_POLLPRI", POLLPRI);
	P("LOOP_POLLOUT", POLLOUT);
	P("LOOP_POLLERR", POLLERR);
	P("LOOP_POLLHUP", POLLHUP);
	P("LOOP_POLLNVAL", POLLNVAL);
	P("LOOP_EPOLLIN", EPOLLIN);
	P("LOOP_EPOLLPRI", EPOLLPRI);
	P("LOOP_EPOLLOUT", EPOLLOUT);
	P("LOOP_EPOLLERR", EPOLLERR);
	P("LOOP_EPOLLHUP", EPOLLHUP);
	P("LOOP_EINVAL", EINVAL);
	P("LOOP_ENOENT", ENOENT);
	P("LOOP_EBADF", EBADF);
	P("LOOP_EEXIST", EEXIST);
	P("LOOP_NS_IN_MSEC", QB_TIME_NS_IN_MSEC);
	if (l) {
		qb_loop_destroy(l);
	}
	return 0;
}
