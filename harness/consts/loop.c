/* Constants the event-loop model (coq/LoopModel.v, C08/C10) depends on, evaluated by the C
 * compiler from the working tree's own sources; to_process is read from a freshly created loop. */
#include "os_base.h"
#include <stdio.h>
#include <errno.h>
#include <poll.h>
#include <sys/epoll.h>
#include <qb/qbdefs.h>
#include <qb/qblist.h>
#include <qb/qbloop.h>
#include "loop_int.h"
#include <signal.h>
#include <unistd.h>
#include <fcntl.h>
/* the epoll driver is compiled into this file with its epoll_wait call redirected to the probe below */
static int probe_epoll_wait(int epfd, struct epoll_event *events, int maxevents, int timeout);
#define epoll_wait probe_epoll_wait
#include "../lib/loop_poll_epoll.c"   /* MAX_EVENTS and the statics of the epoll driver */
#undef epoll_wait

static struct qb_loop *probe_loop;
static int probe_timeout = -12345;
static int probe_have_event;
static uint64_t probe_data;
static int probe_epoll_wait(int epfd, struct epoll_event *events, int maxevents, int timeout)
{
	(void)epfd; (void)maxevents;
	if (probe_timeout == -12345) {
		probe_timeout = timeout;
	}
	qb_loop_stop(probe_loop);
	errno = 0;
	if (probe_have_event) {
		events[0].events = EPOLLIN;
		events[0].data.u64 = probe_data;
		return 1;
	}
	return 0;
}
static int32_t probe_fd_cb(int32_t fd, int32_t revents, void *data) { (void)fd; (void)revents; (void)data; return 0; }
static int32_t probe_sig_cb(int32_t sig, void *data) { (void)sig; (void)data; return 0; }

/* which of the proposed repairs the tree contains, observed on a scratch loop:
 *  polladd: a failed qb_loop_poll_add leaves a fully cleared entry (fd -1, check 0)
 *  sigdel : qb_loop_signal_del removes every queued clone (two deliveries pending -> none left)
 *  runtodo: qb_loop_run counts work left on the job lists by an earlier run before its first wait */
static void probe_fixes(int *polladd, int *sigdel, int *runtodo, int *pollreuse)
{
	struct qb_loop *l = qb_loop_create();
	struct qb_poll_source *ps;
	struct qb_poll_entry *pe = NULL;
	qb_loop_signal_handle h = NULL;
	int pfd[2];
	*polladd = *sigdel = *runtodo = *pollreuse = -1;
	if (!l || pipe(pfd) != 0) return;
	probe_loop = l;
	ps = (struct qb_poll_source *)l->fd_source;
	{
		/* polladd: epoll refuses a regular file (EPERM): what does the entry used for the attempt look like afterwards? */
		int nul = open("/dev/null", O_RDONLY);
		if (nul >= 0 && qb_loop_poll_add(l, QB_LOOP_LOW, nul, POLLIN, NULL, probe_fd_cb) != 0
		    && qb_array_index(ps->poll_entries, 1, (void **)&pe) == 0) {
			*polladd = (pe->check == 0 && pe->ufd.fd == -1);
		}
		if (nul >= 0) close(nul);
	}
	{
		/* pollreuse: a descriptor closed without poll_del, its number reused: is the second add refused? */
		int q[2], r[2];
		if (pipe(q) == 0) {
			int n = q[0];
			if (qb_loop_poll_add(l, QB_LOOP_LOW, n, POLLIN, NULL, probe_fd_cb) == 0) {
				close(n);
				if (pipe(r) == 0) {
					if (r[0] == n) {
						*pollreuse = (qb_loop_poll_add(l, QB_LOOP_LOW, n, POLLIN, NULL, probe_fd_cb) == -EEXIST);
					}
					(void)qb_loop_poll_del(l, n);
					(void)qb_loop_poll_del(l, n);
					close(r[0]); close(r[1]);
				}
			} else {
				close(n);
			}
			close(q[1]);
		}
	}
	if (qb_array_index(ps->poll_entries, 0, (void **)&pe) == 0
	    && qb_loop_signal_add(l, QB_LOOP_LOW, SIGUSR1, NULL, probe_sig_cb, &h) == 0) {
		probe_data = (((uint64_t)pe->check) << 32) | pe->install_pos;
		raise(SIGUSR1);
		raise(SIGUSR1);
		probe_have_event = 1;
		qb_loop_run(l);                     /* first delivery cloned onto the LOW list; stopped before LOW is served */
		qb_loop_run(l);                     /* second one */
		probe_have_event = 0;
		if (l->level[QB_LOOP_LOW].todo == 2) {
			probe_timeout = -12345;
			qb_loop_run(l);             /* what timeout does a new run start with while 2 items are pending? */
			*runtodo = (probe_timeout == 0);
			(void)qb_loop_signal_del(l, h);
			*sigdel = (l->level[QB_LOOP_LOW].todo == 0);
		}
		signal(SIGUSR1, SIG_DFL);
	}
	close(pfd[0]); close(pfd[1]);
	qb_loop_destroy(l);
}

/* (runs on the real kernel: epoll_ctl / epoll_wait are not redirected here) */
#undef epoll_wait
/* does the kernel's epoll behave as the harness' virtual interest list assumes? */
static int probe_kernel(void)
{
	int ep = epoll_create1(EPOLL_CLOEXEC), a[2], b[2], ok = 1, n;
	struct epoll_event ev, out[4];
	if (ep < 0 || pipe(a) != 0) return -1;
	ev.events = EPOLLIN; ev.data.u64 = 7;
	ok &= epoll_ctl(ep, EPOLL_CTL_ADD, a[0], &ev) == 0;
	ok &= epoll_ctl(ep, EPOLL_CTL_ADD, a[0], &ev) == -1 && errno == EEXIST;
	ev.data.u64 = 9;
	ok &= epoll_ctl(ep, EPOLL_CTL_MOD, a[0], &ev) == 0;
	ok &= write(a[1], "x", 1) == 1;
	n = epoll_wait(ep, out, 4, 0);
	ok &= n == 1 && out[0].data.u64 == 9 && (out[0].events & EPOLLIN);      /* level triggered, data of the last MOD */
	n = epoll_wait(ep, out, 4, 0);
	ok &= n == 1;
	ok &= epoll_ctl(ep, EPOLL_CTL_DEL, a[0], NULL) == 0;
	ok &= epoll_ctl(ep, EPOLL_CTL_DEL, a[0], NULL) == -1 && errno == ENOENT;
	ok &= epoll_ctl(ep, EPOLL_CTL_MOD, a[0], &ev) == -1 && errno == ENOENT;
	ok &= epoll_wait(ep, out, 4, 0) == 0;
	ok &= epoll_ctl(ep, EPOLL_CTL_ADD, a[0], &ev) == 0;
	close(a[0]); close(a[1]);                                                   /* closing drops the registration */
	ok &= epoll_wait(ep, out, 4, 0) == 0;
	if (pipe(b) != 0) return -1;
	ok &= epoll_ctl(ep, EPOLL_CTL_ADD, b[0], &ev) == 0;                          /* the number (usually the same) is free again */
	close(b[0]); close(b[1]); close(ep);
	return ok;
}

#define P(name, val) printf("Definition %s : Z := (%lld)%%Z.\n", name, (long long)(val))
int main(void)
{
	struct qb_loop *l = qb_loop_create();
	int same = l != NULL
	    && l->level[QB_LOOP_LOW].to_process == l->level[QB_LOOP_MED].to_process
	    && l->level[QB_LOOP_MED].to_process == l->level[QB_LOOP_HIGH].to_process;
	printf("Require Import ZArith.\n");
	P("LOOP_LOW", QB_LOOP_LOW);
	P("LOOP_MED", QB_LOOP_MED);
	P("LOOP_HIGH", QB_LOOP_HIGH);
	/* to_process of the three levels of a new loop (-1 when they differ: the model has one constant) */
	P("LOOP_TO_PROCESS", same ? l->level[QB_LOOP_HIGH].to_process : -1);
	P("LOOP_LEVEL_PRIO_OK", l && l->level[QB_LOOP_LOW].priority == QB_LOOP_LOW
	  && l->level[QB_LOOP_MED].priority == QB_LOOP_MED && l->level[QB_LOOP_HIGH].priority == QB_LOOP_HIGH);
	P("LOOP_ENTRY_EMPTY", QB_POLL_ENTRY_EMPTY);
	P("LOOP_ENTRY_JOBLIST", QB_POLL_ENTRY_JOBLIST);
	P("LOOP_ENTRY_DELETED", QB_POLL_ENTRY_DELETED);
	P("LOOP_ENTRY_ACTIVE", QB_POLL_ENTRY_ACTIVE);
	P("LOOP_TYPE_FD", QB_LOOP_FD);
	P("LOOP_TYPE_JOB", QB_LOOP_JOB);
	P("LOOP_TYPE_TIMER", QB_LOOP_TIMER);
	P("LOOP_TYPE_SIG", QB_LOOP_SIG);
	P("LOOP_MAX_EVENTS", MAX_EVENTS);
	P("LOOP_POLLIN", POLLIN);
	P("LOOP_POLLPRI", POLLPRI);
	P("LOOP_POLLOUT", POLLOUT);
	P("LOOP_POLLERR", POLLERR);
	P("LOOP_POLLHUP", POLLHUP);
	P("LOOP_POLLNVAL", POLLNVAL);
	P("LOOP_EPOLLIN", EPOLLIN);
	P("LOOP_EPOLLPRI", EPOLLPRI);
	P("LOOP_EPOLLOUT", EPOLLOUT);
	P("LOOP_EPOLLERR", EPOLLERR);
	P("LOOP_EPOLLHUP", EPOLLHUP);
	P("LOOP_EINVAL", EINVAL);
	P("LOOP_ENOENT", ENOENT);
	P("LOOP_EBADF", EBADF);
	P("LOOP_EEXIST", EEXIST);
	P("LOOP_NS_IN_MSEC", QB_TIME_NS_IN_MSEC);
	{
		int a, b, c, d;
		if (l) { qb_loop_destroy(l); l = NULL; }
		probe_fixes(&a, &b, &c, &d);
		P("LOOP_FIX_POLLADD", a);
		P("LOOP_FIX_SIGDEL", b);
		P("LOOP_FIX_RUNTODO", c);
		P("LOOP_FIX_POLLREUSE", d);
		/* 1 when the real kernel's epoll shows the semantics the harness' virtual interest list implements */
		P("LOOP_KERNEL_EPOLL_AS_MODELLED", probe_kernel());
	}
	if (l) {
		qb_loop_destroy(l);
	}
	return 0;
}
