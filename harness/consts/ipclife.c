/* Constants the C04 (connection life cycle) model depends on, evaluated by the C compiler from the working
 * tree's own sources: the connection state enum, loop priorities, rate-limit values, the batch limits. */
#include "os_base.h"
#include <stdio.h>
#include <errno.h>
#include <poll.h>
#include "../lib/ipcs.c"         /* MAX_RECV_MSGS; includes ipc_int.h */

#define P(name, val) printf("Definition %s : Z := (%lld)%%Z.\n", name, (long long)(val))
int main(void)
{
	printf("Require Import ZArith.\n");
	P("LIFE_ST_INACTIVE", QB_IPCS_CONNECTION_INACTIVE);
	P("LIFE_ST_ACTIVE", QB_IPCS_CONNECTION_ACTIVE);
	P("LIFE_ST_ESTABLISHED", QB_IPCS_CONNECTION_ESTABLISHED);
	P("LIFE_ST_SHUTTING_DOWN", QB_IPCS_CONNECTION_SHUTTING_DOWN);
	P("LIFE_RATE_FAST", QB_IPCS_RATE_FAST);
	P("LIFE_RATE_NORMAL", QB_IPCS_RATE_NORMAL);
	P("LIFE_RATE_SLOW", QB_IPCS_RATE_SLOW);
	P("LIFE_RATE_OFF", QB_IPCS_RATE_OFF);
	P("LIFE_RATE_OFF_2", QB_IPCS_RATE_OFF_2);
	P("LIFE_MAX_RECV_MSGS", MAX_RECV_MSGS);
	P("LIFE_LOOP_LOW", QB_LOOP_LOW);
	P("LIFE_LOOP_MED", QB_LOOP_MED);
	P("LIFE_LOOP_HIGH", QB_LOOP_HIGH);
	return 0;
}
