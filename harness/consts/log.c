/* Constants the C12 (log routing) and C13 (log line formatting) models depend on, evaluated by
 * the C compiler from the working tree's own headers and sources. */
#include "os_base.h"
#include <stdio.h>
#include <errno.h>
#include <syslog.h>
#include <qb/qbdefs.h>
#include <qb/qbarray.h>
#include <qb/qblog.h>
#include "log_int.h"

#define P(name, val) printf("Definition %s : Z := (%lld)%%Z.\n", name, (long long)(val))
int main(void)
{
	printf("Require Import ZArith.\n");
	/* target table */
	P("LOG_TARGET_MAX", QB_LOG_TARGET_MAX);
	P("LOG_TARGET_STATIC_MAX", QB_LOG_TARGET_STATIC_MAX);
	P("LOG_SYSLOG", QB_LOG_SYSLOG);
	P("LOG_STATE_UNUSED", QB_LOG_STATE_UNUSED);
	P("LOG_STATE_DISABLED", QB_LOG_STATE_DISABLED);
	P("LOG_STATE_ENABLED", QB_LOG_STATE_ENABLED);
	/* enum qb_log_filter_conf */
	P("LOG_FILTER_ADD", QB_LOG_FILTER_ADD);
	P("LOG_FILTER_REMOVE", QB_LOG_FILTER_REMOVE);
	P("LOG_FILTER_CLEAR_ALL", QB_LOG_FILTER_CLEAR_ALL);
	P("LOG_TAG_SET", QB_LOG_TAG_SET);
	P("LOG_TAG_CLEAR", QB_LOG_TAG_CLEAR);
	P("LOG_TAG_CLEAR_ALL", QB_LOG_TAG_CLEAR_ALL);
	/* enum qb_log_filter_type */
	P("LOG_FILTER_FILE", QB_LOG_FILTER_FILE);
	P("LOG_FILTER_FUNCTION", QB_LOG_FILTER_FUNCTION);
	P("LOG_FILTER_FORMAT", QB_LOG_FILTER_FORMAT);
	P("LOG_FILTER_FILE_REGEX", QB_LOG_FILTER_FILE_REGEX);
	P("LOG_FILTER_FUNCTION_REGEX", QB_LOG_FILTER_FUNCTION_REGEX);
	P("LOG_FILTER_FORMAT_REGEX", QB_LOG_FILTER_FORMAT_REGEX);
	/* errno values returned (negated) by the control API */
	P("LOG_EBADF", EBADF);
	P("LOG_EINVAL", EINVAL);
	P("LOG_EEXIST", EEXIST);
	P("LOG_EMFILE", EMFILE);
	P("LOG_ENOSYS", ENOSYS);
	/* priorities */
	P("LOG_PRIO_EMERG", LOG_EMERG);
	P("LOG_PRIO_DEBUG", LOG_DEBUG);
	P("LOG_PRIO_TRACE", LOG_TRACE);
	/* the dynamic call-site arrays are qb_array_t: at most this many elements / line numbers */
	P("LOG_ARRAY_MAX_ELEMENTS", QB_ARRAY_MAX_ELEMENTS);
	/* line formatting */
	P("LOG_MAX_LEN", QB_LOG_MAX_LEN);
	P("LOG_ABSOLUTE_MAX_LEN", QB_LOG_ABSOLUTE_MAX_LEN);
	P("LOG_TIME_STRING_SIZE", TIME_STRING_SIZE);
	P("LOG_XC", QB_XC);
	P("LOG_SIZEOF_TARGETS", sizeof(((struct qb_log_callsite *)0)->targets));
	P("LOG_SIZEOF_TAGS", sizeof(((struct qb_log_callsite *)0)->tags));
	P("LOG_SIZEOF_PRIORITY", sizeof(((struct qb_log_callsite *)0)->priority));
	return 0;
}
