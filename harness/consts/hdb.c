/* Constants the C20 (handle database) model depends on, evaluated by the C compiler
 * from the working tree's own sources. */
#include "os_base.h"
#include <stdio.h>
#include <errno.h>
#include <qb/qbarray.h>
#include "../lib/hdb.c"   /* the enum lives in the .c file; resolved through -I/repo/include */

#define P(name, val) printf("Definition %s : Z := (%lld)%%Z.\n", name, (long long)(val))
int main(void)
{
	printf("Require Import ZArith.\n");
	P("HDB_STATE_EMPTY", QB_HDB_HANDLE_STATE_EMPTY);
	P("HDB_STATE_PENDINGREMOVAL", QB_HDB_HANDLE_STATE_PENDINGREMOVAL);
	P("HDB_STATE_ACTIVE", QB_HDB_HANDLE_STATE_ACTIVE);
	P("HDB_EBADF", EBADF);
	P("HDB_EINVAL", EINVAL);
	P("HDB_ENOMEM", ENOMEM);
	P("HDB_ARRAY_MAX_ELEMENTS", QB_ARRAY_MAX_ELEMENTS);
	P("HDB_SIZEOF_HANDLE_T", sizeof(qb_handle_t));
	P("HDB_SIZEOF_CHECK", sizeof(((struct qb_hdb_handle *)0)->check));
	P("HDB_SIZEOF_REF", sizeof(((struct qb_hdb_handle *)0)->ref_count));
	return 0;
}
