/* Constants the C19 (growable array) model depends on, evaluated by the C compiler
 * from the working tree's own sources (lib/array.c is included for its macros and
 * for the layout of struct qb_array). */
#include "os_base.h"
#include <stdio.h>
#include <stddef.h>
#include <errno.h>
#include "../lib/array.c"   /* resolved through -I$REPO/include */

#define P(name, val) printf("Definition %s : Z := (%lld)%%Z.\n", name, (long long)(val))
int main(void)
{
	printf("Require Import ZArith.\n");
	P("ARRAY_INDEX_BITS_PER_BIN", ARRAY_INDEX_BITS_ELEMS_PER_BIN);
	P("ARRAY_ELEMS_PER_BIN", MAX_ELEMENTS_PER_BIN);
	P("ARRAY_MAX_BINS", MAX_BINS);
	P("ARRAY_MAX_INDEX_BITS", QB_ARRAY_MAX_INDEX_BITS);
	P("ARRAY_MAX_ELEMENTS", QB_ARRAY_MAX_ELEMENTS);
	P("ARRAY_ERANGE", ERANGE);
	P("ARRAY_EINVAL", EINVAL);
	P("ARRAY_ENOMEM", ENOMEM);
	P("ARRAY_SIZEOF_PTR", sizeof(void *));
	/* the macros themselves, evaluated on probe values (the model transcribes them as shift / mask) */
	P("ARRAY_PROBE_BIN_OF_65535", BIN_NUM_GET((uint32_t)65535));
	P("ARRAY_PROBE_ELEM_OF_65535", ELEM_NUM_GET(65535));
	P("ARRAY_PROBE_BIN_OF_4660", BIN_NUM_GET((uint32_t)4660));
	P("ARRAY_PROBE_ELEM_OF_4660", ELEM_NUM_GET(4660));
	return 0;
}
