/* Constants the C09 (timers / poll timeout) models depend on, evaluated by the C compiler from
 * the working tree's own sources. */
#include "os_base.h"
#include <stdio.h>
#include <errno.h>
#include <limits.h>
#include <stdint.h>
#include <qb/qbdefs.h>
#include <qb/qblist.h>
#include <qb/qbarray.h>
#include <qb/qbloop.h>
#include "loop_int.h"
#include "tlist.h"

#define P(name, val) printf("Definition %s : Z := (%lld)%%Z.\n", name, (long long)(val))
#define PU(name, val) printf("Definition %s : Z := (%llu)%%Z.\n", name, (unsigned long long)(val))
int main(void)
{
	qb_loop_t *l = qb_loop_create();
	struct timerlist_timer tt;
	printf("Require Import ZArith.\n");
	P("LT_ENTRY_EMPTY", QB_POLL_ENTRY_EMPTY);
	P("LT_ENTRY_JOBLIST", QB_POLL_ENTRY_JOBLIST);
	P("LT_ENTRY_DELETED", QB_POLL_ENTRY_DELETED);
	P("LT_ENTRY_ACTIVE", QB_POLL_ENTRY_ACTIVE);
	P("LT_LOOP_LOW", QB_LOOP_LOW);
	P("LT_LOOP_MED", QB_LOOP_MED);
	P("LT_LOOP_HIGH", QB_LOOP_HIGH);
	P("LT_TO_PROCESS", l->level[QB_LOOP_LOW].to_process);
	P("LT_TO_PROCESS_MED", l->level[QB_LOOP_MED].to_process);
	P("LT_TO_PROCESS_HIGH", l->level[QB_LOOP_HIGH].to_process);
	PU("LT_NS_IN_MSEC", QB_TIME_NS_IN_MSEC);
	PU("LT_NS_IN_SEC", QB_TIME_NS_IN_SEC);
	P("LT_INT32_MAX", INT32_MAX);
	PU("LT_UINT64_MAX", UINT64_MAX);
	P("LT_EINVAL", EINVAL);
	P("LT_ERANGE", ERANGE);
	P("LT_ENOENT", ENOENT);
	P("LT_ARRAY_MAX_ELEMENTS", QB_ARRAY_MAX_ELEMENTS);
	P("LT_SIZEOF_EXPIRE", sizeof(tt.expire_time));
	P("LT_SIZEOF_HEAP_POS", sizeof(tt.heap_pos));
	P("LT_SIZEOF_TIMER_HANDLE", sizeof(qb_loop_timer_handle));
	/* the value the loop hands to its poll source is an int32_t */
	P("LT_SIZEOF_MS_TIMEOUT", sizeof(qb_loop_timer_msec_duration_to_expire(l->timer_source)));
	qb_loop_destroy(l);
	return 0;
}
