/* Constants the C16 (threaded logging) models depend on, evaluated from the working tree's own sources.
 * The backlog limit is a literal inside qb_log_thread_log_post (no macro to print), so it is MEASURED:
 * the real function is called with messages of growing length on an otherwise empty queue and the largest
 * record size (sizeof(struct qb_log_record) + strlen + 1) it accepts is the limit. */
#include "os_base.h"
#include <stdio.h>
#include <stdlib.h>
#include <string.h>
#include <errno.h>
#include <qb/qblog.h>
#include "../lib/log_thread.c"

#define P(name, val) printf("Definition %s : Z := (%lld)%%Z.\n", name, (long long)(val))

static int accepted(size_t n)
{
	static char *buf;
	struct timespec ts = { 0, 0 };
	struct qb_log_record *rec;
	int ok;
	if (!buf) buf = malloc(4 << 20);
	memset(buf, 'a', n);
	buf[n] = 0;
	logt_memory_used = 0;
	logt_dropped_messages = 0;
	qb_log_thread_log_post(NULL, &ts, buf);
	ok = (logt_dropped_messages == 0);
	if (ok) {
		rec = qb_list_first_entry(&logt_print_finished_records, struct qb_log_record, list);
		qb_list_del(&rec->list);
		free(rec->buffer);
		free(rec);
	}
	return ok;
}

int main(void)
{
	size_t lo = 0, hi = (4 << 20) - 1;
	printf("Require Import ZArith.\n");
	P("LOGT_REC_SIZE", sizeof(struct qb_log_record));
	logt_wthread_lock = qb_thread_lock_create(QB_THREAD_LOCK_SHORT);
	sem_init(&logt_print_finished, 0, 0);
	if (!accepted(0) || accepted(hi)) {
		fprintf(stderr, "backlog limit not measurable\n");
		return 1;
	}
	while (hi - lo > 1) {                 /* accepted(lo), !accepted(hi) */
		size_t mid = lo + (hi - lo) / 2;
		if (accepted(mid)) lo = mid; else hi = mid;
	}
	P("LOGT_LIMIT", sizeof(struct qb_log_record) + lo + 1);
	P("LOGT_TARGET_MAX", QB_LOG_TARGET_MAX);
	P("LOGT_DYN_START", QB_LOG_TARGET_DYNAMIC_START);
	P("LOGT_EINVAL", EINVAL);
	P("LOGT_EBADF", EBADF);
	P("LOGT_EMFILE", EMFILE);
	P("LOGT_MAX_LEN", QB_LOG_MAX_LEN);
	return 0;
}
