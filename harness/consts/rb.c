/* Constants the ring-buffer models (C07, C11, C01) depend on, evaluated by the C compiler
 * from the working tree's own sources.  The macros live in lib/ringbuffer.c, so that file
 * is included textually (its functions are then local to this program; nothing else of the
 * library archive is pulled in for them). */
#include "os_base.h"
#include <stdio.h>
#include <errno.h>
#include <unistd.h>
#include <semaphore.h>
#include <limits.h>
#include "../lib/ringbuffer.c"
#include "log_int.h"

#define P(name, val) printf("Definition %s : Z := (%lld)%%Z.\n", name, (long long)(val))

/* the "+1" that qb_rb_open_2 adds besides the margin is a literal in the code: measure it.
 * word_size of a fresh ring for requested size S is roundup(S + MARGIN + extra, page)/4. */
static long measure_extra(long page)
{
	char name[128];
	long s, extra = -1;
	for (s = page - (long)QB_RB_CHUNK_MARGIN - 8; s <= page - (long)QB_RB_CHUNK_MARGIN + 8; s++) {
		qb_ringbuffer_t *rb;
		snprintf(name, sizeof name, "/dev/shm/vrbconsts-%d-%ld", (int)getpid(), s);
		rb = qb_rb_open(name, (size_t)s, QB_RB_FLAG_CREATE | QB_RB_FLAG_NO_SEMAPHORE, 0);
		if (rb == NULL) {
			return -1;
		}
		if ((long)rb->shared_hdr->word_size * 4 > page && extra < 0) {
			/* s is the first size that no longer fits one page: (s-1) + MARGIN + extra == page */
			extra = page - (long)QB_RB_CHUNK_MARGIN - (s - 1);
		}
		qb_rb_close(rb);
	}
	return extra;
}

int main(void)
{
	long page = sysconf(_SC_PAGESIZE);
	printf("Require Import ZArith.\n");
	P("RB_CHUNK_HEADER_WORDS", QB_RB_CHUNK_HEADER_WORDS);
	P("RB_CHUNK_MARGIN", QB_RB_CHUNK_MARGIN);
	P("RB_WORD_ALIGN", QB_RB_WORD_ALIGN);
	P("RB_CACHE_LINE_WORDS", QB_CACHE_LINE_WORDS);
	P("RB_CHUNK_MAGIC", (uint32_t)QB_RB_CHUNK_MAGIC);
	P("RB_CHUNK_MAGIC_DEAD", (uint32_t)QB_RB_CHUNK_MAGIC_DEAD);
	P("RB_CHUNK_MAGIC_ALLOC", (uint32_t)QB_RB_CHUNK_MAGIC_ALLOC);
	P("RB_FILE_HEADER_VERSION", QB_RB_FILE_HEADER_VERSION);
	P("RB_PAGE_SIZE", page);
	P("RB_SIZE_EXTRA", measure_extra(page));
	P("RB_SIZEOF_WORD", sizeof(uint32_t));
	P("RB_EAGAIN", EAGAIN);
	P("RB_ETIMEDOUT", ETIMEDOUT);
	P("RB_EBADMSG", EBADMSG);
	P("RB_ENOBUFS", ENOBUFS);
	P("RB_EINVAL", EINVAL);
	P("RB_ENOTSUP", ENOTSUP);
	P("RB_FLAG_CREATE", QB_RB_FLAG_CREATE);
	P("RB_FLAG_OVERWRITE", QB_RB_FLAG_OVERWRITE);
	P("RB_FLAG_NO_SEMAPHORE", QB_RB_FLAG_NO_SEMAPHORE);
	P("RB_SEM_VALUE_MAX", SEM_VALUE_MAX);
	/* blackbox record layout (lib/log_blackbox.c: _blackbox_vlogger) */
	P("BB_FIXED_SIZE", 4 * sizeof(uint32_t) + sizeof(uint8_t) + sizeof(struct timespec));
	P("BB_LOG_MAX_LEN", QB_LOG_MAX_LEN);
	P("BB_LOG_ABSOLUTE_MAX_LEN", QB_LOG_ABSOLUTE_MAX_LEN);
	return 0;
}
