/* Constants the C02/C06 (IPC data path) models depend on, evaluated by the C compiler from the
 * working tree's own sources.  The macros that live in .c files are reached by including them. */
#include "os_base.h"
#include <stdio.h>
#include <stddef.h>
#include <errno.h>
#include <poll.h>
#include <unistd.h>
#include "../lib/ringbuffer.c"   /* QB_RB_CHUNK_MARGIN, QB_RB_CHUNK_HEADER_WORDS */
#include "../lib/ipcs.c"         /* MAX_RECV_MSGS, IPC_REQUEST_TIMEOUT */

#define P(name, val) printf("Definition %s : Z := (%lld)%%Z.\n", name, (long long)(val))
int main(void)
{
	printf("Require Import ZArith.\n");
	P("IPC_RB_CHUNK_MARGIN", QB_RB_CHUNK_MARGIN);
	P("IPC_RB_CHUNK_HEADER_WORDS", QB_RB_CHUNK_HEADER_WORDS);
	P("IPC_RB_WORD", sizeof(uint32_t));
	P("IPC_PAGE_SIZE", sysconf(_SC_PAGESIZE));
	P("IPC_HDR_SIZE", sizeof(struct qb_ipc_request_header));
	P("IPC_HDR_OFF_ID", offsetof(struct qb_ipc_request_header, id));
	P("IPC_HDR_OFF_SIZE", offsetof(struct qb_ipc_request_header, size));
	P("IPC_CONNREQ_SIZE", sizeof(struct qb_ipc_connection_request));
	P("IPC_CONNREQ_OFF_MAX", offsetof(struct qb_ipc_connection_request, max_msg_size));
	P("IPC_CONNRESP_SIZE", sizeof(struct qb_ipc_connection_response));
	P("IPC_MAX_RECV_MSGS", MAX_RECV_MSGS);
	P("IPC_REQUEST_TIMEOUT_MS", IPC_REQUEST_TIMEOUT);
	P("IPC_MSG_AUTHENTICATE", QB_IPC_MSG_AUTHENTICATE);
	P("IPC_MSG_DISCONNECT", QB_IPC_MSG_DISCONNECT);
	P("IPC_EAGAIN", EAGAIN);
	P("IPC_EMSGSIZE", EMSGSIZE);
	P("IPC_ENOBUFS", ENOBUFS);
	P("IPC_ETIMEDOUT", ETIMEDOUT);
	P("IPC_ENOTCONN", ENOTCONN);
	P("IPC_ESHUTDOWN", ESHUTDOWN);
	P("IPC_EBADMSG", EBADMSG);
	P("IPC_EINVAL", EINVAL);
	P("IPC_EIO", EIO);
	P("IPC_POLLIN", POLLIN);
	P("IPC_POLLOUT", POLLOUT);
	P("IPC_POLLHUP", POLLHUP);
	P("IPC_POLLNVAL", POLLNVAL);
	P("IPC_LOOP_LOW", QB_LOOP_LOW);
	P("IPC_LOOP_MED", QB_LOOP_MED);
	P("IPC_LOOP_HIGH", QB_LOOP_HIGH);
	P("IPC_RATE_FAST", QB_IPCS_RATE_FAST);
	P("IPC_RATE_NORMAL", QB_IPCS_RATE_NORMAL);
	P("IPC_RATE_SLOW", QB_IPCS_RATE_SLOW);
	P("IPC_RATE_OFF", QB_IPCS_RATE_OFF);
	P("IPC_RATE_OFF_2", QB_IPCS_RATE_OFF_2);
	return 0;
}
