/* C15 harness: blackbox dump files.  Drives the REAL qb_log blackbox target, qb_log_blackbox_write_to_file and
 * qb_log_blackbox_print_from_file (lib/log_blackbox.c, lib/ringbuffer.c, lib/log_format.c of the working tree,
 * ASan+UBSan) from a script.  Nothing is written to disk: the dump "file" is a memfd reached through
 * /proc/self/fd/N, stdout of the printer is captured into another memfd.
 *
 * Isolation / monitors that need no source hooks:
 *   - the process moves into its own mount namespace with a private tmpfs on /dev/shm (the printer uses the FIXED
 *     ring name "create_from_file", several builders / the repository's own tests may run at the same time);
 *     if that is not permitted the harness says "note shared-shm" and goes on.  Census = every name in /dev/shm
 *     (+ /var/run/create_from_file-*: qb_sys_mmap_file_open falls back to SOCKETDIR).
 *   - mmap is wrapped: the PROT_NONE reservation that qb_sys_circular_mmap makes for the ring data is enlarged by a
 *     17 GiB PROT_NONE guard, so EVERY uint32 word index outside the double mapping faults; the SIGSEGV/SIGBUS
 *     handler reports "fault ring+<byte offset>" and exits 97 (ASan is blind to mmap'ed memory).
 *   - SIGABRT (assert) handler: "fault abort", exit 96; alarm(4) around every print: "fault timeout", exit 95.
 *   - qb_rb_chunk_read, qb_vsnprintf_deserialize[_n], qb_vsnprintf_serialize are wrapped (cross-object calls inside the
 *     archive) only to LOG what print_from_file hands to them / gets back (oracle recording); they call through.
 *
 * script (stdin), one command per line:
 *   # case <n>            fresh state (log system closed, buffer emptied, /dev/shm cleaned + counted)
 *   prios                 -> "prio <n> <name>" for n = 0..255 sampled (0..9, 255)
 *   open <size>           qb_log_init + blackbox target of <size> bytes, enabled, all call sites   -> r <rc>
 *   log <prio> <fnhex> <line> <tags> <kind> <a> <shex>
 *                         one record via qb_log_from_external_source; kind selects the printf call:
 *                         0 "%s"(s)  1 "%d:%s"(a,s)  2 literal text s as the format (no '%' inside)  3 "%s %5d|%-4x"(s,a,a)
 *                         -> "logged <sec> <nsec> <expected text hex> <serialized bytes hex>"
 *   dump                  qb_log_blackbox_write_to_file -> F ; -> "dump <rc> <len>"
 *   raw <rle>             F := bytes     (rle tokens: hex string | *<count>:<byte hex>)
 *   setw <off> <u32>      F[off..off+4) := little-endian value (file grows with zeros if needed)
 *   setb <off> <byte>
 *   trunc <len>           F := first len bytes (or zero-extended)
 *   leftover <mask>       pre-create ring files of the fixed name (environment probe, see the command)
 *   emit                  -> "file <rle>"
 *   getw <off>            -> "w <off> <value>"
 *   print <errno0>        errno = errno0; rc = qb_log_blackbox_print_from_file(F)
 *                         -> "cr <k> <len> <ret>"         per qb_rb_chunk_read call
 *                            "ds <off> <buflen|-1> <ret> <hex of string[0..ret)>"   per decoder call (off = buf - chunk base)
 *                            "o <hex of one stdout line>" per captured line
 *                            "ret <rc>"
 *                            "shm <n> <names...>"           census after the call
 */
#define _GNU_SOURCE
#include "os_base.h"
#include <stdio.h>
#include <stdlib.h>
#include <string.h>
#include <stdarg.h>
#include <signal.h>
#include <sched.h>
#include <dirent.h>
#include <sys/mman.h>
#include <sys/mount.h>
#include <sys/syscall.h>
#include <qb/qblog.h>
#include <qb/qbrb.h>

const char *qb_log_priority2str(uint8_t priority);   /* lib/log_int.h */

/* ------------------------------------------------------------------ guard mapping */
#define GUARD_BYTES (17ULL << 30)
void *__real_mmap(void *addr, size_t length, int prot, int flags, int fd, off_t offset);
int __real_munmap(void *addr, size_t length);
static char *ring_base = NULL;
static size_t ring_len = 0;
static int guard_on = 1;

void *__wrap_mmap(void *addr, size_t length, int prot, int flags, int fd, off_t offset)
{
	if (guard_on && addr == NULL && prot == PROT_NONE && fd == -1 && (flags & MAP_ANONYMOUS) && length > 0) {
		void *p = __real_mmap(NULL, length + GUARD_BYTES, PROT_NONE, flags | MAP_NORESERVE, -1, 0);
		if (p != MAP_FAILED) {
			ring_base = p;
			ring_len = length;
		}
		return p;
	}
	return __real_mmap(addr, length, prot, flags, fd, offset);
}

int __wrap_munmap(void *addr, size_t length)
{
	if (ring_base != NULL && addr == (void *)ring_base) {
		int r = __real_munmap(addr, ring_len + GUARD_BYTES);
		(void)length;
		ring_base = NULL;
		return r;
	}
	return __real_munmap(addr, length);
}

static void wr(const char *s)
{
	ssize_t r = write(1, s, strlen(s));
	(void)r;
}

static int saved_stdout = -1;

static void on_fault(int sig, siginfo_t *si, void *ctx)
{
	char b[160];
	(void)ctx;
	if (saved_stdout >= 0) {
		dup2(saved_stdout, 1);
	}
	if (sig == SIGABRT) {
		wr("fault abort\n");
		_exit(96);
	}
	if (sig == SIGALRM) {
		wr("fault timeout (the printer did not return within 4 s)\n");
		_exit(95);
	}
	if (ring_base && (char *)si->si_addr >= ring_base && (char *)si->si_addr < ring_base + ring_len + GUARD_BYTES) {
		snprintf(b, sizeof b, "fault ring+%llu (mapping is %llu bytes)\n",
			 (unsigned long long)((char *)si->si_addr - ring_base), (unsigned long long)ring_len);
	} else {
		snprintf(b, sizeof b, "fault wild %p\n", si->si_addr);
	}
	wr(b);
	_exit(97);
}

/* ------------------------------------------------------------------ virtual clock */
int __real_clock_gettime(clockid_t c, struct timespec *ts);
static int vclock = 0;
static long long vsec = 0;
static long vnsec = 0;
int __wrap_clock_gettime(clockid_t c, struct timespec *ts)
{
	if (vclock && (c == CLOCK_REALTIME || c == CLOCK_REALTIME_COARSE)) {
		ts->tv_sec = vsec;
		ts->tv_nsec = vnsec;
		return 0;
	}
	return __real_clock_gettime(c, ts);
}

/* ------------------------------------------------------------------ recording wrappers */
static int rec_on = 0;
static char *chunk_base = NULL;
static int n_cr = 0;
#define MAXEV 4096
static char *ev[MAXEV];
static int n_ev = 0;

static void add_ev(const char *s)
{
	if (n_ev < MAXEV) {
		ev[n_ev++] = strdup(s);
	}
}

static void hexs(char *dst, size_t room, const unsigned char *s, size_t n)
{
	size_t k = 0, i;
	dst[k++] = 'x';
	for (i = 0; i < n && k + 3 < room; i++) {
		snprintf(dst + k, 3, "%02x", s[i]);
		k += 2;
	}
	dst[k] = 0;
}

ssize_t __real_qb_rb_chunk_read(qb_ringbuffer_t *rb, void *data_out, size_t len, int32_t ms_timeout);
ssize_t __wrap_qb_rb_chunk_read(qb_ringbuffer_t *rb, void *data_out, size_t len, int32_t ms_timeout)
{
	ssize_t r = __real_qb_rb_chunk_read(rb, data_out, len, ms_timeout);
	if (rec_on) {
		char b[96];
		chunk_base = data_out;
		snprintf(b, sizeof b, "cr %d %zu %zd", n_cr++, len, r);
		add_ev(b);
	}
	return r;
}

static void rec_deser(const char *buf, long long buflen, size_t ret, const char *string, size_t str_len)
{
	static char b[4400];
	static char t[4200];
	/* the bytes string[0..ret) the decoder left behind (ret counts the terminating NUL) */
	size_t n = ret <= str_len ? ret : str_len;
	hexs(t, sizeof t, (const unsigned char *)string, n);
	snprintf(b, sizeof b, "ds %lld %lld %zu %s", chunk_base ? (long long)(buf - chunk_base) : -1LL, buflen, ret, t);
	add_ev(b);
}

size_t __real_qb_vsnprintf_deserialize(char *string, size_t str_len, const char *buf);
size_t __wrap_qb_vsnprintf_deserialize(char *string, size_t str_len, const char *buf)
{
	size_t r = __real_qb_vsnprintf_deserialize(string, str_len, buf);
	if (rec_on) {
		rec_deser(buf, -1, r, string, str_len);
	}
	return r;
}

/* the bounded decoder proposed by the C14 repair (fixes/C14-deserialize-bounds.patch); weak so that the harness
 * links against trees without it */
size_t __real_qb_vsnprintf_deserialize_n(char *string, size_t str_len, const char *buf, size_t buf_len)
	__attribute__((weak));
size_t __wrap_qb_vsnprintf_deserialize_n(char *string, size_t str_len, const char *buf, size_t buf_len)
{
	size_t r = __real_qb_vsnprintf_deserialize_n(string, str_len, buf, buf_len);
	if (rec_on) {
		rec_deser(buf, (long long)buf_len, r, string, str_len);
	}
	return r;
}

static unsigned char ser_last[4096];
static size_t ser_last_n = 0;
size_t __real_qb_vsnprintf_serialize(char *serialize, size_t max_len, const char *fmt, va_list ap);
size_t __wrap_qb_vsnprintf_serialize(char *serialize, size_t max_len, const char *fmt, va_list ap)
{
	size_t r = __real_qb_vsnprintf_serialize(serialize, max_len, fmt, ap);
	ser_last_n = r < sizeof ser_last ? r : sizeof ser_last;
	if (r <= max_len) {
		memcpy(ser_last, serialize, ser_last_n);
	}
	return r;
}

/* ------------------------------------------------------------------ file buffer */
static unsigned char *F = NULL;
static size_t Fn = 0, Fcap = 0;

static void f_reserve(size_t n)
{
	if (n > Fcap) {
		size_t c = n + 4096;
		F = realloc(F, c);
		memset(F + Fcap, 0, c - Fcap);
		Fcap = c;
	}
}

static void f_resize(size_t n)
{
	f_reserve(n);
	if (n > Fn) {
		memset(F + Fn, 0, n - Fn);
	}
	Fn = n;
}

static int hexval(int c)
{
	if (c >= '0' && c <= '9') return c - '0';
	if (c >= 'a' && c <= 'f') return c - 'a' + 10;
	if (c >= 'A' && c <= 'F') return c - 'A' + 10;
	return -1;
}

static void f_from_rle(char *s)
{
	char *tok, *sv = NULL;
	Fn = 0;
	for (tok = strtok_r(s, " \t\n", &sv); tok; tok = strtok_r(NULL, " \t\n", &sv)) {
		if (tok[0] == '*') {
			unsigned long cnt = 0;
			unsigned int b = 0;
			sscanf(tok + 1, "%lu:%x", &cnt, &b);
			f_reserve(Fn + cnt);
			memset(F + Fn, (int)b, cnt);
			Fn += cnt;
		} else {
			size_t n = strlen(tok) / 2, i;
			f_reserve(Fn + n);
			for (i = 0; i < n; i++) {
				F[Fn++] = (unsigned char)(hexval(tok[2 * i]) * 16 + hexval(tok[2 * i + 1]));
			}
		}
	}
}

static void f_emit(void)
{
	size_t i = 0;
	printf("file");
	while (i < Fn) {
		size_t j = i;
		while (j < Fn && F[j] == F[i]) j++;
		if (j - i >= 8) {
			printf(" *%zu:%02x", j - i, F[i]);
			i = j;
		} else {
			size_t k = i;
			printf(" ");
			/* literal run until the next long run */
			while (k < Fn) {
				size_t m = k;
				while (m < Fn && F[m] == F[k]) m++;
				if (m - k >= 8) break;
				while (k < m) printf("%02x", F[k++]);
			}
			i = k;
		}
	}
	printf("\n");
}

static int mem_fd(const char *name)
{
	return (int)syscall(SYS_memfd_create, name, 0);
}

/* ------------------------------------------------------------------ census */
static int census(char *out, size_t room, int remove_them)
{
	int n = 0;
	size_t k = 0;
	const char *dirs[2] = { "/dev/shm", "/var/run" };
	int d;
	out[0] = 0;
	for (d = 0; d < 2; d++) {
		DIR *dp = opendir(dirs[d]);
		struct dirent *e;
		if (!dp) continue;
		while ((e = readdir(dp)) != NULL) {
			char path[PATH_MAX];
			if (e->d_name[0] == '.') continue;
			if (d == 1 && strncmp(e->d_name, "create_from_file", 16) != 0) continue;
			n++;
			if (k + strlen(e->d_name) + 2 < room) {
				k += (size_t)snprintf(out + k, room - k, " %s", e->d_name);
			}
			if (remove_them) {
				snprintf(path, sizeof path, "%s/%s", dirs[d], e->d_name);
				unlink(path);
			}
		}
		closedir(dp);
	}
	return n;
}

/* ------------------------------------------------------------------ logging side */
static int inited = 0;
static int private_shm = 0;

static void close_log(void)
{
	if (inited) {
		qb_log_fini();
		inited = 0;
	}
}

static char *hex_in(const char *h)
{
	size_t n, i;
	char *s;
	if (h[0] != 'x') return strdup("");
	n = strlen(h + 1) / 2;
	s = malloc(n + 1);
	for (i = 0; i < n; i++) {
		s[i] = (char)(hexval(h[1 + 2 * i]) * 16 + hexval(h[2 + 2 * i]));
	}
	s[n] = 0;
	return s;
}

static void do_print(int errno0)
{
	char path[64];
	char cens[2048], before[2048];
	int ffd, ofd, rc, i, n;
	ssize_t w;
	off_t olen;
	char *obuf;

	census(before, sizeof before, 0);
	strcat(before, " ");
	ffd = mem_fd("vbfile");
	w = write(ffd, F, Fn);
	(void)w;
	snprintf(path, sizeof path, "/proc/self/fd/%d", ffd);

	ofd = mem_fd("vbout");
	fflush(stdout);
	saved_stdout = dup(1);
	dup2(ofd, 1);
	n_cr = 0;
	n_ev = 0;
	chunk_base = NULL;
	rec_on = 1;
	alarm(4);
	errno = errno0;
	rc = qb_log_blackbox_print_from_file(path);
	alarm(0);
	rec_on = 0;
	fflush(stdout);
	dup2(saved_stdout, 1);
	close(saved_stdout);
	saved_stdout = -1;
	close(ffd);

	for (i = 0; i < n_ev; i++) {
		printf("%s\n", ev[i]);
		free(ev[i]);
	}
	n_ev = 0;
	olen = lseek(ofd, 0, SEEK_END);
	obuf = malloc((size_t)olen + 1);
	lseek(ofd, 0, SEEK_SET);
	w = read(ofd, obuf, (size_t)olen);
	close(ofd);
	{
		off_t a = 0, b;
		static char hb[20000];
		while (a < olen) {
			b = a;
			while (b < olen && obuf[b] != '\n') b++;
			hexs(hb, sizeof hb, (unsigned char *)obuf + a, (size_t)(b - a));
			printf("o %s\n", hb);
			a = b + 1;
		}
	}
	free(obuf);
	printf("ret %d\n", rc);
	/* names present now that were not there before the call (the live blackbox's own ring files are not counted) */
	census(cens, sizeof cens, 0);
	{
		char *tok, *sv = NULL;
		static char newn[2048];
		size_t k = 0;
		n = 0;
		newn[0] = 0;
		for (tok = strtok_r(cens, " ", &sv); tok; tok = strtok_r(NULL, " ", &sv)) {
			char pat[300];
			snprintf(pat, sizeof pat, " %s ", tok);
			if (strstr(before, pat) == NULL) {
				n++;
				k += (size_t)snprintf(newn + k, sizeof newn - k, " %s", tok);
			}
		}
		printf("shm %d%s\n", n, newn);
	}
}

int main(void)
{
	static char line[1 << 22];
	struct sigaction sa;
	char cens[2048];
	int caseno = -1;

	setenv("TZ", "UTC", 1);
	tzset();
	memset(&sa, 0, sizeof sa);
	sa.sa_sigaction = on_fault;
	sa.sa_flags = SA_SIGINFO;
	sigaction(SIGSEGV, &sa, NULL);
	sigaction(SIGBUS, &sa, NULL);
	sigaction(SIGABRT, &sa, NULL);
	sigaction(SIGALRM, &sa, NULL);

	if (getenv("VB_NO_GUARD")) {
		guard_on = 0;
	}
	if (unshare(CLONE_NEWNS) == 0 &&
	    mount(NULL, "/", NULL, MS_REC | MS_PRIVATE, NULL) == 0 &&
	    mount("vb", "/dev/shm", "tmpfs", 0, "size=256m") == 0) {
		private_shm = 1;
		/* SOCKETDIR is the fall-back directory of qb_sys_mmap_file_open: make the census there private as well */
		(void)mount("vb", "/var/run", "tmpfs", 0, "size=16m");
	}
	setvbuf(stdout, NULL, _IOFBF, 1 << 16);

	while (fgets(line, sizeof line, stdin)) {
		char *nl = strchr(line, '\n');
		if (nl) *nl = 0;
		if (line[0] == '#') {
			int left;
			sscanf(line, "# case %d", &caseno);
			close_log();
			Fn = 0;
			vclock = 0;
			left = census(cens, sizeof cens, 1);
			printf("%s\n", line);
			if (!private_shm) {
				printf("note shared-shm\n");
			} else if (left) {
				printf("note cleaned %d%s\n", left, cens);
			}
			fflush(stdout);
			continue;
		}
		if (strncmp(line, "prios", 5) == 0) {
			int p;
			for (p = 0; p < 256; p++) {
				if (p < 10 || p == 255) {
					printf("prio %d %s\n", p, qb_log_priority2str((uint8_t)p));
				}
			}
		} else if (strncmp(line, "open ", 5) == 0) {
			int size = atoi(line + 5);
			char name[64];
			int32_t rc;
			close_log();
			snprintf(name, sizeof name, "vb%d-%d", (int)getpid(), caseno);
			qb_log_init(name, LOG_USER, LOG_EMERG);
			inited = 1;
			qb_log_ctl(QB_LOG_SYSLOG, QB_LOG_CONF_ENABLED, QB_FALSE);
			rc = qb_log_ctl(QB_LOG_BLACKBOX, QB_LOG_CONF_SIZE, size);
			if (rc == 0) {
				rc = qb_log_filter_ctl(QB_LOG_BLACKBOX, QB_LOG_FILTER_ADD, QB_LOG_FILTER_FILE, "*", LOG_TRACE);
			}
			if (rc == 0) {
				rc = qb_log_ctl(QB_LOG_BLACKBOX, QB_LOG_CONF_ENABLED, QB_TRUE);
			}
			printf("r %d\n", rc);
		} else if (strncmp(line, "log ", 4) == 0) {
			int prio, kind, a;
			unsigned int lineno, tags;
			static char fnh[8192], sh[8192];
			static char expect[8192], eh[17000], serh[9000];
			char *fn, *s;
			long long sec;
			long nsec;
			static int tick = 0;
			if (sscanf(line + 4, "%d %8191s %u %u %d %d %8191s", &prio, fnh, &lineno, &tags, &kind, &a, sh) != 7) {
				printf("note bad-log-line\n");
				continue;
			}
			fn = hex_in(fnh);
			s = hex_in(sh);
			tick++;
			sec = 1700000000LL + 86400LL * 31 * (caseno % 40) + 3601LL * tick;
			nsec = (long)((1000003LL * tick * 997) % 1000000000LL);
			vsec = sec;
			vnsec = nsec;
			vclock = 1;
			ser_last_n = 0;
			/* file name is not stored in the blackbox; function, line, tags, priority, time and message are */
			switch (kind) {
			case 1:
				qb_log_from_external_source(fn, "vb.c", "%d:%s", (uint8_t)prio, lineno, tags, a, s);
				snprintf(expect, sizeof expect, "%d:%s", a, s);
				break;
			case 2:
				qb_log_from_external_source(fn, "vb.c", s, (uint8_t)prio, lineno, tags);
				snprintf(expect, sizeof expect, "%s", s);
				break;
			case 3:
				qb_log_from_external_source(fn, "vb.c", "%s %5d|%-4x", (uint8_t)prio, lineno, tags, s, a, (unsigned)a);
				snprintf(expect, sizeof expect, "%s %5d|%-4x", s, a, (unsigned)a);
				break;
			default:
				qb_log_from_external_source(fn, "vb.c", "%s", (uint8_t)prio, lineno, tags, s);
				snprintf(expect, sizeof expect, "%s", s);
				break;
			}
			vclock = 0;
			hexs(eh, sizeof eh, (unsigned char *)expect, strlen(expect));
			hexs(serh, sizeof serh, ser_last, ser_last_n);
			printf("logged %lld %ld %s %s\n", sec, nsec, eh, serh);
			free(fn);
			free(s);
		} else if (strncmp(line, "dump", 4) == 0) {
			char path[64];
			int fd = mem_fd("vbdump");
			int ofd, so;
			ssize_t rc;
			off_t len;
			ssize_t g;
			snprintf(path, sizeof path, "/proc/self/fd/%d", fd);
			/* qb_rb_write_to_file prints the ring header to stdout: swallow it */
			ofd = mem_fd("vbout");
			fflush(stdout);
			so = dup(1);
			dup2(ofd, 1);
			rc = qb_log_blackbox_write_to_file(path);
			fflush(stdout);
			dup2(so, 1);
			close(so);
			close(ofd);
			len = lseek(fd, 0, SEEK_END);
			f_resize((size_t)len);
			lseek(fd, 0, SEEK_SET);
			g = read(fd, F, (size_t)len);
			(void)g;
			close(fd);
			printf("dump %zd %lld\n", rc, (long long)len);
		} else if (strncmp(line, "raw", 3) == 0) {
			f_from_rle(line + 3);
		} else if (strncmp(line, "setw ", 5) == 0) {
			unsigned long off;
			unsigned long long v;
			if (sscanf(line + 5, "%lu %llu", &off, &v) == 2) {
				if (off + 4 > Fn) f_resize(off + 4);
				F[off] = v & 255;
				F[off + 1] = (v >> 8) & 255;
				F[off + 2] = (v >> 16) & 255;
				F[off + 3] = (v >> 24) & 255;
			}
		} else if (strncmp(line, "setb ", 5) == 0) {
			unsigned long off;
			unsigned int v;
			if (sscanf(line + 5, "%lu %u", &off, &v) == 2) {
				if (off + 1 > Fn) f_resize(off + 1);
				F[off] = (unsigned char)v;
			}
		} else if (strncmp(line, "trunc ", 6) == 0) {
			f_resize((size_t)strtoul(line + 6, NULL, 0));
		} else if (strncmp(line, "getw ", 5) == 0) {
			unsigned long off = strtoul(line + 5, NULL, 0);
			unsigned long v = 0;
			if (off + 4 <= Fn) {
				v = F[off] | (F[off + 1] << 8) | (F[off + 2] << 16) | ((unsigned long)F[off + 3] << 24);
			}
			printf("w %lu %lu\n", off, v);
		} else if (strncmp(line, "leftover ", 9) == 0) {
			/* environment probe: files a crashed / concurrent printer left behind (bit 0: header in /dev/shm,
			 * bit 1: header in SOCKETDIR, bit 2: data in /dev/shm, bit 3: data in SOCKETDIR) */
			int m = atoi(line + 9);
			const char *nm[4] = { "/dev/shm/qb-create_from_file-header", "/var/run/create_from_file-header",
					      "/dev/shm/qb-create_from_file-data", "/var/run/create_from_file-data" };
			int k;
			for (k = 0; k < 4; k++) {
				if (m & (1 << k)) {
					int lfd = open(nm[k], O_CREAT | O_RDWR, 0600);
					if (lfd >= 0) close(lfd);
				}
			}
		} else if (strncmp(line, "emit", 4) == 0) {
			f_emit();
		} else if (strncmp(line, "print", 5) == 0) {
			do_print(atoi(line + 5));
		} else if (line[0]) {
			printf("note unknown-command\n");
		}
		fflush(stdout);
	}
	close_log();
	return 0;
}
