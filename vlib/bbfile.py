"""C15 helpers: building dump files byte by byte, driving harness/h_bbfile.c and the extracted model,
rendering the model's events as the stdout text the printer must produce, and the implementation-side monitor."""
import struct
import time
from vlib import common as C

LDFLAGS = ["-Wl,--wrap=mmap", "-Wl,--wrap=munmap", "-Wl,--wrap=clock_gettime", "-Wl,--wrap=qb_rb_chunk_read",
           "-Wl,--wrap=qb_vsnprintf_deserialize", "-Wl,--wrap=qb_vsnprintf_deserialize_n",
           "-Wl,--wrap=qb_vsnprintf_serialize"]
# our own handlers report faults (guard mapping, assert); ASan keeps reporting heap/stack errors
ENV = {"ASAN_OPTIONS": C.IMPL_ENV["ASAN_OPTIONS"] + ":handle_segv=0:handle_abort=0:handle_sigbus=0"}

MAGIC = 0xA1A1A1A1
MARK = struct.pack("<5I", 0, 0xCCBBCCBB, 0xBBCCBBCC, 2, 0)
ASAN_FILL = 0xbe       # malloc_fill_byte of ASan: content of the "uninitialised" chunk buffer in the harness


def build():
    lib = C.build_lib()
    return C.build_harness("h_bbfile", ["h_bbfile.c"], lib=lib, ldflags=LDFLAGS)


# ------------------------------------------------------------------ bytes <-> text
def rle(b):
    out = []
    i = 0
    n = len(b)
    while i < n:
        j = i
        while j < n and b[j] == b[i]:
            j += 1
        if j - i >= 8:
            out.append("*%d:%02x" % (j - i, b[i]))
            i = j
        else:
            k = i
            while k < n:
                m = k
                while m < n and b[m] == b[k]:
                    m += 1
                if m - k >= 8:
                    break
                k = m
            out.append(bytes(b[i:k]).hex())
            i = k
    return " ".join(out)


def unrle(text):
    out = bytearray()
    for t in text.split():
        if t.startswith("*"):
            c, b = t[1:].split(":")
            out += bytes([int(b, 16)]) * int(c)
        else:
            out += bytes.fromhex(t)
    return bytes(out)


def hx(b):
    return "x" + bytes(b).hex()


def unhx(s):
    return bytes.fromhex(s[1:]) if s.startswith("x") else b""


# ------------------------------------------------------------------ building files
def rb_header(W, wp, rp, ver=1, hash_=None):
    if hash_ is None:
        hash_ = (W + wp + rp + ver) & 0xFFFFFFFF
    return struct.pack("<5I", W & 0xFFFFFFFF, wp & 0xFFFFFFFF, rp & 0xFFFFFFFF, ver & 0xFFFFFFFF, hash_ & 0xFFFFFFFF)


def record(lineno, tags, prio, fn, sec, nsec, msg, fn_size=None, msg_len=None, new=True):
    """fn and msg are given WITH their terminating NULs where the writer would put them"""
    ts = struct.pack("<qQ", sec, nsec & (2 ** 64 - 1)) if new else struct.pack("<q", sec)
    return struct.pack("<IIBI", lineno, tags, prio, len(fn) if fn_size is None else fn_size) + fn + ts + \
        struct.pack("<I", len(msg) if msg_len is None else msg_len) + msg


def ring_image(W, chunks, rp=0, sizes=None):
    """chunks laid out from word rp (wrapping); returns (data bytes, write_pt)"""
    data = bytearray(W * 4)
    p = rp
    for k, c in enumerate(chunks):
        size = len(c) if sizes is None or sizes[k] is None else sizes[k]
        for j, by in enumerate(struct.pack("<II", size & 0xFFFFFFFF, MAGIC)):
            data[((p * 4) + j) % (W * 4)] = by
        for j, by in enumerate(c):
            data[((p + 2) * 4 + j) % (W * 4)] = by
        p = (p + 2 + (len(c) + 3) // 4) % W
    return bytes(data), p


def dump_file(W, chunks, rp=0, new=True, sizes=None):
    data, wp = ring_image(W, chunks, rp, sizes)
    return (MARK if new else b"") + rb_header(W, wp, rp) + data


# ------------------------------------------------------------------ expected stdout from model events
MONTHS = ["Jan", "Feb", "Mar", "Apr", "May", "Jun", "Jul", "Aug", "Sep", "Oct", "Nov", "Dec"]


def time_text(sec, nsec):
    """what print_from_file puts into time_buf (TZ=UTC in the harness): strftime "%b %d %T" + ".%03llu" of
    nsec / 1000000 (unsigned), or the seconds in decimal when localtime() fails (year does not fit an int)"""
    try:
        tm = time.gmtime(sec)
        if not (-2 ** 31 <= tm.tm_year - 1900 < 2 ** 31):
            raise OverflowError
        return "%s %02d %02d:%02d:%02d.%03d" % (MONTHS[tm.tm_mon - 1], tm.tm_mday, tm.tm_hour, tm.tm_min, tm.tm_sec,
                                                 (nsec & (2 ** 64 - 1)) // 1000000)
    except (OverflowError, OSError, ValueError):
        return "%d" % sec


def render(model_lines, prio_names):
    """model event lines -> list of stdout lines (bytes); error messages are rendered as b'ERROR' + kind"""
    out = []
    for l in model_lines:
        p = l.split()
        if p[0] == "hdr":
            W, wp, rp, fr, us = [int(x, 0) for x in p[1:6]]
            out += [b"Ringbuffer: ", b" ->NORMAL", b" ->write_pt [%d]" % wp, b" ->read_pt [%d]" % rp,
                    b" ->size [%d words]" % W, b" =>free [%d bytes]" % fr, b" =>used [%d bytes]" % us]
        elif p[0] == "rec":
            prio, sec, nsec = int(p[1], 0), int(p[2], 0), int(p[3], 0)
            fn, line, tags, msg = unhx(p[4]), int(p[5], 0), int(p[6], 0), unhx(p[7])
            name = prio_names.get(prio if prio <= 8 else 8, "?")
            out += (b"%-7s %s %s(%d):%d: %s" % (name.encode(), time_text(sec, nsec).encode(), fn, line, tags, msg)).split(b"\n")
        elif p[0] == "err" and p[1] != "2":
            out.append(b"ERROR")
    return out


def impl_stdout(lines):
    res = []
    for l in lines:
        if l.startswith("o x"):
            res.append(bytes.fromhex(l[3:]))
        elif l == "o x" or l == "o":
            res.append(b"")
    return res


def canon_stdout(lines):
    """error texts are not compared (only that an error line is there)"""
    return [b"ERROR" if x.startswith(b"ERROR") else x for x in lines]


# ------------------------------------------------------------------ model input from an implementation log
def model_script(impl_lines, file_rle, errno0, fix=(1, 1), heap=ASAN_FILL, stk=0):
    orc = []
    for l in impl_lines:
        if l.startswith("ds "):
            p = l.split()
            orc.append(p[4] if len(p) > 4 else "x")
    return "fix %d %d\nheap %d\nstk %d\nerrno %d\norc %s\nfile %s\n" % (fix[0], fix[1], heap, stk, errno0, " ".join(orc), file_rle)


def split_print(lines):
    """the part of a case's impl output that belongs to the (last) print command"""
    keep = [l for l in lines if l.split(" ")[0] in ("cr", "ds", "o", "ret", "shm", "fault")]
    return keep


def compare(impl_lines, model_lines, prio_names):
    """first difference between what the implementation did and what the model says, or None"""
    il = split_print(impl_lines)
    i_cr = [l.split()[3] for l in il if l.startswith("cr ")]
    m_cr = [l.split()[1] for l in model_lines if l.startswith("cr ")]
    if [int(x) for x in i_cr] != [int(x, 0) for x in m_cr]:
        return "qb_rb_chunk_read results: impl %s model %s" % (i_cr[:12], m_cr[:12])
    i_ds = [tuple(int(x) for x in l.split()[1:3]) for l in il if l.startswith("ds ")]
    m_ds = [tuple(int(x, 0) for x in l.split()[1:3]) for l in model_lines if l.startswith("ds ")]
    if i_ds != m_ds:
        return "decoder calls (offset in chunk, length handed over): impl %s model %s" % (i_ds[:8], m_ds[:8])
    i_out = canon_stdout(impl_stdout(il))
    m_out = render(model_lines, prio_names)
    d = C.first_diff([repr(x) for x in i_out], [repr(x) for x in m_out])
    if d:
        return "stdout line %d: impl %s model %s" % d
    i_ret = [l for l in il if l.startswith("ret ") or l.startswith("fault")]
    m_ret = [l for l in model_lines if l.startswith("ret ") or l.startswith("fault")]
    if [C.norm_nums(x) for x in i_ret] != [C.norm_nums(x) for x in m_ret]:
        return "result: impl %s model %s" % (i_ret, m_ret)
    i_shm = [l.split()[1] for l in il if l.startswith("shm ")]
    m_shm = [l.split()[1] for l in model_lines if l.startswith("shm ")]
    if i_shm != m_shm:
        return "shm files left: impl %s model %s" % (i_shm, m_shm)
    return None


# ------------------------------------------------------------------ monitor (independent of the model)
def monitor_robust(lines, crash):
    """C15, second half, stated over the implementation's log of ONE print: it returned, nothing faulted, nothing
    is left in /dev/shm"""
    if crash:
        what = [l for l in lines if l.startswith("fault")]
        return "printing the file did not return: %s (rc=%s) %s" % (what[0] if what else "process died", crash[0],
                                                                       crash[1][-400:].replace("\n", " | "))
    if any(l.startswith("fault") for l in lines):
        return "fault reported: %s" % [l for l in lines if l.startswith("fault")][0]
    rets = [l for l in lines if l.startswith("ret ")]
    if len(rets) != 1:
        return "no result code"
    shm = [l for l in lines if l.startswith("shm ")]
    if not shm or shm[-1].split()[1] != "0":
        return "shared-memory files left behind: %s" % (shm[-1] if shm else "?")
    return None


def expected_record_line(prio_names, prio, fn, line, tags, sec, nsec, text):
    name = prio_names.get(prio if prio <= 8 else 8, "?")
    # the printer strips trailing newlines of the message (but never its first byte)
    t = text
    while len(t) > 1 and t.endswith(b"\n"):
        t = t[:-1]
    return b"%-7s %s %s(%d):%d: %s" % (name.encode(), time_text(sec, nsec).encode(), fn, line, tags, t)


def monitor_roundtrip(logged, lines, prio_names):
    """C15, first half, over the implementation's log: `logged' = [(prio, fn, line, tags, sec, nsec, text)] in
    logging order; the printed entries must be exactly the newest k of them (k >= 1 when anything was logged),
    each with every field as logged"""
    out = impl_stdout(split_print(lines))
    body = b"\n".join(x for x in out[7:] if not x.startswith(b"ERROR"))
    if len(out) < 7 or out[0] != b"Ringbuffer: ":
        return "the dump was not accepted: %s" % out[:2]
    exp = [expected_record_line(prio_names, *r) for r in logged]
    if not logged:
        return None if body == b"" else "entries printed but nothing was logged"
    for k in range(len(exp), 0, -1):
        if b"\n".join(exp[-k:]) == body:
            return None
    return "printed entries are not the newest k >= 1 logged ones; printed %r ... expected tail %r" % (body[-200:], exp[-1][-200:])
