"""Shared by props/C02.py and props/C06.py: building the IPC lab (harness/h_ipcdata.c), running scripts on the
implementation and on the extracted model, parsing the implementation log, and the implementation-side
monitors (independent of the model)."""
import os
import re
import stat
from vlib import common as C

# UBSan's alignment check is off for the lab: ring chunks are only 4-byte aligned while
# struct qb_ipc_request_header is declared aligned(8), so every ordinary request trips it (harmless on x86,
# and not what C02/C06 are about).  Everything else of ASan+UBSan stays on.
FLAGS = C.ASAN_FLAGS + ["-fno-sanitize=alignment"]
WRAP = ["-Wl,--wrap=send", "-Wl,--wrap=writev"]

EAGAIN, EMSGSIZE, ENOBUFS, ETIMEDOUT = 11, 90, 105, 110
HDR = 16


def build():
    lib = C.build_lib(variant="asan-noalign", flags=FLAGS)
    exe = C.build_harness("h_ipcdata", ["h_ipcdata.c"], lib=lib, flags=FLAGS, ldflags=WRAP)
    return exe


def cleanup_shm():
    """Remove what crashed or killed lab processes left under /dev/shm (their services are named vq<pid>_<n>)."""
    try:
        names = os.listdir("/dev/shm")
    except OSError:
        return
    for n in names:
        m = re.match(r"^qb-(\d+)-\d+-\d+-[A-Za-z0-9]{6}$", n)
        if not m or os.path.exists("/proc/" + m.group(1)):
            continue
        d = os.path.join("/dev/shm", n)
        try:
            inside = os.listdir(d)
        except OSError:
            continue
        if inside and all(("-vq" + m.group(1) + "_") in f for f in inside):
            for f in inside:
                try:
                    os.unlink(os.path.join(d, f))
                except OSError:
                    pass
            try:
                os.rmdir(d)
            except OSError:
                pass


def run_impl(exe, cases, timeout=900):
    """cases: list of lists of script lines -> list of (lines, crash)"""
    texts = ["\n".join(c) + "\n" for c in cases]
    res = C.run_cases(exe, texts, timeout=timeout)
    if any(crash for _, crash in res):
        cleanup_shm()
    out = []
    for lines, crash in res:
        end = [l for l in lines if l.startswith("END ")]
        lines = [l for l in lines if not l.startswith("END ")]
        if end and not crash and not re.match(r"^END shm_left=0 fds_delta=0$", end[0]):
            crash = (0, "residue at exit: " + end[0])
        out.append((lines, crash))
    return out


def run_model(model, impl, variant=None):
    """Run the extracted model on the concrete calls + kernel outcomes of the implementation log.
    variant="orig" selects the model of the code as found (without the proposed fixes)."""
    texts = ["\n".join(lines) + "\n" for lines, crash in impl]
    if not variant:
        return C.run_cases(model, texts, timeout=900)
    # C.run_cases passes no argv: use a tiny wrapper script next to the model binary
    w = model + "-" + variant + ".sh"
    if not os.path.exists(w):
        with open(w, "w") as f:
            f.write("#!/bin/sh\nexec '%s' %s\n" % (model, variant))
        os.chmod(w, os.stat(w).st_mode | stat.S_IEXEC)
    return C.run_cases(w, texts, timeout=900)


def comparable(lines):
    """Lines both sides print: everything except the kernel-outcome lines."""
    return [C.norm_nums(l) for l in lines if not (l.startswith("e ") or l.startswith("hb"))]


# ---------------------------------------------------------------------------------------------- log parsing
class Block:
    __slots__ = ("op", "env", "cbs", "closed", "res", "st", "raw", "hb", "mraw")

    def __init__(self, op):
        self.op = op          # tokens of the op line
        self.env = []         # (class, len, result)
        self.cbs = []         # M lines: (size, tag, id, hsz, ok)
        self.closed = False   # "cb closed" seen during this op
        self.res = None       # tokens of the r line
        self.st = None        # dict of the st line, or "closed"
        self.raw = []
        self.hb = None        # (k, bytes) a raw handshake peer wrote during this op
        self.mraw = 0         # msg_process calls on behalf of raw handshake peers


def parse_blocks(lines):
    blocks = []
    cur = None
    for l in lines:
        t = l.split()
        if not t:
            continue
        if t[0] == "op":
            cur = Block(t[1:])
            blocks.append(cur)
            continue
        if cur is None:
            continue
        cur.raw.append(l)
        if t[0] == "e":
            cur.env.append((t[1], int(t[2]), int(t[3])))
        elif t[0] == "M":
            cur.cbs.append(tuple(int(x) for x in t[1:6]))
        elif t[0] == "hb":
            cur.hb = (int(t[1]), bytes.fromhex(t[2]) if len(t) > 2 else b"")
        elif t[0] == "M-raw":
            cur.mraw += 1
        elif t[0] == "cb" and t[1] == "closed":
            cur.closed = True
        elif t[0] == "r":
            cur.res = t[1:]
        elif t[0] == "st":
            if t[1] == "closed":
                cur.st = "closed"
            else:
                cur.st = dict((kv.split("=")[0], int(kv.split("=")[1])) for kv in t[1:])
    return blocks


# ---------------------------------------------------------------------------------------------- C02 monitor
def monitor_c02(lines):
    """Executable statement of C02 over the implementation's log (API-level observables only).
    Returns None or a message.  Scripts given to it contain only well-behaved calls (no raw ops)."""
    blocks = parse_blocks(lines)
    mx = None
    shm = None
    # per channel: list of [tag, len, certain] accepted and not yet delivered
    pend = {"req": [], "resp": [], "evt": []}
    alive = True

    def deliver(chan, tag, what):
        q = pend[chan]
        while q and q[0][0] != tag and not q[0][2]:
            q.pop(0)          # an uncertain entry (sendv_recv that failed after/before sending) that was not sent
        if not q:
            return "%s: message tag %d delivered on channel %s but nothing accepted is outstanding " \
                   "(duplicate, or delivered after a failed send)" % (what, tag, chan)
        if q[0][0] != tag:
            return "%s: channel %s delivered tag %d but the oldest accepted undelivered message is tag %d " \
                   "(lost or reordered)" % (what, chan, tag, q[0][0])
        return None

    for b in blocks:
        o = b.op
        name = o[0]
        what = "op " + " ".join(o)
        if name == "open":
            if b.res is None or b.res[0] != "0":
                return "open failed: %s" % b.res
            mx = int(b.res[1])
            shm = (o[1] == "shm")
            continue
        if name == "close":
            if b.res != ["0", "shm_left=0", "fds_delta=0"]:
                return "close left residue: %s" % b.res
            continue
        if name in ("mr", "ctl"):
            continue
        if b.res is None:
            return "%s: no result (crash/hang inside the call?)" % what
        if b.res[0] == "closed":
            if alive:
                return "%s: the server dropped a well-behaved client" % what
            continue
        if b.closed:
            alive = False
            return "%s: the server disconnected a well-behaved client" % what
        res = int(b.res[0])
        if name in ("cs", "cv", "cx", "sr", "sv", "se", "sw"):
            ln, tag = int(o[1]), int(o[2])
            chan = {"c": "req", "r": "resp", "v": "resp", "e": "evt", "w": "evt"}[name[1] if name[0] == "s" else "c"]
            if name == "cx":
                # send + receive in one call
                if ln > mx and res >= 0:
                    return "%s: %d bytes exceed the negotiated maximum %d but the call returned %d " \
                           "(an over-size message must be refused)" % (what, ln, mx, res)
                if res >= 0:
                    pend["req"].append([tag, ln, True])
                    rtag, ok = int(b.res[1]), int(b.res[4])
                    m = deliver("resp", rtag, what)
                    if m:
                        return m
                    e = pend["resp"].pop(0)
                    if res != e[1] or not ok:
                        return "%s: response tag %d arrived with %d bytes (sent %d), content ok=%d" % (what, rtag, res, e[1], ok)
                elif ln <= mx:
                    pend["req"].append([tag, ln, False])      # may or may not have gone out
            else:
                if ln > mx:
                    if res >= 0:
                        return "%s: %d bytes exceed the negotiated maximum %d but the send returned %d " \
                               "(an over-size message must be refused)" % (what, ln, mx, res)
                elif res == ln:
                    pend[chan].append([tag, ln, True])
                elif res >= 0:
                    return "%s: send returned %d for a %d-byte message" % (what, res, ln)
        elif name in ("cr", "ce"):
            chan = "resp" if name == "cr" else "evt"
            bl = int(o[1])
            q = pend[chan]
            while q and not q[0][2]:
                q.pop(0)
            if res >= 0:
                rtag, ok = int(b.res[1]), int(b.res[4])
                m = deliver(chan, rtag, what)
                if m:
                    return m
                e = q.pop(0)
                if res != e[1] or not ok:
                    return "%s: tag %d arrived with %d bytes (sent %d), content ok=%d" % (what, rtag, res, e[1], ok)
                if res > bl:
                    return "%s: %d bytes returned into a %d-byte buffer" % (what, res, bl)
            else:
                if q and q[0][1] <= bl:
                    # something is queued and would fit: the receive call must return it - except for an event
                    # whose notification is still deferred (POLLOUT armed: the server's next turn re-sends it)
                    deferred = (name == "ce" and isinstance(b.st, dict) and b.st.get("po") == 1)
                    if not deferred:
                        return "%s: returned %d although tag %d (%d bytes) is queued and fits" % (what, res, q[0][0], q[0][1])
        elif name == "t":
            for (size, tag, mid, hsz, ok) in b.cbs:
                m = deliver("req", tag, what)
                if m:
                    return m
                e = pend["req"].pop(0)
                if size != e[1] or not ok:
                    return "%s: msg_process got tag %d with size %d (sent %d), content ok=%d" % (what, tag, size, e[1], ok)
        # readability clause: an event is queued and unread => the client's descriptor is readable, or the
        # notification is deferred and POLLOUT is armed so that the next loop turn re-sends it
        if isinstance(b.st, dict):
            nev = len([e for e in pend["evt"] if e[2]])
            if nev > 0 and b.st["crd"] == 0 and b.st["po"] == 0:
                return "%s: %d event(s) queued and unread, but the client's descriptor is not readable and no " \
                       "re-notification is armed" % (what, nev)
            if b.st["eq"] != nev:
                return "%s: the server reports %d queued events, the history says %d" % (what, b.st["eq"], nev)
    return None


def leftovers(lines):
    """(req, resp, evt) accepted-but-undelivered counts at the end of a drained case (for the no-loss check)."""
    blocks = parse_blocks(lines)
    sent = {"req": 0, "resp": 0, "evt": 0}
    got = {"req": 0, "resp": 0, "evt": 0}
    for b in blocks:
        o = b.op
        if b.res is None or not b.res or b.res[0] == "closed":
            continue
        try:
            res = int(b.res[0])
        except ValueError:
            continue
        if o[0] in ("cs", "cv") and res == int(o[1]):
            sent["req"] += 1
        elif o[0] in ("sr", "sv") and res == int(o[1]):
            sent["resp"] += 1
        elif o[0] in ("se", "sw") and res == int(o[1]):
            sent["evt"] += 1
        elif o[0] == "cr" and res >= 0:
            got["resp"] += 1
        elif o[0] == "ce" and res >= 0:
            got["evt"] += 1
        elif o[0] == "t":
            got["req"] += len(b.cbs)
        elif o[0] == "cx":
            if res >= 0:
                sent["req"] += 1
                got["resp"] += 1
    return tuple(sent[k] - got[k] for k in ("req", "resp", "evt"))


# ---------------------------------------------------------------------------------------------- C06 monitor
CONNREQ = 24          # sizeof(struct qb_ipc_connection_request); checked against the consts the harness prints? no: see below
AUTH_ID = -1          # QB_IPC_MSG_AUTHENTICATE


def _kv(tokens):
    return dict((x.split("=")[0], int(x.split("=")[1])) for x in tokens if "=" in x and x.split("=")[1].lstrip("-").isdigit())


def monitor_c06(lines, connreq=CONNREQ, auth_id=AUTH_ID):
    """C06 stated over the implementation log alone (no model involved).
    (a) a peer that is not an accepted client: connection_accept only after a complete request with the AUTHENTICATE id
        has arrived from it, never more than once; msg_process never; the server keeps answering a well-behaved control
        client; once every raw peer is gone the service holds exactly what it held before they came (poll-table
        entries, descriptors, /dev/shm entries, references); nothing is left at close;
    (b)/(c) an accepted client: msg_process is never told more than was really sent, nor more than the negotiated
        maximum, and the bytes it sees are the sender's; no sanitizer report (checked by the caller via the exit status)."""
    blocks = parse_blocks(lines)
    mx = None
    real = {}          # tag -> real length sent
    sent = {}          # raw peer -> bytes written so far
    accepted = set()
    open_raw = set()
    baseline = None    # census with no raw peer around
    main_alive = False
    for b in blocks:
        o = b.op
        what = "op " + " ".join(o)
        name = o[0]
        if b.mraw:
            return "%s: msg_process was called on behalf of a raw handshake peer" % what
        if b.res is None and name not in ("mr",):
            return "%s: no result (crash/hang inside the call?)" % what
        if name == "open":
            if b.res[0] != "0":
                return "open failed: %s" % b.res
            mx = int(b.res[1])
            main_alive = True
            baseline = None
        elif name == "serve":
            if b.res[0] != "0":
                return "serve failed: %s" % b.res
            baseline = None
        elif name in ("cs", "cv", "cx") and len(o) >= 3:
            real[int(o[2])] = int(o[1])
        elif name == "rq" and len(o) >= 5:
            real[int(o[4])] = int(o[1])
        elif name == "ctl":
            if b.res != ["1"]:
                return "%s: the server no longer serves a well-behaved client (%s)" % (what, b.res)
        elif name == "close":
            if b.res != ["0", "shm_left=0", "fds_delta=0"]:
                return "close left residue: %s" % b.res
        elif name == "hs":
            kv = _kv(b.res[1:])
            if not b.res[0].lstrip("-").isdigit() or int(b.res[0]) < 0:
                continue          # the lab itself could not connect / ran out of slots: nothing to judge
            k = int(b.res[0])
            if b.hb is not None and k not in accepted:
                sent[k] = sent.get(k, b"") + b.hb[1]
            open_raw.add(k)
            if kv.get("msgproc", 0) != 0:
                return "%s: msg_process was called while handling a raw peer" % what
            acc = kv.get("accept", 0)
            if acc:
                data = sent.get(k, b"")
                ok = len(data) >= connreq and int.from_bytes(data[0:4], "little", signed=True) == auth_id
                if not ok:
                    return "%s: connection_accept was called for raw peer %d although it had not sent a complete " \
                           "AUTHENTICATE request (%d bytes so far)" % (what, k, len(data))
                if acc > 1 or k in accepted:
                    return "%s: connection_accept was called more than once for raw peer %d" % (what, k)
                accepted.add(k)
        elif name in ("hx", "hh"):
            kv = _kv(b.res[1:])
            if kv.get("msgproc", 0) != 0:
                return "%s: msg_process was called while handling a raw peer" % what
            if name == "hx":
                open_raw.discard(int(o[1]))
        elif name == "census":
            kv = _kv(b.res)
            if not open_raw and baseline is None:
                baseline = kv
            elif not open_raw and baseline is not None and (mx is None or main_alive):
                if kv != baseline:
                    return "%s: every raw peer is gone but the service holds %s, before they came it held %s" % (
                        what, kv, baseline)
        if b.closed:
            main_alive = False
            baseline = None
        for (size, tag, mid, hsz, ok) in b.cbs:
            rl = real.get(tag)
            if rl is None:
                return "%s: msg_process got a message with unknown tag %d" % (what, tag)
            if size > rl:
                return "%s: msg_process was told %d bytes but only %d were sent (tag %d, header size field %d)" % (
                    what, size, rl, tag, hsz)
            if mx is not None and size > mx:
                return "%s: msg_process was told %d bytes, more than the negotiated maximum %d (tag %d)" % (
                    what, size, mx, tag)
            if not ok:
                return "%s: msg_process saw corrupted bytes (tag %d)" % (what, tag)
    return None
