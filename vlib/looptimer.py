"""C09 helpers: script generators for harness/h_looptimer.c and the independent monitor that states the
property over the implementation's log (no use of the Coq model)."""

U64 = (1 << 64) - 1
INT32_MAX = (1 << 31) - 1
NS_MS = 1000000

RES_CHOICES = [1, 1, 1000000, 4000000, 10000000]          # clock_getres: hz = 1e9, 1000, 250, 100
CSTEP_CHOICES = [0, 0, 0, 0, 0, 0, 1, 3, 999, 1000001]


def num(x):
    """decimal when small (the OCaml side reads decimals with int_of_string), hex otherwise"""
    return str(x) if -(1 << 60) < x < (1 << 60) else hex(x)


def boundary_durations(clk):
    ms = NS_MS
    return [0, 1, ms - 1, ms, ms + 1, 2 * ms, 3 * ms, 7 * ms + 5, 20 * ms, 49 * ms, 50 * ms, 51 * ms, 1000 * ms,
            (2 ** 31 - 1) * ms, 2 ** 31 * ms, (2 ** 31 + 10) * ms, (2 ** 32 - 1) * ms, 2 ** 32 * ms, (2 ** 32 + 10) * ms,
            2 ** 63 - 1, 2 ** 63, 2 ** 63 + 1, max(0, U64 - clk - 1), max(0, U64 - clk), min(U64, U64 - clk + 1),
            min(U64, U64 - clk + 1000), U64 - 6, U64 - 1, U64]


# ------------------------------------------------------------------ corpus (run first, every time)
def corpus():
    c = []
    # the three defects of the code as found (fixes/C09-*.patch); the monitor reports them on an unpatched tree
    c.append(["I 1 1000 0", "A 2 2147483658000000 1 7", "M", "RUN 0"])
    c.append(["I 1 1000 0", "A 2 4294967306000000 1 7", "M", "RUN 0 -1"])
    c.append(["I 1 1000 0", "A 2 0xfffffffffffffffa 3 9", "X @0", "U @0", "R @0", "RUN 0 0"])
    c.append(["I 1 1000 0", "A 2 %s 1 7" % hex(2 ** 64 - 1000), "U @0", "X @0", "R @0", "RUN -2 -2"])
    c.append(["I 1 1000 0", "A 0 1000000 1 7", "RUN -2 -2", "RUN -1", "RUN -2 -2 -2"])
    c.append(["I 1 1000 0", "B 1 S", "A 2 1000000 1 7", "A 0 1000000 2 8", "A 1 1000000 3 9", "RUN -2 -2 -2", "RUN -1 -1 -1 -1"])
    # delete from inside a callback: another pending timer, another already queued timer, itself (stale by then)
    c.append(["I 1 1000 0", "B 1 D @1 ; D @2 ; D @0 ; U @1 ; U @2 ; A 1 2000000 4 14 ; X @3",
              "A 1 1000000 1 10", "A 1 1000000 2 11", "A 1 9000000 3 12", "RUN -2 -2 -2 -2 -2 -2 -2"])
    # never-issued handle value (check half 0) aimed at the slot whose callback is running
    # (fixes/C08-timer-del-forged-handle.patch): must be refused; the timer added next must survive
    c.append(["I 1 1000 0", "B 2 D L1 ; A 0 5000000 4 104 ; U @2", "A 2 1000000000000 1 101", "A 0 1000000 2 102", "T 2000000",
              "RUN -2 -2 -2 -2", "U @2", "X @2", "T 9000000", "RUN -2 -2 -2 -2 -2", "U @2"])
    # equal expiries, one priority; more than to_process of them
    c.append(["I 1 1000 0"] + ["A 1 5000000 %d %d" % (i, 20 + i) for i in range(1, 8)] + ["RUN -2 -2 -2 -2 -2 -2 -2 -2"])
    # the 50 ms job throttle with a timer due earlier; one clock tick of slack (hz = 250 -> 4 ms)
    c.append(["I 4000000 1000 3", "J 1 1005", "A 1 60000000 6 77", "RUN -1 -1 -1 -1 -1"])
    c.append(["I 10000000 1000 0", "A 2 25000000 1 5", "M", "RUN -1 -1 -1 -1"])
    # queries before / at / after expiry and after dispatch
    c.append(["I 1 1000 0", "A 2 1000000 1 7", "X @0", "R @0", "U @0", "T 999999", "R @0", "U @0", "T 1", "R @0", "U @0",
              "T 1", "R @0", "U @0", "M", "RUN -2 -2", "X @0", "R @0", "U @0", "D @0"])
    # clock near the top of the 64-bit range
    c.append(["I 1 %s 0" % hex(U64 - 5000000), "A 2 1000000 1 7", "A 2 4999999 2 8", "A 2 5000000 3 9", "A 2 5000001 4 10",
              "M", "RUN -2 -2 -2 -2", "T 10000000", "RUN -2 -2 -2"])
    # heap level: delete root / last / middle / only element, equal keys
    c.append(["I 1 100 0", "HA 50", "HD 0", "HA 50", "HA 30", "HA 70", "HA 10", "HA 30", "HA 90", "HA 20", "HD 4", "HD 3", "HD 6",
              "HD 6", "HA 5", "HE 131", "HE 1000", "HD 1"])
    c.append(["I 1 100 0"] + ["HA %d" % d for d in [9, 8, 7, 6, 5, 4, 3, 2, 1, 5, 5, 5]] + ["HD 11", "HD 0", "HD 5", "HE 105", "HE 106",
                                                                                            "HE 200"])
    c.append(["I 1 160 0", "HA 10", "HA 0xffffffffffffffff", "HA 0xfffffffffffffff0", "HE 0xffffffffffffffff"])
    return c


# ------------------------------------------------------------------ generators
class Gen:
    def __init__(self, rng):
        self.rng = rng
        self.dist = {"dur_small": 0, "dur_ge_2^31ms": 0, "dur_ge_2^32ms": 0, "dur_ge_2^63": 0, "dur_saturating": 0,
                     "hz": {}, "cstep_nonzero": 0, "callback_behaviours": 0, "unit_cases": 0, "loop_cases": 0}

    def duration(self, clk):
        r = self.rng
        x = r.random()
        if x < 0.45:
            d = r.choice([0, 1, NS_MS - 1, NS_MS, NS_MS + 1, r.randrange(1, 30) * NS_MS, r.randrange(1, 30 * NS_MS),
                          50 * NS_MS, r.randrange(40, 70) * NS_MS])
        elif x < 0.80:
            d = r.choice(boundary_durations(clk))
        elif x < 0.9:
            d = r.choice(boundary_durations(clk)) + r.choice([-2, -1, 1, 2, NS_MS, -NS_MS])
            d = min(max(d, 0), U64)
        else:
            d = r.getrandbits(r.choice([20, 33, 52, 63, 64]))
        if d >= 2 ** 63:
            self.dist["dur_ge_2^63"] += 1
        elif d >= 2 ** 32 * NS_MS:
            self.dist["dur_ge_2^32ms"] += 1
        elif d >= 2 ** 31 * NS_MS:
            self.dist["dur_ge_2^31ms"] += 1
        else:
            self.dist["dur_small"] += 1
        if d > U64 - clk:
            self.dist["dur_saturating"] += 1
        return d

    def header(self):
        r = self.rng
        res = r.choice(RES_CHOICES)
        clk = r.choice([1, 1000, 10 ** 9, 10 ** 15, 2 ** 63 - 5, U64 - 10 ** 10, U64 - 60 * NS_MS, r.getrandbits(40) + 1])
        cstep = r.choice(CSTEP_CHOICES)
        self.dist["hz"][str(10 ** 9 // res)] = self.dist["hz"].get(str(10 ** 9 // res), 0) + 1
        if cstep:
            self.dist["cstep_nonzero"] += 1
        return res, clk, cstep

    def loop_case(self, n_ops):
        r = self.rng
        res, clk, cstep = self.header()
        self.dist["loop_cases"] += 1
        lines = ["I %d %s %d" % (res, num(clk), cstep)]
        st = {"data": 0, "chk": 100, "adds": 0, "job": 1000}

        def add_line(depth):
            st["data"] += 1
            st["chk"] += 1
            st["adds"] += 1
            data = st["data"]
            chk = st["chk"]
            if depth < 2 and r.random() < 0.3:
                beh_line(data, depth + 1)
            return "A %d %s %d %d" % (r.randrange(3), num(self.duration(clk)), data, chk)

        def ref():
            x = r.random()
            if st["adds"] == 0 or x < 0.05:
                return r.choice(["L0", "L1", "L" + hex(r.getrandbits(64)), "L" + hex((r.getrandbits(31) << 32) | r.randrange(4)),
                                 "@%d" % r.randrange(3), "L0xffffffff", "L0x100000000"])
            return "@%d" % r.randrange(st["adds"] + (1 if x < 0.1 else 0))

        def simple_op(depth):
            x = r.random()
            if x < 0.40:
                return add_line(depth)
            if x < 0.55:
                return "D " + ref()
            if x < 0.63:
                return "X " + ref()
            if x < 0.71:
                return "R " + ref()
            if x < 0.79:
                return "U " + ref()
            if x < 0.84:
                return "M"
            if x < 0.90:
                st["job"] += 1
                return "J %d %d" % (r.randrange(3), st["job"])
            return "T " + num(r.choice([0, 1, 1000, NS_MS - 1, NS_MS, 3 * NS_MS, 50 * NS_MS, r.randrange(1, 10 ** 8), 2 ** 31 * NS_MS,
                                        2 ** 62]))

        def beh_line(data, depth):
            self.dist["callback_behaviours"] += 1
            ops = []
            for _ in range(r.randrange(1, 5)):
                if r.random() < 0.08:
                    ops.append("S")
                else:
                    ops.append(simple_op(depth))
            lines.append("B %d %s" % (data, " ; ".join(ops)))

        def run_line():
            k = r.choice([1, 2, 3, 4, 6, 9, 14])
            ds = [r.choice([-1, -2, -2, -2, -1001, 0, 1, NS_MS, 3 * NS_MS, 50 * NS_MS, 2 ** 40]) for _ in range(k)]
            return "RUN " + " ".join(num(d) for d in ds)

        for _ in range(n_ops):
            if r.random() < 0.18:
                lines.append(run_line())
            else:
                if r.random() < 0.05:
                    st["job"] += 1
                    if r.random() < 0.5:
                        beh_line(st["job"], 1)
                    lines.append("J %d %d" % (r.randrange(3), st["job"]))
                else:
                    lines.append(simple_op(0))
        lines.append("RUN " + " ".join(["-2"] * r.choice([3, 6, 10])))
        return lines

    def unit_case(self, n_ops):
        r = self.rng
        self.dist["unit_cases"] += 1
        clk = r.choice([100, 1000, 10 ** 9, U64 - 10 ** 6])
        lines = ["I 1 %s 0" % num(clk)]
        n = 0
        keyspace = r.choice([4, 16, 1000, 10 ** 9])
        for _ in range(n_ops):
            x = r.random()
            if n == 0 or x < 0.55:
                d = r.randrange(keyspace) if r.random() < 0.9 else r.choice([0, U64, U64 - clk, U64 - clk + 5, 2 ** 63])
                lines.append("HA " + num(d))
                n += 1
            elif x < 0.88:
                lines.append("HD %d" % r.randrange(n))
            else:
                clk = min(U64, clk + r.randrange(keyspace // 2 + 2))
                lines.append("HE " + num(clk))
        lines.append("HE " + num(min(U64, clk + keyspace + 1)))
        return lines


# ------------------------------------------------------------------ monitor (independent of the model)
def monitor(lines):
    """Executable statement of C09 over the implementation log.  Returns None or a message."""
    timers = {}        # data -> dict(prio, exp (unbounded), add, dur, handle, state: 'pending'|'deleted'|'done')
    by_handle = {}     # handle -> data of the timer it was issued for (latest)
    res_ns, cstep = 1, 0
    jobs_since_poll = 0
    last_fire_exp = {}  # prio -> expiry of the last dispatched timer
    pending_call = None
    unit = {}          # heap level: id -> exp
    unit_next = 1
    unit_now = None
    unit_fired = []
    last_hop = None
    i = 0
    n = len(lines)
    while i < n:
        p = lines[i].split()
        i += 1
        if not p:
            continue
        if p[0] == "note":
            return "line %d: %s" % (i - 1, " ".join(p))
        if p[0] == "m":
            if p[1] == "I":
                res_ns, cstep = int(p[2]), int(p[4])
            elif p[1] == "J":
                pending_call = ("J",)
            elif p[1] in ("A", "D", "X", "R", "U", "M"):
                pending_call = tuple(p[1:])
            continue
        tick_ms = 1000 // (10 ** 9 // res_ns) if 10 ** 9 // res_ns > 0 else 0
        if p[0] == "r":
            res, val = int(p[1]), int(p[2], 0)
            c = pending_call
            pending_call = None
            if c is None:
                return "line %d: result without a call" % (i - 1)
            if c[0] == "A":
                prio, dur, data, now = int(c[1]), int(c[2]), int(c[3]), int(c[4])
                if res != 0:
                    return "timer_add(duration %d) failed with %d: the API accepts every 64-bit duration" % (dur, res)
                timers[data] = {"prio": prio, "exp": now + dur, "add": now, "dur": dur, "handle": val, "state": "pending"}
                by_handle[val] = data
            elif c[0] == "J":
                if res == 0:
                    jobs_since_poll += 1
            elif c[0] == "D":
                h = int(c[1])
                if h != 0 and (h >> 32) == 0 and res == 0:
                    # a forged handle (check word 0: never issued by timer_add, whose check words are non-zero) was
                    # accepted: it can only have hit the slot of the timer whose callback is running (its check word is
                    # zeroed during dispatch) and un-registers nothing the caller owns - the C08 clause "a stale handle is
                    # rejected without affecting any other registration" (fixes/C08-timer-del-forged-handle.patch)
                    return ("timer_del accepted the never-issued handle value %d (check half 0) at clock %s: it matched the "
                            "entry of the timer being dispatched" % (h, c[2]))
                t = timers.get(by_handle.get(h))
                if t and t["state"] == "pending":
                    if res != 0:
                        return "timer_del of a pending timer (data %d) returned %d" % (by_handle[h], res)
                    t["state"] = "deleted"
            elif c[0] in ("X", "R", "U"):
                h, now = int(c[1]), int(c[2])
                t = timers.get(by_handle.get(h))
                if t is None:
                    continue
                if t["state"] != "pending":
                    if val != 0:
                        return "%s query on a %s timer (data %d) returned %d, expected 0" % (c[0], t["state"], by_handle[h], val)
                    continue
                exp = min(t["exp"], U64)
                if exp >= now:
                    # not due yet at this clock reading: the timer cannot have left the heap
                    want = {"X": exp, "R": exp - now, "U": 1}[c[0]]
                    if val != want:
                        return ("%s query at clock %d on a pending timer (data %d, added at %d with duration %d) returned %d, "
                                "expected %d" % (c[0], now, by_handle[h], t["add"], t["dur"], val, want))
                else:
                    if c[0] == "R" and val != 0:
                        return "time remaining of an overdue timer is %d" % val
                    if c[0] == "U" and val not in (0, 1):
                        return "is_running returned %d" % val
                    if c[0] == "X" and val not in (0, exp):
                        return "expire_time_get of an overdue timer returned %d (expiry %d)" % (val, exp)
            elif c[0] == "M":
                now = int(c[1])
                # the bare function looks at the heap only: timers that are overdue at this reading may already have
                # been moved to the job list, so only those not yet due are certainly in the heap
                m = check_timeout(val, now, timers, tick_ms, cstep, 0, "qb_loop_timer_msec_duration_to_expire", heap_only=True)
                if m:
                    return m
            continue
        if p[0] == "poll":
            t_ms, now = int(p[1]), int(p[2])
            m = check_timeout(t_ms, now, timers, tick_ms, cstep, jobs_since_poll, "poll timeout")
            if m:
                return m
            jobs_since_poll = 0
            continue
        if p[0] == "cb":
            kind, data, now = int(p[1]), int(p[2]), int(p[3])
            if kind == 0:
                t = timers.get(data)
                if t is None:
                    return "timer callback for unknown user data %d" % data
                if t["state"] != "pending":
                    return "timer callback (data %d) ran although the timer was %s" % (data, t["state"])
                if now < t["add"] + t["dur"]:
                    return ("timer fired early: data %d added at clock %d with duration %d ns ran at clock %d (%d ns early)"
                            % (data, t["add"], t["dur"], now, t["add"] + t["dur"] - now))
                le = last_fire_exp.get(t["prio"])
                if le is not None and t["exp"] < le:
                    return ("expiry order violated at priority %d: timer with expiry %d dispatched after one with expiry %d"
                            % (t["prio"], t["exp"], le))
                last_fire_exp[t["prio"]] = t["exp"]
                t["state"] = "done"
            continue
        # ---- heap level
        if p[0] == "hop":
            last_hop = p[1]
            if p[1] == "A":
                unit[unit_next] = int(p[2], 0)
                unit_next += 1
            elif p[1] == "D":
                unit.pop(int(p[2]), None)
            elif p[1] == "E":
                unit_now = int(p[2], 0)
                unit_fired = []
            continue
        if p[0] == "hf":
            tid = int(p[1])
            if tid not in unit:
                return "heap: expired a timer (%d) that is not in the heap" % tid
            e = unit.pop(tid)
            if not e < unit_now:
                return "heap: timer %d with expire_time %d expired at clock %d (test must be strict <)" % (tid, e, unit_now)
            if unit_fired and e < unit_fired[-1]:
                return "heap: timers expired out of order (%d after %d)" % (e, unit_fired[-1])
            unit_fired.append(e)
            continue
        if p[0] == "hs":
            ents = [tuple(int(x, 0) for x in q.split(":")) for q in p[2:]]
            if int(p[1]) != len(ents) or sorted(e[0] for e in ents) != sorted(unit):
                return "heap: content %s differs from the set of live timers %s" % (sorted(e[0] for e in ents), sorted(unit))
            for idx, (tid, e, pos) in enumerate(ents):
                if pos != idx:
                    return "heap: back pointer of timer %d is %d but it is stored at index %d" % (tid, pos, idx)
                if e != unit[tid]:
                    return "heap: expire_time of timer %d changed" % tid
                if idx > 0 and ents[(idx - 1) // 2][1] > e:
                    return "heap: order violated between index %d and its parent" % idx
            if last_hop == "E" and any(e < unit_now for e in unit.values()):
                return "heap: a timer with expire_time < %d was left in the heap by timerlist_expire" % unit_now
            continue
        if p[0] == "hv":
            if p[1] != "1":
                return "heap: timerlist_debug_is_valid_heap reports an invalid heap"
            continue
    return None


def check_timeout(t_ms, now, timers, tick_ms, cstep, jobs, what, heap_only=False):
    pend = [t for t in timers.values() if t["state"] == "pending" and (not heap_only or min(t["exp"], U64) >= now)]
    if not pend:
        return None
    if t_ms < 0:
        return "%s %d at clock %d while %d timer(s) are pending: the loop would block indefinitely" % (what, t_ms, now, len(pend))
    if t_ms == 0 or (t_ms == 50 and jobs > 0):
        return None
    first = min(min(t["exp"], U64) for t in pend)
    # the timeout was computed from a clock reading at most a few reads (cstep each) before `now`
    limit = max(now, first) + tick_ms * NS_MS
    if now - 4 * cstep + t_ms * NS_MS > limit:
        return ("%s %d ms at clock %d sleeps past the earliest expiry %d plus one tick (%d ms)%s"
                % (what, t_ms, now, first, tick_ms, "" if jobs else "; no job was just queued"))
    return None


def strip_monitor_lines(lines):
    return [l for l in lines if not l.startswith("m ")]


def norm(line):
    """canonical numbers, also inside the id:exp:pos triples of heap dumps"""
    out = []
    for tok in line.split(" "):
        if ":" in tok:
            try:
                out.append(":".join(str(int(x, 0)) for x in tok.split(":")))
                continue
            except ValueError:
                pass
        try:
            out.append(str(int(tok, 0)))
        except ValueError:
            out.append(tok)
    return " ".join(out)
