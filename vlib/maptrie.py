"""C17 / C18, trie part (lib/trie.c behind lib/map.c).  Used by props/C17.py and props/C18.py:

    from vlib import maptrie
    maptrie.run_c17(ctx, res)      # dictionary behaviour + notifiers, histories without open iterators
    maptrie.run_c18(ctx, res)      # iterators under removal / insertion

Stages: generated scripts -> real trie.c/map.c under ASan (harness/h_trie.c) -> log;
the extracted Gallina model (coq/MapTrieModel.v via coq/Extract_C17T.v, ocaml/C17T_driver.ml) on the same
scripts -> log; line diff (correspondence); and an independent Python monitor (a dict + sorted order +
subscription list: the property itself) over the implementation's log.

Known findings are recognised by input class (boolean guard on the script / monitor state), never by
"the property failed":
   C17-trie-signed-byte-order   a key byte >= 0x80 is involved and the order seen is the signed-char order
   C18-trie-removed-parked      get/put/rm (or a second iterator) reaches a key that was removed while an
                                iterator is parked on it
   C18-trie-split-parked        an insertion splits the node an iterator is parked on
   C18-trie-split-prefix-root   an insertion splits the root node of an open prefix iterator (it then returns
                                keys without the prefix)
"""
import os
from vlib import common as C

DELETED, REPLACED, INSERTED, RECURSIVE, FREE = 1, 2, 4, 8, 16
EEXIST, EINVAL, ENOENT = 17, 22, 2

K_ORDER = "C17-trie-signed-byte-order"
K_ZOMBIE = "C18-trie-removed-parked"
K_SPLIT = "C18-trie-split-parked"
K_SPLITROOT = "C18-trie-split-prefix-root"

_built = {}


def build():
    if "exe" not in _built:
        lib = C.build_lib()
        _built["exe"] = C.build_harness("h_trie", ["h_trie.c"], lib=lib)
        ok, log = C.coq_make(["Extract_C17T.vo"])
        if not ok:
            raise RuntimeError("Extract_C17T.vo does not build:\n" + log[-2000:])
        _built["model"] = C.build_model("C17T")
    return _built["exe"], _built["model"]


def prebuild():
    build()


def hx(b):
    return b.hex() if b is not None else "-"


def run_impl(cases):
    exe, _ = build()
    return C.run_cases(exe, ["\n".join(c) for c in cases])


PROBES = [  # (script, index of the op whose result decides, result tokens of the repaired code)
    (["P 616263 1", "P 616264 2", "R 6162"], 2, ["0"]),                          # fixes/C17-trie-rm-alive
    (["P 616263 1", "I 0 -", "N 0", "R 616263", "G 616263"], 4, ["0"]),          # fixes/C18-trie-removed-parked
    (["P 616263 1", "I 0 -", "N 0", "P 616264 2", "N 0"], 4, ["616264", "2"]),   # fixes/C18-trie-split-keeps-node
]


def detect_variant():
    """Which of the three trie repairs does the working tree contain?  Decided by running three 3-5 line probe
    scripts on the implementation; selects the model variant the tree is compared with ("111" = all repairs).
    A tree that loses a repair is then compared with the unrepaired model, and the failing scripts are reported by
    the monitor unless the finding is (still) listed in known_findings.json."""
    if "variant" not in _built:
        res = run_impl([p[0] for p in PROBES])
        v = ""
        for (script, idx, want), (lines, crash) in zip(PROBES, res):
            ops = parse_log(lines)
            v += "1" if (not crash and len(ops) > idx and ops[idx][3] == want) else "0"
        _built["variant"] = v
    return _built["variant"]


def run_model(cases, variant=None):
    _, model = build()
    variant = variant or detect_variant()
    text = "".join("# case %d\n%s\n" % (i, "\n".join(c)) for i, c in enumerate(cases))
    rc, out, err = C.sh2([model, variant], stdin=text.encode(), timeout=600)
    if rc != 0:
        raise RuntimeError("model runner failed: " + err[-2000:])
    res, cur = [], None
    for line in out.split("\n"):
        if line.startswith("# case"):
            cur = []
            res.append(cur)
        elif cur is not None and line != "":
            cur.append(line)
    while len(res) < len(cases):
        res.append([])
    return res


# ------------------------------------------------------------------ parsing a log into per-op records
def parse_log(lines):
    """-> list of (opline tokens, [cb tuples], [visit tuples], result tokens or None)"""
    ops = []
    cur = None
    for ln in lines:
        t = ln.split()
        if not t:
            continue
        if t[0] == "op":
            cur = [t[1:], [], [], None]
            ops.append(cur)
        elif cur is None:
            continue
        elif t[0] == "cb":
            cur[1].append(tuple(t[1:]))
        elif t[0] == "v":
            cur[2].append(tuple(t[1:]))
        elif t[0] == "r":
            cur[3] = t[1:]
        elif t[0] == "err":
            cur[3] = ["ERR"] + t[1:]
    return ops


# ------------------------------------------------------------------ the monitor: the property itself
def skey(k):
    """signed-char order key (what the trie actually does)"""
    return [b - 256 if b >= 128 else b for b in k]


class Monitor:
    """Dictionary + subscriptions + iterator bookkeeping.  check(ops) -> (message or None, set of known-finding ids
    whose guard is violated by this script)."""

    def __init__(self, order=True):
        self.order = order    # False (C18): the signed-char order is accepted silently (order is a C17 matter)
        self.d = {}           # key bytes -> value index
        self.subs = []        # (key or None, fn, events, ud)
        self.its = {}         # h -> dict(prefix, returned list, present_at_create set, removed-only flag, cur, done)
        self.zombies = {}     # key -> True while removed-but-parked
        self.out_of_guard = set()
        self.ever = set()
        self.exp_cbs_total = []
        self.got_cbs_total = []
        self.high = False
        self.soft = None      # a failure that is exactly the signed-byte-order finding (checking continues)

    # expected callbacks of one event
    def event(self, ev, key, old, new):
        exp = []
        for (sk, fn, events, ud) in self.subs:
            if events & ev:
                if sk == key or (events & RECURSIVE and (sk is None or key.startswith(sk))):
                    exp.append((str(ev), key.hex(), str(old), str(new), str(fn), str(ud)))
            if ev in (DELETED, REPLACED) and events & FREE:
                exp.append((str(FREE), key.hex(), str(old), "*", str(fn), str(ud)))
        return exp

    @staticmethod
    def norm_cb(cb):
        return cb if cb[0] != str(FREE) else (cb[0], cb[1], cb[2], "*", cb[4], cb[5])

    def parked(self, key):
        return [h for h, it in self.its.items() if it["cur"] == key]

    def check(self, ops, strict_order=True):
        any_iter = any(o[0][0] in "INX" for o in ops)
        for n, (tok, cbs, vis, r) in enumerate(ops):
            c = tok[0]
            where = "op %d (%s)" % (n, " ".join(tok))
            if r is None:
                return where + ": no result (crash?)"
            if r and r[0] == "ERR":
                return where + ": model error state " + " ".join(r[1:])
            exp = []
            key = bytes.fromhex(tok[1]) if c in "PGR" else None
            if key is not None and any(b >= 128 for b in key):
                self.high = True
            if key is not None and key in self.zombies:
                self.out_of_guard.add(K_ZOMBIE)
            if c == "P":
                v = int(tok[2])
                if key in self.zombies:
                    # the removal the iterators were holding up is completed now; then a new entry
                    exp = self.event(DELETED, key, self.zombies.pop(key), 0) + self.event(INSERTED, key, 0, v)
                    for it in self.its.values():
                        if not it["done"]:
                            it["removals_only"] = False
                elif key in self.d:
                    exp = self.event(REPLACED, key, self.d[key], v)
                else:
                    exp = self.event(INSERTED, key, 0, v)
                    for it in self.its.values():
                        if not it["done"]:
                            it["removals_only"] = False
                self.d[key] = v
                self.ever.add(key)
            elif c == "G":
                want = self.d.get(key, 0)
                if int(r[0]) != want:
                    return where + ": get returned %s, dictionary says %d" % (r[0], want)
            elif c == "R":
                want = 1 if key in self.d else 0
                if int(r[0]) != want:
                    return where + ": rm returned %s, key %s present" % (r[0], "was" if want else "was NOT")
                if want:
                    old = self.d.pop(key)
                    if self.parked(key):
                        self.zombies[key] = old          # DELETED / FREE are deferred until the iterators move on
                    else:
                        exp = self.event(DELETED, key, old, 0)
                    for it in self.its.values():
                        if not it["done"]:
                            it["removed"].add(key)
            elif c == "C":
                if int(r[0]) != len(self.d):
                    return where + ": count %s, dictionary holds %d keys" % (r[0], len(self.d))
            elif c == "F":
                stop = int(tok[1])
                allk = sorted(self.d)
                got = [bytes.fromhex(v[0]) if v[0] != "-" else None for v in vis]
                want = allk if stop == 0 or stop > len(allk) else allk[:stop]
                if got != want:
                    # same keys, other order, high bytes involved: the signed-char order finding
                    swant = sorted(self.d, key=skey)
                    swant = swant if stop == 0 or stop > len(swant) else swant[:stop]
                    if got == swant and any(b >= 128 for k in self.d for b in k) and not self.order:
                        pass
                    elif got == swant and any(b >= 128 for k in self.d for b in k):
                        self.out_of_guard.add(K_ORDER)
                        self.soft = self.soft or where + ": foreach visited %s: signed-char order, not ascending byte order %s" % (
                            [hx(g) for g in got], [hx(w) for w in want])
                    else:
                        return where + ": foreach visited %s, expected %s" % ([hx(g) for g in got], [hx(w) for w in want])
                for (kh, vv) in vis:
                    if kh != "-" and self.d.get(bytes.fromhex(kh)) != int(vv):
                        return where + ": foreach passed value %s for key %s, dictionary says %s" % (
                            vv, kh, self.d.get(bytes.fromhex(kh)))
            elif c == "I":
                h = int(tok[1])
                pre = bytes.fromhex(tok[2]) if tok[2] != "-" else None
                self.its[h] = {"prefix": pre, "returned": [], "at_create": set(self.d), "removed": set(),
                               "removals_only": True, "cur": None, "done": False, "vals": {}}
            elif c == "N":
                h = int(tok[1])
                it = self.its[h]
                prev = it["cur"]
                if r[0] == "end":
                    it["cur"] = None
                    it["done"] = True
                    msg = self.iter_done(h, it, where, strict_order)
                    if msg:
                        return msg
                else:
                    k = bytes.fromhex(r[0])
                    if k in self.zombies and prev != k:
                        self.out_of_guard.add(K_ZOMBIE)     # another iterator reaches a removed-but-parked key
                    if k not in self.ever:
                        return where + ": iterator returned key %s that was never present" % r[0]
                    if it["prefix"] is not None and not k.startswith(it["prefix"]):
                        return where + ": prefix iterator returned %s without the prefix %s" % (r[0], it["prefix"].hex())
                    if k in self.d and self.d[k] != int(r[1]):
                        return where + ": iterator returned value %s for %s, dictionary says %d" % (r[1], r[0], self.d[k])
                    it["returned"].append(k)
                    it["cur"] = k
                exp = self.left(prev)
            elif c == "X":
                h = int(tok[1])
                it = self.its.pop(h)
                prev = it["cur"]
                it["cur"] = None
                exp = self.left(prev)
            elif c == "A":
                k = bytes.fromhex(tok[1]) if tok[1] != "-" else None
                fn, events, ud = int(tok[2]), int(tok[3]), int(tok[4])
                if k is not None and events & FREE:
                    want = -EINVAL
                elif any(sk == k and ((events & FREE and se == events) or (se == events and sf == fn and su == ud))
                         for (sk, sf, se, su) in self.subs):
                    want = -EEXIST
                else:
                    want = 0
                    self.subs.append((k, fn, events, ud))
                if int(r[0]) != want:
                    return where + ": notify_add returned %s, expected %d" % (r[0], want)
            elif c in "DE":
                k = bytes.fromhex(tok[1]) if tok[1] != "-" else None
                fn, events = int(tok[2]), int(tok[3])
                ud = int(tok[4]) if c == "E" else None
                hit = [s for s in self.subs if s[0] == k and s[1] == fn and s[2] == events and (ud is None or s[3] == ud)]
                want = 0 if hit else -ENOENT
                self.subs = [s for s in self.subs if s not in hit]
                if int(r[0]) != want:
                    return where + ": notify_del returned %s, expected %d" % (r[0], want)
            elif c == "Z":
                for k in sorted(self.d):
                    exp += self.event(DELETED, k, self.d[k], 0)
                self.d = {}
            got = sorted(self.norm_cb(x) for x in cbs)
            self.exp_cbs_total += exp
            self.got_cbs_total += [self.norm_cb(x) for x in cbs]
            if not any_iter or c == "Z":
                if c == "Z" and strict_order is False:
                    pass
                if got != sorted(exp):
                    return where + ": notifier calls %s, expected exactly %s" % (got, sorted(exp))
        if any_iter and not self.its and not self.zombies:
            if sorted(self.exp_cbs_total) != sorted(self.got_cbs_total):
                return "whole case: notifier calls %s, expected exactly %s" % (
                    sorted(self.got_cbs_total), sorted(self.exp_cbs_total))
        return None

    def left(self, prev):
        """an iterator left key prev: if it was the last one parked on a removed key, the deferred DELETED fires"""
        if prev is not None and prev in self.zombies and not self.parked(prev):
            old = self.zombies.pop(prev)
            return self.event(DELETED, prev, old, 0)
        return []

    def iter_done(self, h, it, where, strict_order):
        ret = it["returned"]
        pre = it["prefix"]
        throughout = [k for k in it["at_create"] if k in self.d and k not in it["removed"]
                      and (pre is None or k.startswith(pre))]
        for k in throughout:
            if ret.count(k) < 1:
                return where + ": key %s was present during the whole iteration but was not returned" % k.hex()
        if it["removals_only"]:
            for k in set(ret):
                if ret.count(k) > 1:
                    return where + ": key %s returned %d times although only removals happened" % (k.hex(), ret.count(k))
            if ret != sorted(ret):
                if ret == sorted(ret, key=skey) and any(b >= 128 for k in ret for b in k) and not self.order:
                    pass
                elif ret == sorted(ret, key=skey) and any(b >= 128 for k in ret for b in k):
                    self.out_of_guard.add(K_ORDER)
                    self.soft = self.soft or where + ": iterator order %s is the signed-char order, not ascending" % [k.hex() for k in ret]
                else:
                    return where + ": iterator order %s is not ascending" % [k.hex() for k in ret]
            if not it["removed"]:
                want = sorted(k for k in it["at_create"] if pre is None or k.startswith(pre))
                if sorted(ret) != want:
                    return where + ": complete iteration returned %s, expected %s" % (
                        [k.hex() for k in ret], [k.hex() for k in want])
        return None


def monitor(lines, order=True):
    m = Monitor(order)
    msg = m.check(parse_log(lines))
    return msg or m.soft, m.out_of_guard


# ------------------------------------------------------------------ generators
ALPHA = [0x61, 0x62, 0x63]
HIGH = [0x80, 0xff, 0xe9]


def gen_key(rng, high, pool):
    r = rng.random()
    if pool and r < 0.55:
        k = rng.choice(pool)
        m = rng.random()
        if m < 0.55:
            return k
        if m < 0.70 and len(k) > 1:
            return k[:rng.randint(1, len(k) - 1)]                     # a proper prefix (interior position)
        if m < 0.85:
            return k + bytes(rng.choice(ALPHA + (HIGH if high else [])) for _ in range(rng.randint(1, 3)))
        j = rng.randrange(len(k))
        return k[:j] + bytes([rng.choice(ALPHA + (HIGH if high else []))]) + k[j + 1:]
    alpha = ALPHA + (HIGH if high and rng.random() < 0.7 else [])
    if r < 0.60:
        return bytes([rng.choice(alpha + [0x01, 0x7f])])               # single characters
    if r < 0.63:
        base = bytes(rng.choice(alpha) for _ in range(rng.randint(200, 300)))   # long keys
        return base
    return bytes(rng.choice(alpha) for _ in range(rng.randint(1, 6)))


EVENT_SETS = [DELETED | REPLACED | INSERTED | RECURSIVE, DELETED | REPLACED | INSERTED, INSERTED | RECURSIVE,
              DELETED, REPLACED | RECURSIVE, DELETED | INSERTED, FREE, FREE | DELETED, RECURSIVE | DELETED | REPLACED]


def gen_c17(rng, n_ops, high):
    """history without explicit iterators: put/get/rm/count/foreach(complete or abandoned)/notify add+del, destroy last"""
    ops, pool, subs, nv = [], [], [], [0]

    def val():
        nv[0] += 1
        return nv[0]
    if rng.random() < 0.6:
        ops.append("A - 0 %d 7" % (DELETED | REPLACED | INSERTED | RECURSIVE))
        subs.append(("-", 0, DELETED | REPLACED | INSERTED | RECURSIVE, 7))
    if rng.random() < 0.6:
        ops.append("A - 1 %d 0" % FREE)
        subs.append(("-", 1, FREE, 0))
    for _ in range(n_ops):
        r = rng.random()
        k = gen_key(rng, high, pool)
        if r < 0.34:
            ops.append("P %s %d" % (k.hex(), val()))
            pool.append(k)
        elif r < 0.46:
            ops.append("G %s" % k.hex())
        elif r < 0.66:
            ops.append("R %s" % k.hex())
        elif r < 0.72:
            ops.append("C")
        elif r < 0.80:
            ops.append("F %d" % (0 if rng.random() < 0.6 else rng.randint(1, 5)))
        elif r < 0.92:
            kk = "-" if rng.random() < 0.3 else k.hex()
            ev = rng.choice(EVENT_SETS)
            fn, ud = rng.randrange(3), rng.randrange(3)
            if subs and rng.random() < 0.15:
                kk, fn, ev, ud = rng.choice(subs)                      # duplicate registration
            ops.append("A %s %d %d %d" % (kk, fn, ev, ud))
            if not (kk != "-" and ev & FREE):
                subs.append((kk, fn, ev, ud))
        else:
            if subs and rng.random() < 0.85:
                kk, fn, ev, ud = rng.choice(subs)
                if rng.random() < 0.5:
                    ops.append("D %s %d %d" % (kk, fn, ev))
                else:
                    ops.append("E %s %d %d %d" % (kk, fn, ev, ud if rng.random() < 0.8 else ud + 1))
            else:
                ops.append("D %s %d %d" % ("-" if rng.random() < 0.3 else bytes([0x7a, 0x7a]).hex(),
                                          rng.randrange(3), rng.choice(EVENT_SETS)))
    ops += ["C", "F 0"]
    if rng.random() < 0.8:
        ops.append("Z")
    return ops


def gen_c18(rng, n_ops, high, inserts, hostile=False):
    """iterators (up to 4 open) interleaved with rm / get / count (and put when inserts); everything freed at the
    end, then dictionary questions and destroy.  hostile: also touch removed-but-parked keys."""
    ops, pool, nv = [], [], [0]
    live = {}        # h -> last returned unknown (script is symbolic): we only know it is open

    def val():
        nv[0] += 1
        return nv[0]
    ops.append("A - 0 %d 7" % (DELETED | REPLACED | INSERTED | RECURSIVE))
    if rng.random() < 0.7:
        ops.append("A - 1 %d 0" % FREE)
    for _ in range(rng.randint(1, 10)):
        k = gen_key(rng, high, pool)
        ops.append("P %s %d" % (k.hex(), val()))
        pool.append(k)
    for _ in range(n_ops):
        r = rng.random()
        k = gen_key(rng, high, pool)
        if r < 0.12 and len(live) < 4:
            h = min(x for x in range(8) if x not in live)
            pre = "-"
            if pool and rng.random() < 0.4:
                p = rng.choice(pool)
                pre = p[:rng.randint(1, len(p))].hex()
            ops.append("I %d %s" % (h, pre))
            live[h] = True
        elif r < 0.50 and live:
            ops.append("N %d" % rng.choice(sorted(live)))
        elif r < 0.56 and live:
            h = rng.choice(sorted(live))
            ops.append("X %d" % h)
            del live[h]
        elif r < 0.80:
            kk = rng.choice(pool) if pool and rng.random() < 0.85 else k
            ops.append("R %s" % kk.hex())
        elif r < 0.86:
            ops.append("G %s" % k.hex())
        elif r < 0.90:
            ops.append("C")
        elif inserts:
            ops.append("P %s %d" % (k.hex(), val()))
            pool.append(k)
    for h in sorted(live):
        if rng.random() < 0.5:
            ops += ["N %d" % h] * rng.randint(1, 3)
        ops.append("X %d" % h)
    for k in sorted(set(pool))[:12]:
        ops.append("G %s" % k.hex())
    ops += ["C", "F 0"]
    for k in sorted(set(pool))[:6]:
        ops.append("R %s" % k.hex())
    ops += ["C", "Z"]
    return ops


def rm_current_walk(rng, keys, pre="-"):
    """the documented use: remove the entry the iterator stands on, for every entry"""
    ops = ["A - 0 %d 7" % (DELETED | RECURSIVE), "A - 1 %d 0" % FREE]
    for i, k in enumerate(keys):
        ops.append("P %s %d" % (k.hex(), i + 1))
    ops.append("I 0 %s" % pre)
    return ops


CORPUS_C17 = [
    # the design-round witness: rm of an interior (value-less) node
    ["P 616263 1", "P 616264 2", "R 6162", "C", "G 616263", "G 616264", "F 0", "Z"],
    # interior node created by a notifier registration, then rm of it; rm of a key ending inside a segment
    ["A 6162 0 15 1", "P 61626364 1", "R 6162", "R 616263", "C", "R 61626364", "C", "D 6162 0 15", "C", "F 0"],
    # one key a prefix of another, split after the loop, junk child
    ["A - 0 15 7", "A - 1 16 0", "P 616263 1", "P 6162 2", "P 61 3", "F 0", "R 6162", "F 0", "C", "R 61", "R 616263", "C", "F 0", "Z"],
    # replace, FREE on replace and on destroy
    ["A - 1 16 0", "A - 0 15 7", "P 61 1", "P 61 2", "P 62 3", "R 62", "P 62 4", "C", "Z"],
    # prefix / recursive notifiers, exact notifier, duplicate registration, delete
    ["A 6162 0 15 1", "A 6162 0 15 1", "A 6162 1 7 2", "P 6162 1", "P 616263 2", "P 61 3", "P 6162 4", "R 616263",
     "R 6162", "D 6162 0 15", "P 616263 5", "E 6162 1 7 3", "E 6162 1 7 2", "P 6162 6", "Z"],
    # early abandon at every position
    ["P 61 1", "P 62 2", "P 63 3", "F 1", "F 2", "F 3", "F 4", "F 0", "C", "R 62", "F 1", "F 0", "Z"],
    # bytes >= 0x80 (signed-char order of the trie)
    ["P 61 1", "P 80 2", "P ff 3", "P 01 4", "P 7f 5", "C", "G 80", "G ff", "F 0", "R 80", "F 0", "Z"],
    # long keys sharing a long prefix
    ["P " + "61" * 250 + " 1", "P " + "61" * 249 + "62 2", "P " + "61" * 120 + " 3", "G " + "61" * 250, "G " + "61" * 249,
     "R " + "61" * 120, "C", "F 0", "Z"],
]

CORPUS_C18 = [
    # documented use: remove every entry from inside the loop
    ["A - 0 9 7", "A - 1 16 0", "P 61 1", "P 6162 2", "P 616263 3", "P 62 4", "I 0 -", "N 0", "R 61", "N 0", "R 6162", "N 0",
     "R 616263", "N 0", "R 62", "N 0", "X 0", "C", "F 0", "Z"],
    # abandon part-way, then the map is a dictionary again
    ["P 61 1", "P 62 2", "P 63 3", "I 0 -", "N 0", "N 0", "X 0", "R 62", "R 62", "C", "G 62", "G 61", "F 0", "Z"],
    # several iterators, remove the next / previous / last / all
    ["P 61 1", "P 62 2", "P 63 3", "P 64 4", "I 0 -", "I 1 -", "N 0", "N 1", "N 1", "R 62", "R 61", "N 0", "R 64", "N 0",
     "N 0", "N 1", "N 1", "X 0", "X 1", "C", "F 0", "Z"],
    # prefix iterator with removals of the whole subtree
    ["P 6161 1", "P 616162 2", "P 6162 3", "P 62 4", "I 0 6161", "N 0", "R 6161", "R 616162", "N 0", "N 0", "X 0", "C", "F 0",
     "I 1 6163", "N 1", "X 1", "I 2 61", "N 2", "N 2", "N 2", "X 2", "Z"],
    # finding C18-trie-removed-parked: rm of the parked key, then get / put / second rm of it
    ["P 616263 1", "I 0 -", "N 0", "R 616263", "G 616263", "P 616263 9", "N 0", "X 0", "G 616263", "C"],
    ["P 616263 1", "I 0 -", "N 0", "R 616263", "R 616263", "N 0"],
    # finding C18-trie-split-prefix-root: an insertion splits the root of a prefix iterator above the prefix end
    ["P 61626364 1", "P 61626365 2", "I 0 616263", "N 0", "P 616278 3", "N 0", "N 0", "N 0", "X 0", "C"],
    # finding C18-trie-split-parked: an insertion splits the parked node
    ["P 616263 1", "I 0 -", "N 0", "P 616264 2", "N 0", "N 0", "N 0", "X 0", "R 616263", "G 616263", "C"],
]


# ------------------------------------------------------------------ running, classifying, reporting
def _norm(lines):
    return [C.norm_nums(l) for l in lines]


def _split_guard(mraw):
    oog = set()
    if any(l == "g split" for l in mraw):
        oog.add(K_SPLIT)
    if any(l == "g splitroot" for l in mraw):
        oog.add(K_SPLITROOT)
    return [l for l in mraw if not l.startswith("g ")], oog


def judge(case, lines, crash, mraw, order=True):
    """-> dict(fail: message or None (the property fails on the implementation for this input),
              diff: first difference model/implementation or None, oog: known-finding guards violated)"""
    mlines, oog = _split_guard(mraw)
    msg, oog2 = monitor(lines, order)
    oog |= oog2
    a, b = _norm(lines), _norm(mlines)
    diff = C.first_diff(a, b)
    if crash:
        rc, tail = crash
        kind = "AddressSanitizer" if "AddressSanitizer" in tail else ("UBSan" if "runtime error" in tail else "exit %s" % rc)
        summ = [l for l in tail.split("\n") if "SUMMARY" in l or "ERROR" in l]
        msg = "the implementation died (%s) during op %d: %s" % (kind, max(0, sum(1 for l in lines if l.startswith("op ")) - 1),
                                                               (summ[0] if summ else tail[-200:]).strip()[:200])
        # agreement when the model reaches its error state at that very operation
        n = len(a)
        if b[:n] == a and len(b) > n and b[n].startswith("err UseAfterFree") and "use-after-free" in tail:
            diff = None
        elif b[:n] == a and n and a[-1].startswith("op") and len(b) == n + 1 and b[n].startswith("err UseAfterFree"):
            diff = None
    return {"fail": msg, "diff": diff, "oog": oog, "model": mlines}


def _kind(msg):
    """the failure class of a monitor message: the text after 'op N (...): ' up to the first digit"""
    import re
    m = re.sub(r"^op \d+ \([^)]*\): ", "", msg or "")
    return re.split(r"[0-9\[]", m)[0][:40]


def _still_fails_like(kind, order):
    def f(sub):
        (lines, crash), = run_impl([sub])
        if crash:
            return False
        msg, _ = monitor(lines, order)
        return bool(msg) and _kind(msg) == kind
    return f


def evaluate(ctx, res, pid, cases, tags, stats):
    assume = os.environ.get("VERIF_TRIE_ASSUME_KNOWN")
    known_ids = set(k.get("id") for k in (ctx.known or []))
    impl = run_impl(cases)
    model = run_model(cases)
    for i, case in enumerate(cases):
        lines, crash = impl[i]
        j = judge(case, lines, crash, model[i], order=(pid == "C17"))
        nops = len(case)
        stats["ops"] = stats.get("ops", 0) + nops
        for op in case:
            stats.setdefault("op_kinds", {})
            stats["op_kinds"][op[0]] = stats["op_kinds"].get(op[0], 0) + 1
        stats.setdefault("streams", {})
        stats["streams"][tags[i]] = stats["streams"].get(tags[i], 0) + 1
        res.add_case("trie:%s:%s" % (pid, " ".join(case)[:4000]), nontrivial=nops >= 4)
        if j["diff"] is None:
            res.traces_validated += 1
        replay = {"container": "trie", "stream": tags[i], "script": case, "impl_out": lines[-60:],
                  "model_out": j["model"][-60:], "first_difference": j["diff"]}
        if j["fail"]:
            listed = [g for g in j["oog"] if g in known_ids or assume]
            if j["oog"] and listed and j["diff"] is None:
                if "signed-char order" in j["fail"]:
                    g = K_ORDER
                elif "without the prefix" in j["fail"] and K_SPLITROOT in listed:
                    g = K_SPLITROOT
                else:
                    g = sorted(x for x in listed if x != K_ORDER or len(listed) == 1)[-1]
                res.known_hits[g] = res.known_hits.get(g, 0) + 1
                stats["out_of_guard_failing"] = stats.get("out_of_guard_failing", 0) + 1
                continue
            small = case
            if len(case) > 6 and not crash:
                try:
                    small = C.shrink_list(case, _still_fails_like(_kind(j["fail"]), pid == "C17"), budget=60)
                except Exception:
                    small = case
            replay["script"] = small
            replay["shrunk_from"] = len(case)
            res.violation("impl-monitor", "trie (%s stream): %s%s" % (
                tags[i], j["fail"], (" [input class of proposed finding %s, not listed in known_findings.json]" %
                                     ",".join(sorted(j["oog"]))) if j["oog"] else ""), replay)
        elif j["diff"] is not None:
            res.violation("correspondence", "trie (%s stream): model and implementation differ at output line %d: "
                          "implementation %r, model %r" % (tags[i], j["diff"][0], j["diff"][1], j["diff"][2]), replay)
        if j["oog"]:
            stats["out_of_guard"] = stats.get("out_of_guard", 0) + 1


def _finish(res, pid, stats):
    stats["code_variant_rm_removed_split"] = detect_variant()
    res.extra.setdefault("trie", {})[pid] = stats
    note = ("trie: generated scripts run on lib/trie.c+map.c (ASan/UBSan) and on the extracted model; monitor = "
            "dict + sorted order + subscription list")
    res.rule = (res.rule + "; " if res.rule else "") + note


def run_c17(ctx, res):
    rng = C.Rng(ctx.seed * 7919 + 1717)
    thorough = ctx.tier == "thorough" or not ctx.proof_ok
    n = 2500 if thorough else 300
    cases = [list(c) for c in CORPUS_C17]
    tags = ["corpus"] * len(cases)
    for i in range(n):
        high = rng.random() < 0.3
        cases.append(gen_c17(rng, rng.randint(8, 70 if thorough else 45), high))
        tags.append("random-high" if high else "random")
    stats = {}
    for s in range(0, len(cases), 400):
        evaluate(ctx, res, "C17", cases[s:s + 400], tags[s:s + 400], stats)
    _finish(res, "C17", stats)
    res.samples.append({"container": "trie", "script": cases[len(CORPUS_C17)][:12]})


def run_c18(ctx, res):
    rng = C.Rng(ctx.seed * 7919 + 1818)
    thorough = ctx.tier == "thorough" or not ctx.proof_ok
    n = 2500 if thorough else 300
    cases = [list(c) for c in CORPUS_C18]
    tags = ["corpus"] * len(cases)
    for i in range(n):
        high = rng.random() < 0.2
        inserts = rng.random() < 0.4
        cases.append(gen_c18(rng, rng.randint(10, 80 if thorough else 50), high, inserts))
        tags.append("iter-insert" if inserts else "iter-removals")
    stats = {}
    for s in range(0, len(cases), 400):
        evaluate(ctx, res, "C18", cases[s:s + 400], tags[s:s + 400], stats)
    _finish(res, "C18", stats)
    res.samples.append({"container": "trie", "script": cases[len(CORPUS_C18)][:14]})


def replay(ctx, payload):
    """re-run the script of a replay file on the current tree; print the failing observation; 1 = still fails"""
    case = payload.get("script") or []
    (lines, crash), = run_impl([case])
    mraw = run_model([case])[0]
    j = judge(case, lines, crash, mraw)
    print("script:", case)
    print("implementation:", lines[-20:])
    print("model:", j["model"][-20:])
    if j["fail"]:
        print("REPLAY: property fails on the implementation: " + j["fail"])
        return 1
    if j["diff"] is not None:
        print("REPLAY: model and implementation differ: %r" % (j["diff"],))
        return 1
    print("REPLAY: passes on the current tree")
    return 0
