"""C19, concurrent part: qb_array_index / qb_array_grow from 2-3 threads under a controlled scheduler
(harness/h_array_conc.c + sched_rt.c: array.c compiled with tsan instrumentation only, every lock operation
and every unlocked access to the array object / bin table is a scheduling point; realloc always moves and the
old table is quarantined).  The same effective schedule is replayed on the extracted interleaving model
(coq/ArrayConcModel.v, fixed = true) and the two event traces are compared line by line; an independent
monitor states the property over the implementation's log."""
import bisect
from vlib import common as C
from vlib import sched as S

ID = "C19"
ERANGE, EINVAL = 34, 22
MAXEL = 65536


def build():
    lib = C.build_lib()
    return S.build_mixed("h_array_conc", [("h_array_conc.c", S.TSAN_FLAGS), ("sched_rt.c", S.PLAIN_FLAGS),
                                          ("sched_wrap_lock.c", S.PLAIN_FLAGS)], lib=lib,
                         ldflags=S.LOCK_WRAPS + ["-Wl,--wrap=calloc", "-Wl,--wrap=realloc"])


# ------------------------------------------------------------------ generator
def corpus():
    return [
        # witness of the stale-table read (fixes/C19-index-bin-read-under-lock.patch): thread 0 is stopped between
        # its unlock and the fetch of the bin pointer while thread 1's grow reallocates the table
        ["c 20 8 0", "pre i 3", "t 0 i 3", "t 0 i 17", "t 1 g 100", "t 1 i 99",
         "run 0 0 0 0 1 1 1 1 0 0 0 0 0 0 0 0 0 0 1 1 1 1 1 1"],
        # same window, autogrow instead of an explicit grow
        ["c 16 4 1", "pre i 0", "t 0 i 1", "t 1 i 1000", "run 0 0 0 0 0 1 1 1 1 1 1 1 1 1 1 1 1 0 0 0 0"],
        # three threads, autogrow, errors in between
        ["c 10 4 1", "t 0 i 100", "t 0 i -1", "t 0 i 70000", "t 1 i 50", "t 1 g 70000", "t 1 g 5", "t 2 i 100", "t 2 i 51",
         "run 0 1 2 0 1 2 0 1 2 0 1 2 2 2 1 1 0 0 0 1 2 1 2 1 0 0 1 2 2 1 1 0 2 0 1 0 2 0 1 2 0 1"],
        # two threads race for the same fresh bin
        ["c 64 8 0", "t 0 i 33", "t 1 i 34", "t 0 i 34", "t 1 i 33", "run 0 1 0 1 0 1 0 1 0 1 0 1 0 1 0 1 0 1 0 1 0 1 0 1 0 1"],
    ]


def gen_sched(rng, nthr, length):
    """runs of one thread with geometric lengths: mixes coarse and fine interleavings"""
    out = []
    p = rng.choice([0.15, 0.3, 0.5, 0.8])
    cur = rng.randrange(nthr)
    while len(out) < length:
        out.append(cur)
        if rng.random() < p:
            cur = rng.randrange(nthr)
    return out


def gen_case(rng):
    mx = rng.choice([0, 1, 15, 16, 17, 31, 32, 40, 100, 255, 256, 1000, 4095, 65519, 65535, 65536])
    es = rng.choice([1, 2, 3, 4, 8, 12, 16, 40])
    au = rng.choice([0, 0, 1, 16])
    ops = ["c %d %d %d" % (mx, es, au)]
    cur = mx
    pool = []

    def idx_near():
        m = rng.random()
        if m < 0.4:
            return cur + rng.choice([-2, -1, 0, 1, 2, 15, 16, 17])
        if m < 0.6 and pool:
            return rng.choice(pool) + rng.choice([0, 0, 1, -1, 16])
        if m < 0.7:
            return rng.choice([0, MAXEL - 1, MAXEL, -1, 1 << 20])
        return rng.randrange(0, max(1, min(cur + 40, MAXEL)))
    for _ in range(rng.randrange(0, 3)):
        if rng.random() < 0.7:
            i = idx_near()
            ops.append("pre i %d" % i)
            pool.append(i)
        else:
            n = cur + rng.choice([1, 16, 17, 100])
            ops.append("pre g %d" % n)
            if n <= MAXEL:
                cur = max(cur, n)
    nthr = rng.choice([2, 2, 2, 3])
    ncalls = 0
    for t in range(nthr):
        for _ in range(rng.randrange(1, 5)):
            if rng.random() < 0.6:
                i = idx_near()
                pool.append(i)
                ops.append("t %d i %d" % (t, i))
            else:
                n = cur + rng.choice([0, 1, 2, 16, 17, 33, 100, 1000, 5000]) if rng.random() < 0.85 else \
                    rng.choice([0, MAXEL, MAXEL + 1, rng.randrange(0, MAXEL)])
                ops.append("t %d g %d" % (t, n))
                if n <= MAXEL and rng.random() < 0.5:
                    cur = max(cur, n)
            ncalls += 1
    ops.append("run " + " ".join(str(x) for x in gen_sched(rng, nthr, 14 * ncalls + 8)))
    return ops


# ------------------------------------------------------------------ monitor (independent of the model)
def monitor(case, lines):
    """C19 for concurrent callers, over the implementation log (raw pointers)."""
    cfg = [int(x) for x in case[0].split()[1:4]]
    mx0, es, au = cfg
    valid = mx0 <= MAXEL and es >= 1 and au <= 16
    progs = {}
    grows = [mx0]
    for l in case:
        p = l.split()
        if p[0] == "t":
            progs.setdefault(int(p[1]), []).append((p[2], int(p[3])))
            if p[2] == "g" and int(p[3]) <= MAXEL:
                grows.append(int(p[3]))
    cur = mx0                 # exact size during the sequential pre phase; lower bound afterwards
    ptr, starts, owner = {}, [], {}
    i, n = 0, len(lines)
    ended = False
    last_op = None

    def see_ptr(idx, praw):
        if idx in ptr:
            if ptr[idx] != praw:
                return "address of index %d changed: first 0x%x, now 0x%x" % (idx, ptr[idx], praw)
            return None
        k = bisect.bisect_left(starts, praw)
        if k < len(starts) and starts[k] < praw + es:
            return "storage of index %d [0x%x,+%d) overlaps index %d at 0x%x" % (idx, praw, es, owner[starts[k]], starts[k])
        if k > 0 and starts[k - 1] + es > praw:
            return "storage of index %d [0x%x,+%d) overlaps index %d at 0x%x" % (idx, praw, es, owner[starts[k - 1]], starts[k - 1])
        starts.insert(k, praw)
        owner[praw] = idx
        ptr[idx] = praw
        return None
    while i < n:
        ln = lines[i]
        p = ln.split()
        i += 1
        if p[0] == "op":
            last_op = p
        elif p[0] == "uaf":
            return "thread %s read a freed bin table (%s)" % (p[1], " ".join(p[2:]))
        elif p[0] == "note":
            return ln
        elif p[0] == "r":
            if (int(p[1]) == 0) != valid:
                return "create%s returned %s" % (tuple(cfg), p[1])
        elif p[0] == "end":
            ended = True
            if p[1] == "1":
                return "deadlock: " + "; ".join(l for l in lines if l.startswith("blocked"))
            if p[1] == "2":
                return "step limit exceeded (livelock)"
        elif p[0] in ("ret", "pre", "fin"):
            praw = None
            if i < n and lines[i].startswith("p "):
                praw = int(lines[i].split()[2], 16)
                i += 1
            if p[0] == "ret":
                kind, arg = progs[int(p[1])][int(p[2])]
                rc = int(p[3])
            elif p[0] == "pre":
                kind, arg, rc = last_op[2], int(p[1]), int(p[2])
            else:
                kind, arg, rc = "i", int(p[1]), int(p[2])
            if kind == "g":
                if (arg <= MAXEL) != (rc == 0):
                    return "grow(%d) returned %d" % (arg, rc)
                if p[0] == "pre" and rc == 0:
                    cur = max(cur, arg)
                continue
            if arg < 0 or arg >= MAXEL:
                if rc == 0:
                    return "index %d outside [0,65536) succeeded" % arg
                continue
            hi = max(grows + [cur])
            if p[0] == "pre":
                must_ok, must_fail = bool(au) or arg < cur, (not au) and arg >= cur
            elif p[0] == "fin":
                must_ok, must_fail = True, False
            else:
                must_ok, must_fail = bool(au) or arg < cur, (not au) and arg >= hi
            if must_ok and rc != 0:
                return "index %d failed with %d although it is inside the array (size >= %d, autogrow %d)" % (arg, rc, cur, au)
            if must_fail and rc != -ERANGE:
                return "index %d returned %d, expected -ERANGE (size never exceeds %d, no autogrow)" % (arg, rc, hi)
            if rc == 0:
                if p[0] == "pre" and au:
                    cur = max(cur, arg + 1)
                if praw is None:
                    return "index %d: no pointer reported" % arg
                m = see_ptr(arg, praw)
                if m:
                    return m
    if not ended and valid and progs:
        return "run did not complete"
    return None


# ------------------------------------------------------------------ run
def execute(cases, exe, model):
    texts = ["\n".join(c) + "\n" for c in cases]
    impl = C.run_cases(exe, texts, timeout=900)
    mcases = ["model fixed\n" + "\n".join(l for l in lines if not l.startswith("p ") and not l.startswith("note")
                                          and not l.startswith("blocked")) + "\n" for lines, crash in impl]
    mod = C.run_cases(model, mcases, timeout=900)
    return impl, mod


def judge(case, impl, mod):
    lines, crash = impl
    m = monitor(case, lines)
    if m:
        return ("impl-monitor", m, {"impl_tail": lines[-12:]})
    if crash:
        return ("impl-monitor", "implementation crashed / sanitizer report (rc=%s)" % crash[0], crash[1][-1500:])
    ilines = [l for l in lines if not l.startswith("p ") and not l.startswith("note") and not l.startswith("blocked")]
    d = C.first_diff(ilines, mod[0])
    if mod[1]:
        return ("correspondence", "model runner failed", mod[1][1])
    if d:
        return ("correspondence", "concurrent trace: event %d differs: impl %r model %r" % d, {"first_difference": d})
    return None


def run_conc(ctx, res, thorough):
    exe = build()
    model = C.build_model(ID)
    rng = ctx.rng
    ncases = 12000 if thorough else 1500
    cases = corpus()
    for _ in range(ncases):
        cases.append(gen_case(rng))
    impl, mod = execute(cases, exe, model)
    steps = 0
    labels = {}
    nthreads = {}
    for ci, case in enumerate(cases):
        lines = impl[ci][0]
        ns = 0
        tids = set()
        for l in lines:
            if l.startswith("s "):
                ns += 1
                p = l.split(" ", 2)
                tids.add(p[1])
                lab = p[2].split("[")[0]
                labels[lab] = labels.get(lab, 0) + 1
        steps += ns
        nthreads[len(tids)] = nthreads.get(len(tids), 0) + 1
        # non-trivial: at least two threads actually interleaved (a context switch between two steps)
        seq = [l.split()[1] for l in lines if l.startswith("s ")]
        switches = sum(1 for a, b in zip(seq, seq[1:]) if a != b)
        res.add_case(("conc",) + tuple(case), switches >= 3)
        v = judge(case, impl[ci], mod[ci])
        if v is None:
            res.traces_validated += 1
            continue
        kind = v[0]

        def fails(sub):
            full = [case[0]] + sub + [case[-1]]
            im, mo = execute([full], exe, model)
            j = judge(full, im[0], mo[0])
            return j is not None and j[0] == kind
        body = case[1:-1]
        small = C.shrink_list(body, fails, budget=40) if len(res.violations) < 2 and len(body) > 1 else body
        full = [case[0]] + small + [case[-1]]
        im, mo = execute([full], exe, model)
        j = judge(full, im[0], mo[0]) or v
        res.violation(j[0], j[1], {"part": "concurrent", "script": full, "impl_out": im[0][0], "model_out": mo[0][0],
                                   "detail": j[2]})
        if len(res.violations) >= 6:
            break
    res.extra.update({"conc_cases": len(cases), "conc_scheduled_steps": steps, "conc_steps_by_label": labels,
                      "conc_cases_by_thread_count": nthreads})
    rule = ("concurrent: 2-3 virtual threads with 1-4 index/grow calls each on one array, executed on the real array.c "
            "under a controlled schedule (random runs of geometric length); non-trivial = at least 3 context switches "
            "between scheduling steps; distinct = distinct (programs, schedule)")
    return rule, [{"part": "concurrent", "script": c} for c in cases[len(corpus()):len(corpus()) + 2]]


def replay(ctx, payload):
    exe = build()
    model = C.build_model(ID)
    case = payload["script"]
    im, mo = execute([case], exe, model)
    j = judge(case, im[0], mo[0])
    print("impl :", im[0][0])
    print("model:", mo[0][0])
    if j:
        print("VIOLATION property=%s replay=%s" % (ID, "<replayed>"))
        print("DETAIL: %s: %s" % (j[0], j[1]))
        return 1
    print("replay: property holds on this script now")
    return 0
