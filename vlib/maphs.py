"""C17 / C18 for the hashtable and the skiplist (lib/hashtable.c, lib/skiplist.c behind lib/map.c).

Stages: generated scripts -> real library under ASan/UBSan (harness/h_map.c, public qb_map API only) -> log ->
extracted Gallina model (ocaml/C17_driver.ml) on the same calls and the same random() answers -> line diff;
plus an independent Python monitor that states the property itself over the implementation's log.
Used by props/C17.py and props/C18.py."""
import collections
from vlib import common as C

EINVAL, ENOENT, EEXIST = 22, 2, 17
DELETED, REPLACED, INSERTED, RECURSIVE, FREE = 1, 2, 4, 8, 16
ALPHA = ["a", "b", "c", "\x80", "\xff"]


def hk(s):
    return "k" + s.encode("latin1").hex()


def unhk(t):
    return bytes.fromhex(t[1:])


def build():
    lib = C.build_lib()
    exe = C.build_harness("h_map", ["h_map.c"], lib=lib, ldflags=["-Wl,--wrap=random"])
    return exe


# ------------------------------------------------------------------ generators
def key_pool(rng, n):
    pool = set()
    while len(pool) < n:
        r = rng.random()
        if r < 0.04:
            pool.add("")
        elif r < 0.10:
            base = rng.choice(ALPHA) * rng.choice([200, 300])
            pool.add(base + rng.choice(ALPHA))
            pool.add(base)
        else:
            ln = rng.choice([1, 1, 2, 2, 3, 4, 6])
            k = "".join(rng.choice(ALPHA) for _ in range(ln))
            pool.add(k)
            if rng.random() < 0.4 and ln > 1:
                pool.add(k[:-1])         # one key a prefix of another
    return sorted(pool)


def gen_create(rng, kind):
    if kind == "h":
        return "M h %d" % rng.choice([0, 1, 7, 8, 9, 16, 40, 100])
    return "M s"


def gen_notify(rng, pool):
    tgt = "-" if rng.random() < 0.6 else hk(rng.choice(pool))
    fn = rng.randrange(3)
    ev = rng.choice([DELETED, REPLACED, INSERTED, FREE, DELETED | REPLACED, DELETED | REPLACED | INSERTED,
                     DELETED | FREE, FREE | REPLACED, 7, 23, RECURSIVE | DELETED])
    ud = rng.randrange(3)
    r = rng.random()
    if r < 0.65:
        return "A %s %d %d %d" % (tgt, fn, ev, ud)
    if r < 0.85:
        return "D %s %d %d" % (tgt, fn, ev)
    return "E %s %d %d %d" % (tgt, fn, ev, ud)


def gen_c17(rng, kind, n_ops, vcounter):
    """history without caller-held iterators: put/get/rm/count/foreach(complete|abandoned)/notify/destroy"""
    pool = key_pool(rng, rng.choice([2, 4, 8, 16]))
    ops = [gen_create(rng, kind)]
    if rng.random() < 0.7:
        ops.append("A - %d %d %d" % (rng.randrange(3), rng.choice([FREE, FREE | DELETED, 23]), rng.randrange(3)))
    for _ in range(n_ops):
        r = rng.random()
        k = hk(rng.choice(pool))
        if r < 0.34:
            vcounter[0] += 1
            if kind == "s" and rng.random() < 0.2:
                ops.append("L %d" % rng.choice([0, 1, 2, 3, 8, 9, 12]))
            ops.append("P %s %d" % (k, vcounter[0]))
        elif r < 0.50:
            ops.append("G " + k)
        elif r < 0.72:
            ops.append("R " + k)
        elif r < 0.78:
            ops.append("C")
        elif r < 0.86:
            ops.append("F %d" % rng.choice([0, 0, 1, 1, 2, 3, 5]))
        elif r < 0.98:
            ops.append(gen_notify(rng, pool))
        else:
            ops.append("Z")
            ops.append(gen_create(rng, kind))
    if rng.random() < 0.8:
        ops += ["C", "F 0", "Z"]
    return ops


def gen_c18(rng, kind, n_ops, vcounter, only_removals=False):
    """interleavings of iterator create/next/free with put/rm/get, up to 4 open iterators"""
    pool = key_pool(rng, rng.choice([2, 4, 8, 12]))
    ops = [gen_create(rng, kind)]
    if rng.random() < 0.6:
        ops.append("A - %d %d %d" % (rng.randrange(3), rng.choice([FREE, FREE | DELETED, 23]), rng.randrange(3)))
    for k in rng.sample(pool, rng.randrange(1, len(pool) + 1)):
        vcounter[0] += 1
        ops.append("P %s %d" % (hk(k), vcounter[0]))
    open_its = []
    last = {}            # iterator -> last returned key is unknown to the generator; use pool heuristics
    next_it = 0
    for _ in range(n_ops):
        r = rng.random()
        k = hk(rng.choice(pool))
        if r < 0.12 and len(open_its) < 4:
            ops.append("I %d" % next_it)
            open_its.append(next_it)
            next_it += 1
        elif r < 0.45 and open_its:
            it = rng.choice(open_its)
            ops.append("N %d" % it)
            if rng.random() < 0.25:
                ops.append("N %d" % it)
        elif r < 0.52 and open_its:
            it = rng.choice(open_its)
            ops.append("X %d" % it)
            open_its.remove(it)
        elif r < 0.75:
            if rng.random() < 0.15:
                # remove everything
                for kk in pool:
                    ops.append("R " + hk(kk))
            else:
                ops.append("R " + k)
                if rng.random() < 0.3:
                    ops.append("R " + k)
        elif r < 0.85 and not only_removals:
            vcounter[0] += 1
            if kind == "s" and rng.random() < 0.2:
                ops.append("L %d" % rng.choice([0, 1, 2, 3, 8]))
            ops.append("P %s %d" % (k, vcounter[0]))
        elif r < 0.93:
            ops.append("G " + k)
        elif r < 0.96:
            ops.append("C")
        elif r < 0.98:
            ops.append("F %d" % rng.choice([0, 1, 2]))
        else:
            ops.append("N %d" % rng.randrange(next_it + 1))   # possibly a finished / freed / unknown iterator
    # finish: run some iterators to the end, free all, then the map must be a dictionary of the survivors
    for it in list(open_its):
        if rng.random() < 0.6:
            ops += ["N %d" % it] * (len(pool) + 2)
        ops.append("X %d" % it)
    for kk in pool:
        ops.append("G " + hk(kk))
    ops += ["C", "F 0"]
    for kk in rng.sample(pool, len(pool) // 2):
        ops.append("R " + hk(kk))
    ops += ["C", "Z"]
    return ops


def corpus(kind):
    a, b, c, d = hk("a"), hk("b"), hk("c"), hk("d")
    cs = [
        # abandoned traversal, then rm: the entry must be gone, second rm fails, FREE exactly once
        ["M %s" % ("h 8" if kind == "h" else "s"), "A - 0 17 7", "P %s 1" % a, "P %s 2" % b, "F 1", "R " + a, "G " + a, "C",
         "R " + a, "C", "G " + a, "Z"],
        # rm of the entry an iterator is parked on, twice; then advance
        ["M %s" % ("h 8" if kind == "h" else "s"), "A - 0 17 7", "P %s 1" % a, "I 0", "N 0", "R " + a, "G " + a, "R " + a, "C",
         "N 0", "N 0", "X 0", "C", "Z"],
        # remove everything while parked on the first entry
        ["M %s" % ("h 8" if kind == "h" else "s"), "P %s 1" % b, "P %s 2" % c, "I 0", "N 0", "R " + b, "R " + c, "N 0", "X 0",
         "C", "Z"],
        # parked on c; rm c; rm its predecessor b; advance
        ["M %s" % ("h 8" if kind == "h" else "s")] + ["P %s %d" % (hk(x), i + 1) for i, x in enumerate("abcd")] +
        ["I 0", "N 0", "N 0", "N 0", "R " + c, "R " + b, "N 0", "N 0", "X 0", "C", "F 0", "Z"],
        # two iterators parked on neighbours, both removed
        ["M %s" % ("h 8" if kind == "h" else "s")] + ["P %s %d" % (hk(x), i + 1) for i, x in enumerate("abcd")] +
        ["I 0", "N 0", "N 0", "I 1", "N 1", "N 1", "N 1", "R " + b, "R " + c, "N 0", "N 1", "N 0", "N 1", "X 0", "X 1",
         "C", "F 0", "Z"],
        # put on a removed-but-parked entry, then advance: the new value must survive
        ["M %s" % ("h 8" if kind == "h" else "s"), "A - 1 23 0", "P %s 1" % a, "P %s 2" % b, "I 0", "N 0", "N 0", "R " + b,
         "P %s 3" % b, "G " + b, "N 0", "N 0", "X 0", "G " + b, "C", "Z"],
        # iterator created and freed without a step; next after the end; free after the end
        ["M %s" % ("h 8" if kind == "h" else "s"), "P %s 1" % a, "I 0", "X 0", "I 1", "N 1", "N 1", "N 1", "X 1", "R " + a,
         "C", "G " + a, "Z"],
        # notifier bookkeeping
        ["M %s" % ("h 8" if kind == "h" else "s"), "A - 0 16 1", "A - 1 16 2", "A - 0 7 1", "A - 0 7 1", "A - 0 7 2",
         "P %s 1" % a, "A %s 2 3 5" % a, "A %s 2 19 5" % a, "A %s 2 3 5" % a, "A %s 1 3 0" % b, "P %s 2" % a, "D - 0 7",
         "P %s 3" % a, "E %s 2 3 4" % a, "E %s 2 3 5" % a, "D %s 2 3" % a, "R " + a, "D %s 2 3" % a, "P %s 4" % a,
         "R " + a, "P %s 5" % b, "Z"],
    ]
    if kind == "s":
        cs.append(["M s", "L 3", "P %s 1" % b, "L 0", "P %s 2" % a, "L 5", "P %s 3" % c, "L 1", "P %s 4" % d, "F 0", "R " + a,
                   "F 0", "R " + c, "F 0", "L 8", "P %s 5" % a, "L 9", "P %s 6" % c, "F 0", "C", "Z"])
    return cs


# ------------------------------------------------------------------ log parsing
def blocks(lines):
    """split a harness/model log into per-op blocks: (opline words, body lines, result words or None)"""
    out = []
    cur = None
    for l in lines:
        if l.startswith("op "):
            cur = [l[3:].split(), [], None]
            out.append(cur)
        elif cur is not None:
            if l == "r" or l.startswith("r "):
                cur[2] = l.split()[1:]
            else:
                cur[1].append(l)
    return out


def canon(lines):
    """comparison form: drop oracle lines; inside one op, traversal lines before notifier lines"""
    out = []
    for w, body, r in blocks(lines):
        out.append("op " + " ".join(w))
        es = [l for l in body if l.startswith("e ")]
        ns = [l for l in body if l.startswith("n ")]
        other = [l for l in body if not l.startswith(("e ", "n ", "o "))]
        out += es + ns + other
        out.append("r " + " ".join(r) if r is not None else "<no result>")
    return out


# ------------------------------------------------------------------ monitor (independent of the model)
class Sub:
    __slots__ = ("key", "fn", "ev", "ud")

    def __init__(self, key, fn, ev, ud):
        self.key, self.fn, self.ev, self.ud = key, fn, ev, ud


def expected_notifs(subs, ev, key, old, new):
    """multiset of notifier calls the property demands for one event on one key"""
    exp = collections.Counter()
    for s in subs:
        if s.key is not None and s.key != key:
            continue
        if s.ev & ev:
            exp[(s.fn, s.ud, ev, key, old, new)] += 1
        if s.key is None and ev in (DELETED, REPLACED) and (s.ev & FREE):
            exp[(s.fn, s.ud, FREE, key, old, new)] += 1
    return exp


def monitor(lines, check_notifs=True):
    """Executable statement of C17 + C18 over one implementation log.  Returns None or a message.
    check_notifs: notifier calls must be exactly the expected multiset at every operation (C17 histories:
    no caller-held iterator is open at any put/rm/destroy).  With open iterators the DELETED/FREE calls of a
    removed entry are legitimately deferred until the iterators have left it; then the monitor checks that
    every value that left the map is released exactly once by the time all iterators are gone."""
    kind = None
    d = {}
    subs = []
    its = {}          # id -> dict(stable=set, returned=[], inserted=bool, done=bool)
    owed = collections.Counter()     # deferred notifier calls (C18 histories)
    bl = blocks(lines)
    for idx, (w, body, r) in enumerate(bl):
        where = "op %d (%s)" % (idx, " ".join(w))
        if r is None:
            return "%s: no result (log ends inside the operation)" % where
        c = w[0]
        ns = collections.Counter()
        es = []
        for l in body:
            p = l.split()
            if p[0] == "n":
                key = None if p[4] == "-" else unhk(p[4])
                ns[(int(p[1]), int(p[2]), int(p[3]), key, int(p[5]), int(p[6]))] += 1
            elif p[0] == "e":
                es.append((unhk(p[1]), int(p[2])))
        exp = collections.Counter()
        if c == "M":
            kind = w[1]
            d, subs, its = {}, [], {}
            owed = collections.Counter()
            if r != ["ok"]:
                return "%s: create failed" % where
        elif c == "L":
            pass
        elif r == ["ignored"]:
            if c in "PGRCFADEZ" and kind is not None:
                return "%s: ignored although a map exists" % where
        elif c == "P":
            k, v = unhk(w[1]), int(w[2])
            if k in d:
                exp = expected_notifs(subs, REPLACED, k, d[k], v)
            else:
                exp = expected_notifs(subs, INSERTED, k, 0, v)
                for it in its.values():
                    if not it["done"]:
                        it["inserted"] = True
            d[k] = v
        elif c == "G":
            k = unhk(w[1])
            if int(r[0]) != d.get(k, 0):
                return "%s: get returned %s, the dictionary holds %s" % (where, r[0], d.get(k, "nothing"))
        elif c == "R":
            k = unhk(w[1])
            if int(r[0]) != (1 if k in d else 0):
                return "%s: rm returned %s but the key was %s" % (where, r[0], "present" if k in d else "absent")
            if k in d:
                exp = expected_notifs(subs, DELETED, k, d[k], 0)
                del d[k]
                subs = [s for s in subs if s.key != k]
                for it in its.values():
                    it["stable"].discard(k)
        elif c == "C":
            if int(r[0]) != len(d):
                return "%s: count %s, the dictionary holds %d keys" % (where, r[0], len(d))
        elif c == "F":
            stop = int(w[1])
            want = len(d) if stop == 0 else min(stop, len(d))
            if len(es) != want:
                return "%s: traversal made %d callback calls, expected %d" % (where, len(es), want)
            if len(set(k for k, _ in es)) != len(es):
                return "%s: traversal yielded a key twice" % where
            for k, v in es:
                if d.get(k) != v:
                    return "%s: traversal yielded %r=%d, dictionary has %s" % (where, k, v, d.get(k, "nothing"))
            if kind == "s" and [k for k, _ in es] != sorted(d)[:want]:
                return "%s: skiplist traversal is not the ascending prefix" % where
        elif c in "ADE":
            key = None if w[1] == "-" else unhk(w[1])
            fn, ev = int(w[2]) & 3, int(w[3])
            rc = int(r[0])
            if c == "A":
                ud = int(w[4])
                if key is not None and (ev & FREE):
                    want = -EINVAL
                elif key is not None and key not in d:
                    want = -ENOENT if kind == "h" else -EINVAL
                elif any(s.key == key and (((ev & FREE) and s.ev == ev) or (s.ev == ev and s.ud == ud and s.fn == fn))
                         for s in subs):
                    want = -EEXIST
                else:
                    want = 0
                    subs.append(Sub(key, fn, ev, ud))
            else:
                ud = int(w[4]) if c == "E" else None
                hit = [s for s in subs if s.key == key and s.ev == ev and s.fn == fn and (ud is None or s.ud == ud)]
                if key is not None and key not in d:
                    want = -ENOENT
                elif hit:
                    want = 0
                    subs = [s for s in subs if s not in hit]
                else:
                    want = -ENOENT
            if rc != want:
                return "%s: returned %d, expected %d" % (where, rc, want)
        elif c == "Z":
            for k, v in d.items():
                exp += expected_notifs(subs, DELETED, k, v, 0)
            if not check_notifs and any(not it["freed"] for it in its.values()):
                return "%s: script error: destroy with open iterators" % where
            d, subs, its = {}, [], {}
            kind = None
            exp += owed
            owed = collections.Counter()
        elif c == "I":
            its[int(w[1])] = {"stable": set(d), "returned": [], "inserted": False, "done": False, "freed": False}
        elif c == "N":
            it = its.get(int(w[1]))
            if it is None or it["freed"]:
                return "%s: harness stepped an unknown iterator" % where
            if r == ["end"]:
                if not it["done"]:
                    missing = [k for k in it["stable"] if k not in it["returned"]]
                    if missing:
                        return "%s: iteration ended without returning %r, present throughout" % (where, sorted(missing)[0])
                    if not it["inserted"] and len(set(it["returned"])) != len(it["returned"]):
                        return "%s: a key was returned twice although only removals happened" % where
                it["done"] = True
            else:
                k, v = unhk(r[0]), int(r[1])
                if it["done"]:
                    return "%s: iterator returned %r after it had reported the end" % (where, k)
                if k not in d:
                    return "%s: iterator returned %r which is not present" % (where, k)
                if d[k] != v:
                    return "%s: iterator returned %r with value %d, dictionary has %d" % (where, k, v, d[k])
                if not it["inserted"] and k in it["returned"]:
                    return "%s: key %r returned twice although only removals happened" % (where, k)
                it["returned"].append(k)
        elif c == "X":
            it = its.get(int(w[1]))
            if it is not None:
                it["freed"] = True
                it["done"] = True
        # notifier calls
        if c in "GCFADEI" and ns and check_notifs:
            return "%s: notifier called by an operation that changes nothing: %s" % (where, list(ns)[0])
        if c in "PRZ" or not check_notifs:
            if check_notifs:
                if ns != exp:
                    miss = exp - ns
                    extra = ns - exp
                    return "%s: notifier calls differ: missing %s, unexpected %s" % (where, list(miss.items())[:2], list(extra.items())[:2])
            else:
                # deferred release: what is expected now or was owed may arrive now or later, nothing else may arrive
                owed += exp
                extra = ns - owed
                if extra:
                    return "%s: unexpected notifier call %s" % (where, list(extra.items())[:2])
                owed -= ns
                if all(it["freed"] for it in its.values()) and owed:
                    return "%s: all iterators are gone but notifier calls are still outstanding: %s" % (
                        where, list(owed.items())[:2])
    return None


# ------------------------------------------------------------------ execution
def execute(cases, exe, model, model_args=None):
    texts = ["\n".join(c) + "\n" for c in cases]
    impl = C.run_cases(exe, texts, timeout=900)
    mcases = ["\n".join(lines) + "\n" for lines, crash in impl]
    mod = C.run_cases(model, mcases, timeout=900)
    # layer A (MapRefModel, the layer the property theorems are proved about) on the same calls
    ref = C.run_cases(model, mcases, timeout=900, env={"MAP_MODEL": "ref"})
    return impl, [(m, r) for m, r in zip(mod, ref)]


def run_model_args(model, mcases, args):
    import subprocess
    out = []
    for t in mcases:
        p = subprocess.run([model] + args, input=("# case 0\n" + t).encode(), stdout=subprocess.PIPE, stderr=subprocess.PIPE,
                           timeout=300)
        lines = [l for l in p.stdout.decode("latin1").split("\n") if l and not l.startswith("# case")]
        out.append((lines, None if p.returncode == 0 else (p.returncode, p.stderr.decode("latin1")[-1000:])))
    return out


def judge(case, impl, mod, check_notifs):
    """-> (kind, what, detail) or None"""
    lines, crash = impl
    if crash:
        tail = crash[1]
        summ = [l for l in tail.split("\n") if "ERROR" in l or "SUMMARY" in l]
        return ("impl-monitor", "implementation crashed / sanitizer report (rc=%s): %s" % (crash[0], "; ".join(summ)[:400]),
                tail[-1500:])
    m = monitor(lines, check_notifs)
    if m and "script error" in m:
        return None
    il = canon(lines)
    mod, ref = mod
    ml = canon(mod[0])
    d = C.first_diff(il, ml)
    dr = C.first_diff(il, canon(ref[0]))
    if m:
        return ("impl-monitor", m, {"first_model_difference": d})
    if mod[1]:
        return ("correspondence", "model runner failed", mod[1][1])
    if d:
        return ("correspondence", "observable %d differs: impl %r model %r" % d, {"first_difference": d})
    if ref[1]:
        return ("correspondence", "layer-A model runner failed", ref[1][1])
    if dr:
        return ("correspondence", "layer A (MapRefModel) observable %d differs: impl %r model %r" % dr, {"first_difference": dr})
    return None


def run_property(pid, ctx, res, gens, check_notifs, rule):
    """gens: list of (label, kind, generator function(rng) -> script) ; shared driver for C17 / C18"""
    exe = build()
    model = C.build_model("C17")
    cases = []
    labels = []
    for label, case in gens:
        cases.append(case)
        labels.append(label)
    impl, mod = execute(cases, exe, model)
    opcount = collections.Counter()
    kinds = collections.Counter(labels)
    for ci, case in enumerate(cases):
        lines = impl[ci][0]
        nops = 0
        for l in lines:
            if l.startswith("op "):
                opcount[l[3]] += 1
                nops += 1
        res.add_case(tuple(case), nops >= 4)
        v = judge(case, impl[ci], mod[ci], check_notifs)
        if v is None:
            res.traces_validated += 1
            continue
        kind = v[0]

        def fails(sub):
            if not sub or not sub[0].startswith("M"):
                return False
            im, mo = execute([sub], exe, model)
            j = judge(sub, im[0], mo[0], check_notifs)
            return j is not None and j[0] == kind
        small = C.shrink_list(case, fails, budget=80) if len(res.violations) < 3 else case
        im, mo = execute([small], exe, model)
        j = judge(small, im[0], mo[0], check_notifs) or v
        # diagnosis: does the implementation behave like the model of the UNREPAIRED code?
        diag = None
        try:
            mo2 = run_model_args(model, ["\n".join(im[0][0]) + "\n"], ["orig"])
            if not C.first_diff(canon(im[0][0]), canon(mo2[0][0])):
                diag = "the implementation agrees with the model of the unrepaired code on this script (fix patches not applied?)"
        except Exception:
            pass
        res.violation(j[0], "[%s] %s" % (labels[ci], j[1]),
                      {"script": small, "shrunk_from_ops": len(case), "impl_out": im[0][0], "model_out": mo[0][0][0], "layerA_out": mo[0][1][0],
                       "detail": j[2], "diagnosis": diag, "check_notifs": check_notifs,
                       "replay_cmd": "./check %s --replay <this file>" % pid})
        if len(res.violations) >= 6:
            break
    res.rule = rule
    res.samples = [{"script": c} for c in cases[:1] + cases[-2:]]
    res.extra.update({"case_kinds": dict(kinds), "api_calls_by_kind": dict(opcount),
                      "monitor": "independent Python statement of the property over the implementation log "
                                 "(vlib/maphs.py: monitor)"})
    return res


def replay(pid, payload):
    exe = build()
    model = C.build_model("C17")
    case = payload["script"]
    im, mo = execute([case], exe, model)
    j = judge(case, im[0], mo[0], payload.get("check_notifs", True))
    print("impl :", im[0][0])
    if im[0][1]:
        print("impl crash:", im[0][1][1][-800:])
    print("model:", mo[0][0][0])
    print("layerA:", mo[0][1][0])
    if j:
        print("VIOLATION property=%s replay=%s" % (pid, "<replayed>"))
        print("DETAIL: %s: %s" % (j[0], j[1]))
        return 1
    print("replay: property holds on this script now")
    return 0
