"""Helpers for the schedule-controlled harnesses of builder "arrthr" (C19 concurrent part, C16):
mixed-flag builds (tsan-stub instrumented translation units + plain runtime + ASan library archive)."""
import glob
import os
import shutil
from vlib import common as C

TSAN_FLAGS = ["-O0", "-g", "-fsanitize=thread"]
PLAIN_FLAGS = ["-O1", "-g", "-fno-omit-frame-pointer"]
LOCK_WRAPS = ["-Wl,--wrap=pthread_spin_lock", "-Wl,--wrap=pthread_spin_trylock", "-Wl,--wrap=pthread_spin_unlock",
              "-Wl,--wrap=pthread_spin_destroy", "-Wl,--wrap=pthread_mutex_lock", "-Wl,--wrap=pthread_mutex_trylock",
              "-Wl,--wrap=pthread_mutex_unlock", "-Wl,--wrap=pthread_mutex_destroy"]


def build_mixed(name, units, lib=None, ldflags=None):
    """units: list of (source under harness/, flags).  Each is compiled separately, then linked with the
    ASan runtime (the library archive is ASan-instrumented) but WITHOUT libtsan.  Returns the exe path."""
    ldflags = ldflags or []
    srcs = [os.path.join(C.VERIF, "harness", s) for s, _ in units]
    deps = srcs + ([lib] if lib else []) + glob.glob(os.path.join(C.VERIF, "harness", "*.h"))
    key = C.file_hash(deps + C.repo_sources(), name + repr(units) + " ".join(ldflags))
    d = os.path.join(C.BUILD, "harness", name + "-" + key)
    exe = os.path.join(d, name)
    with C.Lock("harness-" + name):
        if os.path.exists(exe):
            os.utime(d)
            return exe
        os.makedirs(d, exist_ok=True)
        objs = []
        for (s, flags), src in zip(units, srcs):
            o = os.path.join(d, os.path.basename(s) + ".o")
            rc, out = C.sh(["gcc"] + flags + C.BASE_CPP + C.inc_flags() + ["-c", src, "-o", o], timeout=600)
            if rc != 0:
                shutil.rmtree(d, ignore_errors=True)
                raise C.BrokenInput("harness %s: %s does not build against the current tree:\n%s" % (name, s, out[-4000:]))
            objs.append(o)
        cmd = ["gcc", "-g", "-fsanitize=address,undefined", "-pthread"] + objs + ([lib] if lib else []) + \
            ["-o", exe] + ldflags + ["-ldl", "-lrt", "-lm"]
        rc, out = C.sh(cmd, timeout=600)
        if rc != 0:
            shutil.rmtree(d, ignore_errors=True)
            raise C.BrokenInput("harness %s does not link:\n%s" % (name, out[-4000:]))
        hd = os.path.join(C.BUILD, "harness")
        olds = sorted([x for x in glob.glob(os.path.join(hd, name + "-*")) if os.path.isdir(x)],
                      key=os.path.getmtime, reverse=True)
        for x in olds[3:]:
            shutil.rmtree(x, ignore_errors=True)
    return exe
