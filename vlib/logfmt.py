"""Helpers shared by the C13 / C14 plugins (log_format.c): hex text, running the implementation harness and the
extracted model on the same scripts, with the implementation's recorded oracle answers handed to the model."""
import os
from vlib import common as C


def hx(b):
    if isinstance(b, str):
        b = b.encode("latin1")
    return b.hex() if b else "-"


def unhx(s):
    return b"" if s == "-" else bytes.fromhex(s)


def model_input(case_lines, impl_lines, oracle_prefix=("snp ",)):
    """Interleave the script of one case with the oracle lines of the implementation's log: the oracle lines the
    implementation printed while executing the k-th command are inserted (as 'O ...') before that command."""
    out = []
    it = iter(impl_lines)
    pending = []
    # split the implementation log into one chunk per command that prints a terminating line
    chunks = []
    cur = []
    for l in impl_lines:
        cur.append(l)
        if l.startswith(("ser ", "des ", "ref ", "fmt ", "out ")):
            chunks.append(cur)
            cur = []
    if cur:
        chunks.append(cur)
    ci = 0
    for cmd in case_lines:
        if cmd.split(" ", 1)[0] in ("R",):
            out.append(cmd)
            continue
        ch = chunks[ci] if ci < len(chunks) else []
        ci += 1
        for l in ch:
            if l.startswith(oracle_prefix):
                out.append("O " + l.split(" ", 1)[1])
        out.append(cmd)
    return "\n".join(out) + "\n"


def run_both(cases, exe, model, model_args=None, silent_cmds=("R",), timeout=900, env=None):
    """cases: list of lists of script lines.  Returns (impl results, model results) as from C.run_cases."""
    texts = ["\n".join(c) + "\n" for c in cases]
    impl = C.run_cases(exe, texts, timeout=timeout, env=env)
    minputs = [model_input(cases[i], impl[i][0]) for i in range(len(cases))]
    mod = C.run_cases(model, minputs, timeout=timeout, wrapper=None) if not model_args else \
        run_cases_args(model, model_args, minputs, timeout)
    return impl, mod


def run_cases_args(exe, args, cases, timeout):
    # C.run_cases with extra argv: go through a tiny wrapper list (env -> exe args)
    return C.run_cases(exe, cases, timeout=timeout, wrapper=None) if not args else \
        _run_with_args(exe, args, cases, timeout)


def _run_with_args(exe, args, cases, timeout):
    import re
    results = [None] * len(cases)
    text = "".join("# case %d\n%s" % (i, c if c.endswith("\n") or not c else c + "\n") for i, c in enumerate(cases))
    rc, out, err = C.sh2([exe] + list(args), timeout=timeout, stdin=text.encode())
    cur = None
    for line in out.split("\n"):
        m = re.match(r"^# case (\d+)\s*$", line)
        if m:
            cur = int(m.group(1))
            results[cur] = ([], None)
        elif cur is not None and line != "":
            results[cur][0].append(line)
    for i in range(len(cases)):
        if results[i] is None:
            results[i] = ([], (rc, err[-2000:]))
    return results
