"""Helpers of props/C04.py: case generator, independent monitor of the C04 statement over the implementation's log
(harness/h_ipclife.c), execution of harness + extracted model."""
import os
import re
from vlib import common as C

KINDS = "acmld"
ACC_ERRS = [-13, -11, -1, -12, 1]


def build():
    lib = C.build_lib()
    exe = C.build_harness("h_ipclife", ["h_ipclife.c"], lib=lib)
    return exe


def tree_is_fixed():
    """Does the working tree carry fixes/C04-connection-lifecycle.patch?  (decides which variant of the model is the
    transcription of this tree; the theorems are about the fixed variant)"""
    try:
        with open(os.path.join(C.REPO, "lib", "ipc_int.h")) as f:
            return "closed_notified" in f.read()
    except OSError:
        return False


# ------------------------------------------------------------------ corpus: boundary histories of DESIGN C04 + the findings
def corpus():
    out = []
    for tr in ("shm", "sock"):
        S = ["svc " + tr]
        out += [
            # plain life cycle, two clients, iteration, kill and hup
            S + ["conn 0", "conn 1", "req 0", "req 1", "req 1", "t 0", "t 1", "app I", "kill 0", "t 0", "hup 1", "t 1", "end"],
            # finding 1: disconnect inside msg_process (with further requests queued)
            S + ["beh m 0 D:s", "conn 0", "req 0", "req 0", "req 0", "t 0", "t 0", "end"],
            # finding 1 with an application reference: the loop must not deliver after closed
            S + ["beh m 0 R:s D:s", "conn 0", "req 0", "req 0", "t 0", "t 0", "app U:0", "end"],
            # finding 2: application reference outlives the peer, second disconnect
            S + ["conn 0", "app R:0", "hup 0", "t 0", "app D:0", "app D:0", "app U:0", "end"],
            # finding 3: closed asks for a re-run, service destroyed before the job runs
            S + ["beh l 1", "conn 0", "hup 0", "t 0", "app X", "jobs", "jobs", "end"],
            # finding 3 variant: re-run queued, application disconnects again (accepted), then the job
            S + ["beh l 1", "beh l 1", "conn 0", "hup 0", "t 0", "app D:0", "jobs", "jobs", "jobs", "end"],
            # finding 4: destroy walk while closed of the first disconnects the second
            S + ["conn 0", "conn 1", "conn 2", "beh l 0 D:0", "beh l 0 D:1", "app X", "end"],
            # unref inside destroyed of a different connection
            S + ["conn 0", "conn 1", "app R:0", "beh d 0 U:0 D:0", "kill 0", "t 0", "hup 1", "t 1", "end"],
            # disconnect inside created; refusal; reference taken in accept of a refused peer
            S + ["beh c 0 D:s", "conn 0", "beh a -13", "conn 1", "beh a -11 R:s", "conn 2", "app U:2", "app I", "end"],
            # closed retried three times across jobs, with a reference taken and dropped in between
            S + ["beh l 1 R:s", "beh l 2", "beh l -1 U:s", "conn 0", "hup 0", "t 0", "jobs", "jobs", "jobs", "jobs", "end"],
            # destroy from inside msg_process, from inside closed, from inside destroyed
            S + ["beh m 0 X", "conn 0", "conn 1", "req 1", "t 1", "t 0", "end"],
            S + ["beh l 0 X", "conn 0", "conn 1", "hup 0", "t 0", "jobs", "end"],
            S + ["beh d 0 X", "conn 0", "conn 1", "hup 1", "t 1", "t 0", "end"],
            # rate limits, flow control, batches of 5 / 1 / 50
            S + ["conn 0"] + ["req 0"] * 7 + ["t 0", "t 0", "app L:2"] + ["req 0"] * 3 + ["t 0", "t 0", "app L:0"] + ["req 0"] * 6 +
            ["t 0", "app L:3", "req 0", "t 0", "app L:4", "req 0", "t 0", "app L:1", "t 0", "end"],
            # iterate-and-disconnect (the corosync idiom), events and responses from callbacks
            S + ["beh c 0 S:s", "beh m 0 P:s S:s", "conn 0", "conn 1", "conn 2", "req 0", "t 0", "app R:1", "app K", "app I", "app U:1", "end"],
            # msg_process returns an error (back-off), then kill with requests pending
            S + ["beh m -1", "conn 0", "req 0", "req 0", "t 0", "req 0", "kill 0", "t 0", "end"],
            # the client goes away between its request and the server's response: accept, destroyed - no closed
            S + ["conn 0", "connx 1", "beh a -13", "connx 2", "beh a 0 R:s", "connx 3", "app I", "app U:3", "end"],
            # nesting cut at depth 1
            S + ["depth 1", "beh m 0 D:s", "beh l 1 D:s R:s", "conn 0", "req 0", "t 0", "jobs", "end"],
            # closed disconnects itself re-entrantly
            S + ["beh l 0 D:s", "beh l 0 D:s", "conn 0", "hup 0", "t 0", "jobs", "end"],
            # reconnect on the same slot after a server-side disconnect
            S + ["conn 0", "app D:0", "req 0", "hup 0", "conn 0", "req 0", "t 1", "t 0", "end"],
        ]
    return out


def gen_action(rng, nconn_guess, in_cb):
    r = rng.random()
    tgt = "s" if (in_cb and rng.random() < 0.6) else str(rng.randrange(max(1, nconn_guess)))
    if r < 0.30:
        return "D:" + tgt
    if r < 0.45:
        return "R:" + tgt
    if r < 0.62:
        return "U:" + tgt
    if r < 0.72:
        return "S:" + tgt
    if r < 0.77:
        return "P:" + tgt
    if r < 0.83:
        return "X"
    if r < 0.90:
        return "L:%d" % rng.randrange(5)
    if r < 0.96:
        return "I"
    return "K"


def gen_case(rng, nops, deep=False):
    """deep (thorough tier only): up to 6 client slots, callback nesting cut up to 12 (default 6), up to 7 actions per
    behaviour entry, denser behaviour tables - a superset of what the quick tier generates."""
    ops = ["svc " + rng.choice(["shm", "sock"])]
    if rng.random() < (0.5 if deep else 0.2):
        ops.append("depth %d" % rng.choice([0, 1, 2, 3, 5, 8, 12] if deep else [0, 1, 2, 3]))
    nconn = 0
    slots = rng.choice([2, 4, 5, 6] if deep else [1, 2, 3, 4])
    quietness = rng.choice([0.4, 0.7, 0.9] if deep else [0.15, 0.4, 0.7])      # share of behaviour entries
    nacts = [1, 2, 3, 4, 5, 7] if deep else [0, 1, 1, 2, 3]
    for _ in range(nops):
        r = rng.random()
        if r < quietness * 0.5:
            k = rng.choice("acmmlld")
            if k == "a":
                ret = rng.choice(ACC_ERRS) if rng.random() < 0.3 else 0
            elif k == "m":
                ret = rng.choice([0, 0, 0, -1, 5])
            elif k == "l":
                ret = rng.choice([0, 1, 1, -1, 7])
            else:
                ret = 0
            acts = [gen_action(rng, nconn + 1, True) for _ in range(rng.choice(nacts))]
            ops.append(("beh %s %d " % (k, ret) + " ".join(acts)).strip())
        elif r < 0.25 or nconn == 0:
            ops.append("%s %d" % ("connx" if rng.random() < 0.08 else "conn", rng.randrange(slots)))
            nconn += 1
        elif r < 0.45:
            s = rng.randrange(slots)
            ops += ["req %d" % s] * rng.choice([1, 1, 2, 3, 6])
        elif r < 0.52:
            ops.append("%s %d" % (rng.choice(["hup", "kill"]), rng.randrange(slots)))
        elif r < 0.75:
            ops.append("t %d" % rng.randrange(nconn + 1))
        elif r < 0.82:
            ops.append("jobs")
        else:
            ops.append("app " + gen_action(rng, nconn + 1, False).replace(":s", ":0"))
    if rng.random() < 0.5:
        # drain: let the main loop look at everything, run the jobs
        ops += ["t %d" % i for i in range(nconn)] + ["jobs", "jobs"]
    ops.append("end")
    return ops


# ------------------------------------------------------------------ monitor: the C04 statement over the implementation log
CB = re.compile(r"^(cb|cbq) (\w+) (-?\d+) (-?\d+)$")


def monitor(lines, crash):
    """Independent of the model.  Per connection: accept created? msg* closed* destroyed, closed only after created and
    never again once it returned 0, no msg after closed, destroyed at most once / exactly once by the end and never while
    a closed re-run is owed or the application holds a reference, nothing after destroyed; no residue; no sanitizer
    report."""
    if crash:
        rc, tail = crash
        m = re.search(r"ERROR: AddressSanitizer: ([\w-]+)", tail) or re.search(r"runtime error: (.*)", tail)
        where = re.search(r"#0 0x\w+ in (\w+) [^\n]*?([\w.]+:\d+)", tail)
        return "implementation crashed / sanitizer report rc=%s %s%s" % (
            rc, m.group(1) if m else "", (" in %s (%s)" % (where.group(1), where.group(2))) if where else "")
    ph = {}       # id -> phase
    uref = {}
    for i, l in enumerate(lines):
        if l.startswith("STALE-FD") or l.startswith("DOUBLE-DESTROYED") or l.startswith("TOO-MANY"):
            return "line %d: %s" % (i, l)
        if l.startswith("a R "):
            c = int(l.split()[2]); uref[c] = uref.get(c, 0) + 1
        elif l.startswith("a U "):
            c = int(l.split()[2]); uref[c] = uref.get(c, 0) - 1
        m = CB.match(l)
        if not m:
            if l.startswith("r alive="):
                kv = dict(x.split("=") for x in l.split()[1:])
                if kv["alive"] != "0":
                    return "after tear-down %s connection(s) never got their destroyed callback" % kv["alive"]
                if kv["shm_left"] != "0" or kv["fds_delta"] != "0":
                    return "residue after tear-down: %s" % l
                if kv["stale"] != "0":
                    return "stale descriptor use: %s" % l
            continue
        quiet, k, c, ret = m.group(1) == "cbq", m.group(2), int(m.group(3)), int(m.group(4))
        p = ph.get(c, "new")
        if c < 0:
            return "line %d: callback %s for a connection the application was never told about" % (i, k)
        if p == "dead":
            return "line %d: %s invoked for connection %d after its destroyed callback" % (i, k, c)
        if k == "accept":
            if p != "new":
                return "line %d: accept twice for connection %d" % (i, c)
            ph[c] = "acc"
        elif k == "created":
            if p != "acc":
                return "line %d: created for connection %d in phase %s" % (i, c, p)
            ph[c] = "cre"
        elif k == "msg":
            if p != "cre":
                return "line %d: msg_process for connection %d in phase %s (needs created, before closed)" % (i, c, p)
        elif k == "closed":
            if p not in ("cre", "retry"):
                return "line %d: closed for connection %d in phase %s" % (i, c, p)
            ph[c] = "done" if ret == 0 else "retry"
        elif k == "destroyed":
            if p == "retry" and not quiet:
                return "line %d: destroyed for connection %d although closed asked to be called again" % (i, c)
            if uref.get(c, 0) > 0 and not quiet:
                return "line %d: destroyed for connection %d while the application holds %d reference(s)" % (i, c, uref[c])
            ph[c] = "dead"
    if lines and lines[-1].startswith("r alive="):
        for c, p in ph.items():
            if p != "dead":
                return "connection %d never destroyed (phase %s)" % (c, p)
    elif lines:
        return "log ends without the tear-down summary"
    return None


# ------------------------------------------------------------------ execution
def execute(cases, exe, model, variant):
    texts = ["\n".join(c) + "\n" for c in cases]
    impl = C.run_cases(exe, texts, timeout=900)
    mcases = []
    for lines, crash in impl:
        mcases.append("\n".join(lines) + "\n")
    mod = C.run_cases(model, mcases, timeout=900, env={"C04_VARIANT": variant})
    if any(crash for _, crash in impl):
        sweep_residue()
    return impl, mod


def sweep_residue():
    """A harness killed by a sanitizer report cannot tidy up: remove /dev/shm entries of lab services (names
    vl<pid>_<n>) whose process is gone, so that a later process with a recycled pid does not inherit them."""
    import shutil
    try:
        names = os.listdir("/dev/shm")
    except OSError:
        return
    for d in names:
        if not d.startswith("qb-"):
            continue
        p = os.path.join("/dev/shm", d)
        try:
            inner = os.listdir(p) if os.path.isdir(p) else [d]
            pids = set(int(m.group(1)) for f in inner for m in [re.search(r"-vl(\d+)_\d+", f)] if m)
            if not pids or len([f for f in inner if re.search(r"-vl\d+_\d+", f)]) != len(inner):
                continue
            if any(os.path.exists("/proc/%d" % q) for q in pids):
                continue
            if os.path.isdir(p):
                shutil.rmtree(p, ignore_errors=True)
            else:
                os.unlink(p)
        except OSError:
            pass


def comparable(lines):
    """Lines both sides produce: everything up to 'op end' except tear-down noise."""
    out = []
    for l in lines:
        if l.startswith("cbq ") or l.startswith("r alive="):
            continue
        out.append(l)
    return out


def judge(impl, mod):
    lines, crash = impl
    m = monitor(lines, crash)
    mlines = mod[0]
    merr = [l for l in mlines if l.startswith("ERR ")]
    il = comparable(lines)
    ml = comparable(mlines)
    if merr:
        # the model reached an error state: it stops there; compare the prefix
        k = ml.index(merr[0])
        d = C.first_diff(il[:k], ml[:k])
    else:
        d = C.first_diff(il, ml)
    if m:
        return ("impl-monitor", m, {"first_model_difference": d, "model_error": merr[:1]})
    if mod[1]:
        return ("correspondence", "model runner failed", mod[1][1][-800:])
    if merr:
        return ("correspondence", "model reaches error state %r but the implementation shows no failure" % merr[0], {"first_difference": d})
    if d:
        return ("correspondence", "observable %d differs: impl %r model %r" % d, {"first_difference": d})
    return None
