"""C03 helpers: build of harness/h_ipcdeath.c (+ killat.c), case execution in parallel processes, parsing, monitor.
Owned by property C03 (builder ipcdeath); not a lead-shared file."""
import os
from vlib import common as C

WRAPS = ["poll", "sem_timedwait", "sem_wait", "clock_gettime", "nanosleep", "usleep"]


def build():
    lib = C.build_lib()
    return C.build_harness("h_ipcdeath", ["h_ipcdeath.c"], lib=lib,
                           ldflags=["-Wl," + ",".join("--wrap=" + w for w in WRAPS), "-pthread"],
                           dep_files=[os.path.join(C.VERIF, "harness", "killat.c")])

import re
import json
from concurrent.futures import ThreadPoolExecutor

SLACK_MS = 400
KMAX_CLIENT = 80
KMAX_SERVER = 95
NPROC = 8


def tree_fixed_recv():
    """Does the working tree carry fixes/C03-ipcc-recv-after-disconnect.patch (qb_ipcc_recv tests is_connected)?"""
    src = open(os.path.join(C.REPO, "lib", "ipcc.c")).read()
    m = re.search(r"\nqb_ipcc_recv\(.*?\n}\n", src, re.S)
    return bool(m and "is_connected" in m.group(0))


def max_wait_ms():
    src = open(os.path.join(C.REPO, "lib", "ipc_int.h")).read()
    m = re.search(r"#define\s+QB_IPC_MAX_WAIT_MS\s+(\d+)", src)
    return int(m.group(1)) if m else 2000


def gen_cases(tier, rng, harder=False):
    cases = []
    thorough = tier == "thorough" or harder
    for tr in ("shm", "sock"):
        for sc in range(5):
            for pol in range(4):
                if thorough or (sc == 4 and pol in (0, 3)):
                    ks = range(0, KMAX_CLIENT + 1)
                elif pol in (0, 3) or sc in (1, 3):
                    off = rng.randrange(3)
                    ks = [k for k in range(0, KMAX_CLIENT + 1) if k % 3 == off]
                else:
                    continue
                for k in ks:
                    cases.append("cdeath %s %d %d %d" % (tr, sc, k, pol))
        for n in range(0, 25):
            for stale in (0, 1):
                cases.append("hsprefix %s %d %d" % (tr, n, stale))
        # closed() asking r times to be called again; the bystander mid-request at the death
        for sc in ((1, 2, 3, 4) if thorough else (2, 3)):
            for pol in ((0, 1, 2, 3) if thorough else (0, 3)):
                off = rng.randrange(4)
                for k in range(0, KMAX_CLIENT + 1):
                    if thorough or k % 4 == off:
                        cases.append("cdeathx %s %d %d %d %d 1" % (tr, sc, k, pol, 1 + (k % 3)))
        for T in ((-1, 300, 5000) if thorough else (-1, 300)):
            off = rng.randrange(2)
            for k in range(0, KMAX_SERVER + 1):
                if thorough or T == -1 or k % 2 == off:
                    cases.append("sdeath %s %d %d" % (tr, k, T))
        for k in range(0, KMAX_SERVER + 1):
            if thorough or k % 3 == 0:
                cases.append("sdeathq %s %d 300" % (tr, k))
    return cases


def run_parallel(exe, cases):
    """Kill points in parallel processes (each with its own pid-derived service names)."""
    chunks = [[] for _ in range(NPROC)]
    for i, c in enumerate(cases):
        chunks[i % NPROC].append((i, c))
    results = [None] * len(cases)

    def one(chunk):
        rs = C.run_cases(exe, [c for _, c in chunk], timeout=600)
        return [(chunk[j][0], rs[j]) for j in range(len(chunk))]
    with ThreadPoolExecutor(NPROC) as ex:
        for part in ex.map(one, [ch for ch in chunks if ch]):
            for i, r in part:
                results[i] = r
    return results


LOGRE = re.compile(r"^(|AD|ACM*L+D)$")
CB = {"accept": "A", "created": "C", "msg": "M", "closed": "L", "destroyed": "D"}


def kv(line):
    return dict(p.split("=", 1) for p in line.split()[1:] if "=" in p)


def monitor_client(case, lines, crash):
    """The property itself over the implementation's log of one client-death / handshake-prefix case.
    Returns (list of failures, info dict)."""
    bad = []
    info = {}
    if crash:
        bad.append("harness process died: rc=%s %s" % (crash[0], crash[1][-400:]))
        return bad, info
    dlog, post, seen_cut = "", "", False
    got = {}
    for l in lines:
        w = l.split()
        if w[0] == "cb" and w[2] == "D":
            dlog += CB[w[1]]
            if seen_cut:
                post += CB[w[1]]
        elif w[0] == "cut":
            seen_cut = True
            info["cut"] = l
        elif w[0] in ("census", "bystander", "probe", "final", "dying", "prefix", "child", "midreq"):
            got[w[0]] = kv(l)
        elif w[0] in ("STUCK", "NOT-QUIESCENT", "TOO-MANY", "STALE-FD", "r"):
            bad.append(l)
    info["dlog"], info["post"] = dlog, post
    if not LOGRE.match(dlog):
        bad.append("callbacks for the dead client are not ( | accept destroyed | accept created msg* closed destroyed): " + dlog)
    for sect, want in (("census", {"fds": "0", "entries": "0", "svcref": "0", "shmfiles": "0", "shmdirs": "0", "stale": "0"}),
                       ("bystander", {"roundtrip": "0", "events": "1", "closed": "0", "destroyed": "0"}),
                       ("probe", {"roundtrip": "0", "fds": "0", "entries": "0", "svcref": "0"}),
                       ("final", {"fds": "0", "shmfiles": "0", "shmdirs": "0", "jobs": "0"})):
        if sect not in got:
            bad.append("no '%s' line" % sect)
            continue
        for k, v in want.items():
            if got[sect].get(k) != v:
                bad.append("%s: %s=%s (expected %s)" % (sect, k, got[sect].get(k), v))
    if case.startswith("cdeathx"):
        r = int(case.split()[5])
        if "C" in dlog and dlog.count("L") != r + 1:
            bad.append("connection_closed() asked %d times to be called again: called %d times (%s)" % (r, dlog.count("L"), dlog))
        if case.split()[6] == "1" and got.get("midreq", {}).get("answered") != "1":
            bad.append("the bystander's request that was in flight at the death was not answered: %s" % got.get("midreq"))
    cutkv = kv(info.get("cut", "cut"))
    info["evq"] = int(cutkv.get("evq", "-1"))
    info["notifiers"] = int(cutkv.get("notifiers", "0"))
    info["census"] = got.get("census", {})
    info["stall_ms"] = int(got.get("census", {}).get("stall_ms", "0"))
    return bad, info


def model_query(case, info, lines):
    """The model question for this case, or None when the cut is not one of the model's classes."""
    w = case.split()
    tr = w[1]
    cut = info.get("cut", "").split()
    if len(cut) < 2:
        return None
    if w[0] in ("cdeath", "cdeathx"):
        stale = (int(w[4]) >> 1) & 1
        k = int(w[3])
    else:
        stale = int(w[3])
    if cut[1] == "none":
        return "cut %s none 0 0 %d" % (tr, stale)
    if cut[1] == "backlog":
        return "cut %s backlog 0 0 %d" % (tr, stale)
    if cut[1] == "auth":
        if w[0] == "hsprefix":
            n = int(w[2])
            return "cut %s auth %d %d %d" % (tr, n, 0 if stale else 1, stale)
        trace = [l for l in lines if l.startswith("trace ")]
        sent = 0
        if trace:
            calls = trace[0].split()[2:]
            done = calls[:max(0, k - 1)]
            sent = 24 if any(c.startswith("44:") for c in done) else 0
        return "cut %s auth %d 0 %d" % (tr, sent, stale)
    if cut[1] == "conn":
        d = kv(" ".join(cut[1:]))
        if d.get("state") != "2":
            return None
        q = max(0, int(d.get("reqq", "0")))
        return "cut %s conn %d %d %d" % (tr, q, max(0, int(d.get("notify", "0"))), stale)
    return None


def judge_client(case, lines, crash, pred):
    bad, info = monitor_client(case, lines, crash)
    if bad:
        return ("impl-monitor", bad[0], {"all": bad[:6]}), info
    if pred is not None:
        p = kv(pred)
        prefix = "AC" if " conn " in (" " + info.get("cut", "") + " ") else ""
        mpost = p["log"][len(prefix):] if p["log"].startswith(prefix) else p["log"]
        if case.startswith("cdeathx"):
            # the model's connection_closed() returns 0 (the re-run job is C04's theorem): compare modulo repeated closed
            info["post"] = re.sub(r"L+", "L", info["post"])
        cen = info["census"]
        diffs = []
        if mpost != info["post"]:
            diffs.append("callbacks after the death: model %r, implementation %r" % (mpost, info["post"]))
        if p["closed"] != cen.get("closed"):
            diffs.append("closed_connections: model %s, implementation %s" % (p["closed"], cen.get("closed")))
        if int(p["active"]) + 1 != int(cen.get("active", "-99")):
            diffs.append("active_connections: model %d (+1 bystander), implementation %s" % (int(p["active"]), cen.get("active")))
        for k in ("fds", "entries"):
            if p[k] != cen.get(k):
                diffs.append("%s: model %s, implementation %s" % (k, p[k], cen.get(k)))
        if diffs:
            return ("correspondence", diffs[0], {"all": diffs, "model": pred, "cut": info.get("cut")}), info
    return None, info


DISC_OK = {"ENOTCONN", "ECONNREFUSED", "ECONNRESET", "EPIPE", "ESHUTDOWN", "EBADF", "ENOENT"}


def monitor_server(case, lines, crash, fixed):
    """Server-death case: deadlines, bounded infinite waits, later calls at once, no shm files after disconnect."""
    bad, info = [], {"calls": [], "hang": None}
    if crash:
        return ["harness process died: rc=%s %s" % (crash[0], crash[1][-400:])], info
    T = int(case.split()[3])
    maxw = max_wait_ms()
    first_disc_end = None
    res = None
    for l in lines:
        w = l.split()
        if w[0] == "HANG":
            info["hang"] = l
            bad.append("a client call never returns although the server is dead: " + l)
        elif w[0] in ("STUCK", "r"):
            bad.append(l)
        elif w[0] == "residue":
            res = kv(l)
        elif w[0] == "call":
            name, tmo = w[1], int(w[2])
            d = kv(" ".join(w[2:]))
            rc, start, end, death = d["rc"], int(d["start"]), int(d["end"]), int(d["death"])
            if end < 0:
                continue                      # the hanging call (reported above)
            affected = death >= 0 and end >= death
            el = end - max(start, death) if affected else 0
            info["calls"].append((name, tmo, rc, el, d.get("phase") == "2"))
            neg = not rc.lstrip("-").isdigit()
            if affected:
                if name in ("sendv_recv", "event_recv", "recv") and tmo >= 0:
                    bound = tmo + SLACK_MS
                elif name in ("sendv_recv", "event_recv") and tmo < 0:
                    bound = maxw + SLACK_MS
                else:
                    bound = SLACK_MS
                if el > bound:
                    bad.append("%s(timeout %d) returned %d ms after the server's death (bound %d)" % (name, tmo, el, bound))
                if first_disc_end is not None and start >= first_disc_end and el > SLACK_MS and name != "connect":
                    bad.append("later call %s(timeout %d) took %d ms to fail although the disconnect had been reported"
                               % (name, tmo, el))
                if d.get("phase") == "2" and name in ("sendv_recv", "send") and not (neg and rc in DISC_OK):
                    bad.append("%s started after the server's death returned %s (no disconnect error)" % (name, rc))
                if name == "is_connected" and rc != "0":
                    bad.append("is_connected = %s after the server's death" % rc)
                if neg and rc in DISC_OK and first_disc_end is None:
                    first_disc_end = end
    if res is None and not info["hang"]:
        bad.append("no residue line")
    elif res is not None and res.get("connected") == "1":
        if res.get("files") != "0":
            bad.append("shared-memory files left after qb_ipcc_disconnect: %s" % res.get("files"))
        info["dirs_left"] = int(res.get("dirs", "0"))
    elif res is not None:
        info["unreachable_files"] = int(res.get("files", "0"))
    return bad, info
