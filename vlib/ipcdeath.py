"""C03 helpers: build of harness/h_ipcdeath.c (+ killat.c), case execution in parallel processes, parsing, monitor.
Owned by property C03 (builder ipcdeath); not a lead-shared file."""
import os
from vlib import common as C

WRAPS = ["poll", "sem_timedwait", "sem_wait", "clock_gettime", "nanosleep", "usleep"]


def build():
    lib = C.build_lib()
    return C.build_harness("h_ipcdeath", ["h_ipcdeath.c"], lib=lib,
                           ldflags=["-Wl," + ",".join("--wrap=" + w for w in WRAPS), "-pthread"],
                           dep_files=[os.path.join(C.VERIF, "harness", "killat.c")])
