"""Shared machinery of the ring-buffer properties C07 / C11 (sequential scripts against harness/h_rb.c).

Script format: see harness/h_rb.c.  Everything random derives from the rng handed in (ctx.rng)."""
import glob
import os
from concurrent.futures import ThreadPoolExecutor
from vlib import common as C

EAGAIN, ETIMEDOUT, EBADMSG, ENOBUFS, EINVAL, ENOTSUP = 11, 110, 74, 105, 22, 95
MAGIC, DEAD, ALLOC = 0xA1A1A1A1, 0xD0D0D0D0, 0xA110CED0
PAGE = 4096
MARGIN = 12
OVERHEAD = 16          # the per-chunk overhead the property statements count with


def words_for(n):      # words a chunk of n payload bytes occupies in the ring
    return 2 + (n + 3) // 4


def ring_bytes(S):
    return ((S + MARGIN + 1 + PAGE - 1) // PAGE) * PAGE


def build():
    lib = C.build_lib()
    return C.build_harness("h_rb", ["h_rb.c"], lib=lib)


def cleanup_shm():
    for p in glob.glob("/dev/shm/vrb-*"):
        try:
            os.unlink(p)
        except OSError:
            pass


# ------------------------------------------------------------------ payloads
def payload(rng, n, seq, style=None):
    """n bytes.  Words are drawn from the ring's own marker constants, small length-like
    integers and random values; the first word carries a sequence number when there is room
    (so that chunks are distinguishable) unless the style asks for a pure marker pattern."""
    style = style or rng.choice(["mix", "mix", "rand", "markers", "alt8magic", "zeros", "seq"])
    out = bytearray()
    nw = (n + 3) // 4
    for i in range(nw):
        if style == "rand":
            w = rng.getrandbits(32)
        elif style == "markers":
            w = rng.choice([MAGIC, DEAD, ALLOC, MAGIC, 0])
        elif style == "alt8magic":
            w = 8 if i % 2 == 0 else MAGIC
        elif style == "zeros":
            w = 0
        elif style == "seq":
            w = ((seq & 0xFFFF) << 16) | (i & 0xFFFF)
        else:
            w = rng.choice([0, MAGIC, DEAD, ALLOC, 4, 8, 12, 16, 1, n & 0xFFFFFFFF, rng.getrandbits(32),
                            rng.getrandbits(32), rng.randrange(64)])
        out += w.to_bytes(4, "little")
    if style in ("mix", "rand", "zeros") and n >= 4:
        out[0:4] = (0x51000000 | (seq & 0xFFFFFF)).to_bytes(4, "little")
    return bytes(out[:n])


def hexs(b):
    return b.hex() if b else "-"


# ------------------------------------------------------------------ generator
class Tracker:
    """What the generator believes about the ring (only used to aim at boundaries; the monitor
    below is separate and trusts nothing of this)."""

    def __init__(self, S, overwrite):
        self.S = S
        self.W = ring_bytes(S) // 4
        self.q = []
        self.ovw = overwrite

    def used(self):
        return sum(words_for(n) for n in self.q)

    def free_bytes(self):
        u = self.used()
        return 4 * self.W if u == 0 else 4 * (self.W - u - 1)

    def write(self, rlen, n):
        if self.ovw:
            while self.free_bytes() < rlen + MARGIN and self.q:
                self.q.pop(0)
            if self.free_bytes() < rlen + MARGIN:
                return False
        elif self.free_bytes() < rlen + MARGIN:
            return False
        self.q.append(n)
        return True


SIZES = [1, 2, 10, 100, 200, 1000, 2000, 3000, 4083, 4084, 4085, 4000, 5000, 8179, 8180, 8181, 6000, 12275, 12276]


def pick_len(rng, tr):
    """chunk length aimed at the admission boundary of the current state, or a generic one"""
    fb = tr.free_bytes()
    r = rng.random()
    if r < 0.22:
        return max(0, fb - MARGIN - rng.choice([0, 0, 1, 2, 3, 4, 5, 8]))       # just fits
    if r < 0.34:
        return max(0, fb - MARGIN + rng.choice([1, 1, 2, 3, 4, 5]))             # just refused / must reclaim
    if r < 0.42:
        return max(0, tr.S - rng.choice([0, 0, 1, 2, 3, 4]))                    # around the requested size
    if r < 0.46:
        return tr.S + rng.choice([1, 2, 13, 14, 100, 5000])                     # more than requested
    if r < 0.60:
        return rng.choice([0, 1, 2, 3, 4, 5, 7, 8, 9, 12, 16])
    if r < 0.80:
        return rng.randrange(0, max(2, min(tr.S, 600)))
    # wrap hunters: lengths that place the next header / padding word at the end of the area
    pos = (tr.used()) % tr.W
    to_end = (tr.W - pos) * 4
    return max(0, to_end - rng.choice([8, 7, 5, 4, 3, 1, 0, 12, 9]))


def gen_case(rng, overwrite, nops, seqbase=0, disciplined=True, sem=None, S=None):
    S = S if S is not None else (rng.choice(SIZES) if rng.random() < 0.8 else rng.randrange(1, 13000))
    nosem = (rng.random() < 0.5) if sem is None else (not sem)
    flags = ("o" if overwrite else "") + ("n" if nosem else "") or "-"
    tr = Tracker(S, overwrite)
    ops = ["O %d %s" % (S, flags)]
    seq = seqbase
    phase_fill = True
    for _ in range(nops):
        r = rng.random()
        if phase_fill and rng.random() < 0.04:
            phase_fill = False
        elif not phase_fill and rng.random() < 0.08:
            phase_fill = True
        pw = 0.62 if phase_fill else 0.30
        if r < pw:
            n = pick_len(rng, tr)
            seq += 1
            if rng.random() < 0.25:
                rlen = n + rng.choice([0, 1, 3, 4, 16, 100, 512, 600])
                body = payload(rng, n, seq)
                ops.append("A %d %s" % (rlen, hexs(body)))
                tr.write(rlen, n)
            else:
                body = payload(rng, n, seq)
                ops.append("W %s" % hexs(body))
                tr.write(n, n)
        elif r < pw + 0.25:
            head = tr.q[0] if tr.q else 0
            m = rng.random()
            if m < 0.70:
                n = max(head, rng.choice([head, head, head + 1, head + 64, 70000]))
            elif m < 0.90:
                n = max(0, head - rng.choice([1, 1, 2, 4, head]))
            else:
                n = rng.choice([0, 1, 4, 70000])
            ops.append("R %d" % n)
            if tr.q and n >= head:
                tr.q.pop(0)
        elif r < pw + 0.34:
            ops.append("P")
            if disciplined or rng.random() < 0.7:
                # peek is followed by reclaim when it delivered something (the documented usage)
                if tr.q:
                    ops.append("X")
                    tr.q.pop(0)
        elif r < pw + 0.36 and not disciplined:
            ops.append("X")
            if tr.q:
                tr.q.pop(0)
        elif r < pw + 0.38:
            ops.append("D")
        else:
            ops.append("R 70000")
            if tr.q:
                tr.q.pop(0)
    if rng.random() < 0.7:
        ops += ["R 70000"] * (len(tr.q) + 2)
    ops.append("D")
    return ops


# ------------------------------------------------------------------ parsing the implementation log
def parse_ops(script, lines):
    """Pair script operations with their output lines -> list of (op_text, r_line|None, q_line|None)."""
    res = []
    i = 0
    for op in script:
        c = op[0]
        r = q = None
        if c == "O":
            if i < len(lines) and lines[i].startswith("o "):
                r = lines[i]
                i += 1
        elif c in "WARPXD":
            if i < len(lines) and (lines[i].startswith("r ") or lines[i].startswith("d ")):
                r = lines[i]
                i += 1
        if c != "O" or (r is not None and r.strip() == "o 1"):
            if i < len(lines) and lines[i].startswith("q "):
                q = lines[i]
                i += 1
        res.append((op, r, q))
    return res, i


def cost(chunks):
    return sum(len(c) + OVERHEAD for c in chunks)


# ------------------------------------------------------------------ execution
def run_sharded(exe, texts, shards, timeout=900):
    """C.run_cases over `shards` parallel processes (cases keep their order and their own fresh state)."""
    n = len(texts)
    if n < 8 or shards <= 1:
        return C.run_cases(exe, texts, timeout=timeout)
    # balance by script size
    order = sorted(range(n), key=lambda i: -len(texts[i]))
    buckets = [[] for _ in range(shards)]
    loads = [0] * shards
    for i in order:
        k = loads.index(min(loads))
        buckets[k].append(i)
        loads[k] += len(texts[i]) + 200
    buckets = [sorted(b) for b in buckets if b]
    out = [None] * n
    with ThreadPoolExecutor(len(buckets)) as ex:
        for b, rs in zip(buckets, ex.map(lambda b: C.run_cases(exe, [texts[i] for i in b], timeout=timeout), buckets)):
            for i, r in zip(b, rs):
                out[i] = r
    return out


def execute(cases, exe, model):
    texts = ["\n".join(c) + "\n" for c in cases]
    half = max(1, C.NCPU // 2)
    with ThreadPoolExecutor(2) as ex:
        fi = ex.submit(run_sharded, exe, texts, max(1, half // 2))
        fm = ex.submit(run_sharded, model, texts, half)
        return fi.result(), fm.result()


def judge(case, impl, mod, monitor):
    """-> (kind, what, detail) or None.  monitor(script, lines) -> None | message | ('known', id, message)"""
    lines, crash = impl
    if crash:
        return ("impl-monitor", "implementation crashed / sanitizer report (rc=%s)" % crash[0], crash[1][-1500:])
    m = monitor(case, lines)
    d = C.first_diff(lines, mod[0])
    if m:
        if isinstance(m, tuple) and m[0] == "known":
            return ("known", m[1], m[2])
        return ("impl-monitor", m, {"first_model_difference": d})
    if mod[1]:
        return ("correspondence", "model runner failed", mod[1][1])
    if d:
        return ("correspondence", "observable %d differs: impl %r model %r" % (d[0], d[1][:200], d[2][:200]),
                {"first_difference": [d[0], d[1][:400], d[2][:400]]})
    return None
