"""C01: one writer + one reader on one ring buffer under the controlled scheduler (harness/h_rbconc.c +
sched_rt.c + sched_wrap_rb.c).  Build helpers, generators, monitor, judge."""
import glob
import os
from vlib import common as C
from vlib import sched as S

ID = "C01"
WRAPS = ["-Wl,--wrap=memcpy", "-Wl,--wrap=sem_post", "-Wl,--wrap=sem_trywait", "-Wl,--wrap=sem_wait",
         "-Wl,--wrap=sem_timedwait"]


def build():
    lib = C.build_lib()
    return S.build_mixed("h_rbconc", [("h_rbconc.c", S.TSAN_FLAGS), ("sched_rt.c", S.PLAIN_FLAGS),
                                      ("sched_wrap_rb.c", S.PLAIN_FLAGS)], lib=lib, ldflags=WRAPS)
