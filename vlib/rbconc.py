"""C01: one writer + one reader on one ring buffer under the controlled scheduler (harness/h_rbconc.c +
sched_rt.c + sched_wrap_rb.c).  Build helpers, generators, monitor, judge."""
import glob
import os
from vlib import common as C
from vlib import sched as S

ID = "C01"
WRAPS = ["-Wl,--wrap=memcpy", "-Wl,--wrap=sem_post", "-Wl,--wrap=sem_trywait", "-Wl,--wrap=sem_wait",
         "-Wl,--wrap=sem_timedwait"]


def build():
    lib = C.build_lib()
    return S.build_mixed("h_rbconc", [("h_rbconc.c", S.TSAN_FLAGS), ("sched_rt.c", S.PLAIN_FLAGS),
                                      ("sched_wrap_rb.c", S.PLAIN_FLAGS)], lib=lib, ldflags=WRAPS)


# ------------------------------------------------------------------ running a batch on both sides
def cleanup_shm(tag):
    for p in glob.glob("/dev/shm/vrbc-%s-*" % tag):
        try:
            os.unlink(p)
        except OSError:
            pass


def execute(cases, exe, model, tag=None):
    """cases: list of lists of script lines.  Returns (impl results, model results) as run_cases gives them."""
    tag = tag or ("p%d" % os.getpid())
    texts = ["\n".join(c) + "\n" for c in cases]
    try:
        impl = C.run_cases(exe, texts, timeout=900, env={"RBCONC_TAG": tag})
    finally:
        cleanup_shm(tag)
    mcases = []
    for c, (lines, crash) in zip(cases, impl):
        follow = [l for l in lines if l.startswith("s ") or l.startswith("end ")]
        mcases.append("\n".join([l for l in c if not l.startswith("run") and l != "drain"] + follow +
                                ([l for l in c if l == "drain"] if "end 0" in lines else [])) + "\n")
    mod = C.run_cases(model, mcases, timeout=900)
    return impl, mod


# ------------------------------------------------------------------ payloads and generators
W = 1024                      # words of the smallest ring (one page); S <= 4083 gives it
EAGAIN, ETIMEDOUT, EBADMSG, ENOBUFS = 11, 110, 74, 105
MAGIC, DEAD, ALLOC = 0xA1A1A1A1, 0xD0D0D0D0, 0xA110CED0


def le32(v):
    return bytes([(v >> (8 * i)) & 255 for i in range(4)])


def payload(rng, seq, n):
    """n bytes: sequence number, length, then a stress pattern (marker words, fake chunk headers) or noise."""
    kind = rng.randrange(5)
    if kind == 0:
        body = le32(MAGIC) * (n // 4 + 1)
    elif kind == 1:
        body = (le32(8) + le32(MAGIC)) * (n // 8 + 1)          # looks like a published header everywhere
    elif kind == 2:
        body = (le32(rng.choice([0, 4, 8, n])) + le32(rng.choice([MAGIC, DEAD, ALLOC]))) * (n // 8 + 1)
    else:
        body = bytes((seq * 37 + 11 * j + 1) % 251 for j in range(n))
    head = bytes([seq % 256, n % 256])
    return (head + body)[:n] if kind >= 3 else (body[:n] if n < 6 else body[:n - 2] + head)


def hexs(b):
    return b.hex() if b else "-"


def cw(n):
    return 2 + (n + 3) // 4


def wsteps(n, nosem):
    """number of micro-steps of an admitted write of n bytes: 5 before the copy, n copies, 5 (+1 post) after"""
    return 5 + n + 5 + (0 if nosem else 1)


LENS_SMALL = [0, 1, 3, 4, 5, 7, 8, 12, 16]


def position_prologue(rng, p, seq):
    """sequential calls that leave an empty ring with write_pt = read_pt = p (2 <= p <= 1023): one chunk of
    4*(p-2) bytes written and read back"""
    n = 4 * (p - 2) - rng.choice([0, 0, 1, 3])
    if n < 0:
        n = 0
    return ["pre w " + hexs(payload(rng, seq, n)), "pre r read 8192"], cw(n) % W


def gen_schedule(rng, wl, rcalls, nosem):
    """PCT-flavoured: mostly run a thread for whole calls, pre-empt inside the narrow windows (the first five and
    the last six steps of a write; the checks and the last eight steps of a read / reclaim)."""
    items = []
    t = rng.randrange(2)
    nw, nr = len(wl), len(rcalls)
    for _ in range(rng.choice([2, 3, 4, 6, 8, 12])):
        m = rng.random()
        if m < 0.25:
            items.append("%d:c%d" % (t, rng.choice([1, 1, 2, 3])))
        elif m < 0.6:
            items.append("%d:%d" % (t, rng.choice([1, 2, 3, 4, 5, 6, 7, 8, 9, 10])))
        elif t == 0 and wl:
            n = rng.choice(wl)
            items.append("0:%d" % (5 + n + rng.randrange(0, 7)))
        elif t == 1:
            n = rng.choice(wl) if wl else 0
            items.append("1:%d" % (rng.choice([4, 5]) + n + rng.randrange(0, 10)))
        else:
            items.append("%d:%d" % (t, rng.randrange(1, 30)))
        t = 1 - t if rng.random() < 0.85 else t
    return "run " + " ".join(items)


def gen_case(rng, big_ok=True):
    nosem = rng.random() < 0.5
    shared = rng.random() < 0.15
    # S <= 4083 gives the one-page ring (1024 words) the boundary arithmetic below is written for; now and then a
    # two-page ring (2048 words), where the same calls are nowhere near a boundary
    lines = ["open %d %d %d" % (rng.choice([100, 4083, 2000, 1, 100, 4083, 2000, 1, 100, 4083, 5000]), int(nosem), int(shared))]
    seq = 1
    pos = 0
    used = 0        # words occupied by unread chunks (upper bound view of the generator)
    r = rng.random()
    if r < 0.55:
        # put the pointers near the end of the buffer so that headers / payloads / padding wrap
        p = rng.choice([W - 1, W - 2, W - 3, W - 4, W - 5, W - 8, W - 1, W - 2]) if big_ok else rng.choice([2, 3, 5])
        pro, pos = position_prologue(rng, p, seq)
        lines += pro
        seq += 1
    if rng.random() < 0.35 and big_ok:
        # nearly full ring: one big unread chunk, so that the free-space test is at its boundary
        slack = rng.choice([0, 1, 2, 3, 4, 5, 6, 8])       # words left beyond the big chunk and the gap
        n = 4 * (W - 1 - slack - 3 - 2)
        n -= rng.choice([0, 1, 2, 3])
        lines.append("pre w " + hexs(payload(rng, seq, max(n, 0))))
        seq += 1
        used += cw(max(n, 0))
    elif rng.random() < 0.4:
        for _ in range(rng.randrange(1, 4)):
            n = rng.choice(LENS_SMALL)
            lines.append("pre w " + hexs(payload(rng, seq, n)))
            seq += 1
            used += cw(n)
    wl = []
    for _ in range(rng.randrange(1, 5)):
        m = rng.random()
        if m < 0.75 or not big_ok:
            n = rng.choice(LENS_SMALL)
        elif m < 0.9:
            n = rng.choice([4 * (W - 1 - used) - 12 + d for d in (-5, -4, -1, 0, 1, 2, 4, 5, 8, 9)])   # around the admission boundary
            n = max(0, min(n, 4 * W))
        else:
            n = rng.choice([4084, 4085, 4083, 2000, 64, 100])
        wl.append(n)
        lines.append("w " + hexs(payload(rng, seq, n)))
        seq += 1
    rcalls = []
    for _ in range(rng.randrange(1, 6)):
        m = rng.random()
        blk = 1 if (not nosem and rng.random() < 0.08) else 0
        if m < 0.55:
            rcalls.append("r read %d %d" % (rng.choice([8192, 8192, 8192, 4, 0, 16]), blk))
        elif m < 0.8:
            rcalls.append("r peek %d" % blk)
            if rng.random() < 0.8:
                rcalls.append("r reclaim")
        else:
            rcalls.append("r reclaim")
    lines += rcalls
    lines.append(gen_schedule(rng, wl, rcalls, nosem))
    lines.append("drain")
    return lines


def corpus():
    """hand-made boundary cases (run first, every time)"""
    a1 = "a1" * 8
    fake = (le32(8) + le32(MAGIC)).hex()
    return [
        # reader between each pair of the writer's publishing stores, header straddling the end of the buffer
        ["open 100 1 0", "pre w " + "11" * 4084, "pre r read 8192", "w " + a1, "w 0102030405", "r read 64 0", "r read 64 0",
         "r read 64 0", "run 0:%d 1:4 0:1 1:4 0:1 1:4 0:1 1:20 0:3 1:c1" % (5 + 8 + 1), "drain"],
        ["open 100 0 0", "pre w " + "11" * 4080, "pre r read 8192", "w " + a1, "w 0102030405", "r read 64 0", "r read 64 0",
         "r peek 0", "r reclaim", "run 0:%d 1:5 0:1 1:5 0:1 1:5 0:1 1:5 0:1 1:30" % (5 + 8 + 1), "drain"],
        # writer between DEAD and the read_pt store of the reader, ring nearly full (the write must be refused
        # until read_pt has moved)
        ["open 100 1 0", "pre w " + fake * 509, "w " + fake * 2, "w " + fake * 2, "r read 8192 0", "r read 8192 0",
         "run 1:%d 0:2 1:1 0:2 1:1 0:30 1:c2" % (4 + 4072 + 6), "drain"],
        # stale payload that looks like published headers, empty ring after wrap-around (the repaired defect)
        ["open 100 1 0", "pre w " + fake * 375, "pre r read 8192", "pre w " + fake * 137, "pre r read 8192",
         "w " + fake, "r read 8192 0", "r peek 0", "r reclaim", "r read 8192 0", "r reclaim", "r peek 0",
         "run 1:c2 0:3 1:c1 0:4 1:3 0:c1 1:c3", "drain"],
        # semaphore: blocking reader woken by the post, zero-length chunk, undersized buffer (re-post)
        ["open 100 0 0", "w -", "w 01", "w 020304", "r read 0 1", "r read 0 0", "r read 8 1", "r peek 1", "r reclaim",
         "run 1:3 0:8 1:2 0:6 1:9 0:30 1:40", "drain"],
        # the largest chunk an empty one-page ring accepts is 4084 bytes; one byte more would take exactly W words and
        # bring write_pt round to read_pt: it must be refused (both notifier modes, pointers next to the end)
        ["open 100 1 0", "pre w " + "11" * 4076, "pre r read 8192", "w " + "5a" * 4085, "w " + "5b" * 4084, "w 0102",
         "r read 8192 0", "r read 8192 0", "run 0:c2 1:6 0:c1 1:c2", "drain"],
        ["open 4083 0 0", "w " + "6a" * 4088, "w " + "6b" * 4086, "w " + "6c" * 4084, "r read 8192 0", "r read 8192 0",
         "run 0:c1 1:4 0:4095 1:3 0:c3 1:c2", "drain"],
        # both threads through one handle
        ["open 4083 0 1", "w " + a1, "w " + "a1" * 5, "r peek 0", "r read 100 0", "r reclaim", "r read 100 0",
         "run 0:9 1:4 0:7 1:9 0:5 1:11 0:c2 1:c4", "drain"],
    ]


def enum_schedules(rng, max_w, max_r, npre):
    """all schedules with at most npre pre-emptions: thread a runs n1 steps, b n2, a n3, b to its end, a to its end"""
    out = []
    for a in (0, 1):
        b = 1 - a
        ma, mb = (max_w, max_r) if a == 0 else (max_r, max_w)
        if npre >= 1:
            for n1 in range(0, ma + 1):
                out.append("run %d:%d %d:c99 %d:c99" % (a, n1, b, a))
        if npre >= 2:
            for n1 in range(0, ma + 1):
                for n2 in range(1, mb + 1):
                    out.append("run %d:%d %d:%d %d:c99 %d:c99" % (a, n1, b, n2, a, b))
        if npre >= 3:
            for n1 in range(0, ma + 1):
                for n2 in range(1, mb + 1):
                    for n3 in range(1, ma - n1 + 1):
                        out.append("run %d:%d %d:%d %d:%d %d:c99 %d:c99" % (a, n1, b, n2, a, n3, b, a))
    return out


def enum_cases(rng, thorough):
    """small call mixes, every schedule with a bounded number of pre-emptions"""
    cases = []
    mixes = [
        # (nosem, prologue, writer payload lengths, reader calls, pre-emption bound)
        (1, [], [4], ["r read 64 0"], 3),
        (0, [], [1], ["r read 64 0"], 3),
        (1, ["pre w " + "a1" * 4084, "pre r read 8192"], [1, 0], ["r read 64 0", "r read 64 0"], 3),
        (1, ["pre w " + "a1" * 4080, "pre r read 8192"], [5, 0], ["r read 64 0", "r read 64 0"], 2),
        (0, ["pre w " + "a1" * 4080, "pre r read 8192"], [4], ["r peek 0", "r reclaim"], 2),
        # ring full up to the gap: A (4 words) at the head, B behind it; the write is refused until read_pt has moved
        (1, ["pre w " + (le32(8) + le32(MAGIC)).hex(), "pre w " + (le32(8) + le32(MAGIC)).hex() * 508], [8],
         ["r read 8192 0", "r reclaim"], 2),
        (0, ["pre w " + "a1" * 4076, "pre r read 8192", "pre w " + (le32(4) + le32(DEAD)).hex(),
             "pre w " + (le32(8) + le32(MAGIC)).hex() * 508], [5, 0], ["r peek 0", "r reclaim", "r reclaim"], 2),
    ]
    if not thorough:
        mixes = [(ns, pro, wl, rc, 1) for ns, pro, wl, rc, _ in mixes]
    for ns, pro, wl, rc, npre in mixes:
        head = ["open 100 %d 0" % ns] + pro + ["w " + hexs(payload(rng, i + 1, n)) for i, n in enumerate(wl)] + rc
        mw = sum(wsteps(n, ns) for n in wl) + 1
        mr = sum(16 + max(wl) for _ in rc) + 1
        for s in enum_schedules(rng, mw, mr, npre):
            cases.append(head + [s, "drain"])
    return cases


# ------------------------------------------------------------------ monitor (independent of the model)
def monitor(case, lines):
    """C01 over the implementation's call returns: the chunks handed to the reader are, in order, exactly the
    payloads whose write reported success; nothing twice, nothing skipped, nothing torn, nothing never written.
    qb_rb_chunk_reclaim returns nothing, so the number of chunks consumed so far is tracked as a SET of
    possibilities (a reclaim that follows a successful peek must consume)."""
    def pay(l):
        x = l.split()
        return bytes.fromhex(x[-1]) if x[-1] not in ("-", "w") else b""
    pre_script = [l.split()[1:] for l in case if l.startswith("pre ")]
    rprog = [l.split() for l in case if l.startswith("r ")]
    pays = [pay(l) for l in case if l.startswith("pre w") or l.startswith("w ") or l == "w"]
    # pass 1: the writer's returns (a read may legitimately return a chunk before the writer's call has returned:
    # the chunk is published by the marker store, the return comes later), with log positions for causality
    wret = []
    k = 0
    for pos, l in enumerate(lines):
        p = l.split()
        if p[0] == "pre":
            if k < len(pre_script) and pre_script[k][0] == "w":
                wret.append((pos, int(p[1])))
            k += 1
        elif p[0] == "ret" and p[1] == "0":
            wret.append((pos, int(p[3])))
    wrote, wstart = [], []      # payloads of successful writes in order; log position after which each call began
    for idx, (pos, rc) in enumerate(wret):
        if idx >= len(pays):
            return "more writer returns than writer calls"
        if rc == len(pays[idx]):
            wstart.append(wret[idx - 1][0] if idx > 0 else -1)
            wrote.append(pays[idx])
        elif rc != -EAGAIN:
            return "write of %d bytes returned %d (neither its length nor -EAGAIN)" % (len(pays[idx]), rc)
    # pass 2: the reader
    possible = {0}
    peeked = False
    ended = None
    drained = []
    k = 0
    for pos, l in enumerate(lines):
        p = l.split()
        if p[0] == "note":
            return l
        if l.startswith("c ro "):
            return ("%s during the run: the handles' cached fields, word_size, ref_count and the path names must not be "
                    "written after qb_rb_open (the one-state model of the two handles depends on it)" % l[5:])
        if p[0] == "open":
            if p[1] != "0":
                return "qb_rb_open failed: " + l
            continue
        if p[0] == "end":
            ended = int(p[1])
            if ended == 2:
                return "step limit exceeded"
            continue
        if p[0] == "pre":
            call = pre_script[k] if k < len(pre_script) else ["w"]
            k += 1
            if call[0] == "w":
                continue
            rc, data = int(p[1]), (bytes.fromhex(p[2]) if len(p) > 2 else b"")
        elif p[0] == "ret":
            if p[1] == "0":
                continue
            call = rprog[int(p[2])]
            rc, data = int(p[3]), (bytes.fromhex(p[4]) if len(p) > 4 else b"")
        elif p[0] == "drain":
            call = ["r", "read", "8192", "0"]
            rc, data = int(p[1]), (bytes.fromhex(p[2]) if len(p) > 2 else b"")
        else:
            continue
        kind = call[1]
        if kind == "read":
            if rc >= 0:
                if len(data) != rc:
                    return "read returned %d but delivered %d bytes" % (rc, len(data))
                if rc > int(call[2]):
                    return "read returned %d bytes into a buffer of %s" % (rc, call[2])
                if p[0] == "drain":
                    drained.append((rc, data))
                    continue
                nxt = {c + 1 for c in possible if c < len(wrote) and wrote[c] == data and wstart[c] < pos}
                if not nxt:
                    return ("read returned %d bytes %s... which is not the next unread chunk of a write that has begun "
                            "(chunks consumed so far: %s, successful writes: %d)" %
                            (rc, data[:12].hex(), sorted(possible), len(wrote)))
                possible = nxt
                peeked = False
            elif rc not in (-ETIMEDOUT, -EBADMSG, -ENOBUFS):
                return "read returned %d" % rc
            elif rc == -ENOBUFS and not any(c < len(wrote) and len(wrote[c]) > int(call[2]) for c in possible):
                return "read(%s) returned -ENOBUFS but the next chunk fits" % call[2]
            if p[0] == "drain":
                drained.append((rc, data))
        elif kind == "peek":
            if rc > 0:
                if len(data) != rc:
                    return "peek returned %d but %d bytes were readable" % (rc, len(data))
                keep = {c for c in possible if c < len(wrote) and wrote[c] == data and wstart[c] < pos}
                if not keep:
                    return ("peek returned %d bytes %s... which is not the next unread chunk (consumed so far: %s)" %
                            (rc, data[:12].hex(), sorted(possible)))
                possible = keep
                peeked = True
            elif rc < 0 and rc != -EBADMSG:
                return "peek returned %d" % rc
        else:
            if peeked:
                possible = {c + 1 for c in possible}
            else:
                possible = possible | {c + 1 for c in possible if c < len(wrote)}
            peeked = False
    if any(c > len(wrote) for c in possible):
        return "more chunks consumed than written"
    if ended == 0 and "drain" in case:
        rest = [d for rc, d in drained if rc >= 0]
        fin = [l.split() for l in lines if l.startswith("fin ")]
        blocking = any(c[-1] == "1" for c in rprog if c[1] in ("read", "peek"))
        if fin and int(fin[0][3]) >= 0 and not any(c[1] == "peek" for c in rprog + [["r"] + x[1:] for x in pre_script if x[0] == "r"]):
            # no peek in the reader's program: every token taken was either used to consume a chunk or given back
            if int(fin[0][3]) < len(rest):
                return ("semaphore count %s but %d published chunks are unread: a reader waiting on the semaphore would "
                        "never be woken for them" % (fin[0][3], len(rest)))
        if not drained or drained[-1][0] >= 0:
            return "draining the ring did not terminate"
        if not any(wrote[c:] == rest for c in possible):
            return ("after the run the ring holds %d chunks (lengths %s); expected the unread successful writes "
                    "(consumed, unread) in %s" % (len(rest), [len(x) for x in rest][:8],
                                                 sorted((c, len(wrote) - c) for c in possible)))
    return None


# ------------------------------------------------------------------ judge
def judge(case, impl, mod):
    lines, crash = impl
    deadlock = any(l == "end 1" for l in lines)
    if crash and not (crash[0] == 97 and deadlock):
        return ("impl-monitor", "implementation crashed / sanitizer report (rc=%s): %s" % (crash[0], _san(crash[1])),
                crash[1][-1500:])
    m = monitor(case, lines)
    d = C.first_diff(lines, mod[0])
    if m:
        return ("impl-monitor", m, {"first_model_difference": d})
    if mod[1]:
        return ("correspondence", "model runner failed", mod[1][1])
    if d:
        return ("correspondence", "event %d differs: impl %r model %r" % d, {"first_difference": d})
    return None


def _san(err):
    for l in err.split("\n"):
        if "runtime error" in l or "ERROR: AddressSanitizer" in l or "SUMMARY" in l:
            return l.strip()[:200]
    return err.strip().split("\n")[-1][:200] if err.strip() else ""


def shrink(case, kind, exe, model):
    """drop calls (not the open / run / drain lines) while the same kind of failure remains"""
    head = [case[0]]
    tail = [l for l in case if l.startswith("run") or l == "drain"]
    body = [l for l in case[1:] if l not in tail]

    def fails(sub):
        full = head + sub + tail
        im, mo = execute([full], exe, model, tag="s%d" % os.getpid())
        j = judge(full, im[0], mo[0])
        return j is not None and j[0] == kind
    small = C.shrink_list(body, fails, budget=30) if len(body) > 1 else body
    return head + small + tail
