"""C01: one writer + one reader on one ring buffer under the controlled scheduler (harness/h_rbconc.c +
sched_rt.c + sched_wrap_rb.c).  Build helpers, generators, monitor, judge."""
import glob
import os
from vlib import common as C
from vlib import sched as S

ID = "C01"
WRAPS = ["-Wl,--wrap=memcpy", "-Wl,--wrap=sem_post", "-Wl,--wrap=sem_trywait", "-Wl,--wrap=sem_wait",
         "-Wl,--wrap=sem_timedwait"]


def build():
    lib = C.build_lib()
    return S.build_mixed("h_rbconc", [("h_rbconc.c", S.TSAN_FLAGS), ("sched_rt.c", S.PLAIN_FLAGS),
                                      ("sched_wrap_rb.c", S.PLAIN_FLAGS)], lib=lib, ldflags=WRAPS)


# ------------------------------------------------------------------ running a batch on both sides
def cleanup_shm(tag):
    for p in glob.glob("/dev/shm/vrbc-%s-*" % tag):
        try:
            os.unlink(p)
        except OSError:
            pass


def execute(cases, exe, model, tag=None):
    """cases: list of lists of script lines.  Returns (impl results, model results) as run_cases gives them."""
    tag = tag or ("p%d" % os.getpid())
    texts = ["\n".join(c) + "\n" for c in cases]
    try:
        impl = C.run_cases(exe, texts, timeout=900, env={"RBCONC_TAG": tag})
    finally:
        cleanup_shm(tag)
    mcases = []
    for c, (lines, crash) in zip(cases, impl):
        follow = [l for l in lines if l.startswith("s ") or l.startswith("end ")]
        mcases.append("\n".join([l for l in c if not l.startswith("run")] + follow) + "\n")
    mod = C.run_cases(model, mcases, timeout=900)
    return impl, mod
