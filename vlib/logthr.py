"""C16 - threaded logging: generators, monitors and runners of props/C16.py.

Sequential part (seq_*): control histories (init / open / enable / set-threaded / thread-start / ctl / close / log /
fini / re-init in every order) on the real lib/log.c + lib/log_thread.c under ASan/UBSan (harness/h_logthr.c, one
forked child per case = a freshly started program) against the extracted model run_ctl (fixed code), plus an
independent monitor that states the property over the implementation's log.

Concurrent part (conc_*): see the second half of this file."""
from vlib import common as C

ID = "C16"
NSLOT = 28


def build_seq():
    lib = C.build_lib()
    return C.build_harness("h_logthr", ["h_logthr.c"], lib=lib)


# ------------------------------------------------------------------ sequential: generator
def seq_corpus():
    return [
        # the documented order
        ["I", "O", "E 0 1", "T 0 1", "S", "L 1", "L 2", "L 3", "F"],
        # witness 1 (design round): THREADED before qb_log_thread_start, then any other qb_log_ctl -> NULL lock
        ["I", "O", "E 0 1", "T 0 1", "C 0"],
        # witness 2: ... or a log call
        ["I", "O", "E 0 1", "T 0 1", "L 1", "S", "L 2", "F"],
        # witness 3: re-initialisation: the slot keeps its threaded flag and the lock pointer dangles
        ["I", "O", "E 0 1", "T 0 1", "S", "L 1", "F", "I", "O", "E 0 1", "L 2", "F"],
        # witness 4: re-initialisation with a second qb_log_thread_start (a no-op in the code as found)
        ["I", "O", "E 0 1", "T 0 1", "S", "L 1", "F", "I", "O", "T 0 0", "E 0 1", "T 0 1", "S", "L 2", "F"],
        # witness 5: init / start / fini / init / fini
        ["I", "S", "F", "I", "F"],
        # thread started first, threaded set later; mixed threaded and direct targets; disable, close, re-open
        ["S", "I", "O", "O", "E 0 1", "E 1 1", "L 1", "T 1 1", "L 2", "C 1", "E 1 0", "L 3", "E 1 1", "X 0", "L 4", "O",
         "E 0 1", "T 0 1", "L 5", "X 1", "L 6", "F", "L 7", "F"],
        # control calls on closed / never opened / out-of-range slots and before init
        ["E 0 1", "T 0 1", "C 0", "X 0", "F", "I", "E 0 1", "T 3 1", "C 27", "E 28 1", "T 40 1", "X 28", "O", "X 0", "X 0",
         "C 0", "F"],
        # every slot in use
        ["I"] + ["O"] * 29 + ["E 27 1", "T 27 1", "S", "L 1", "X 27", "O", "F"],
    ]


def seq_gen_case(rng):
    n = rng.choice([4, 6, 8, 12, 20, 40])
    ops = []
    if rng.random() < 0.8:
        ops.append("I")
    nslots = rng.choice([1, 2, 3])
    mid = [0]

    def slot():
        return rng.randrange(nslots) if rng.random() < 0.93 else rng.choice([nslots, 5, 27, 28, 31])
    for _ in range(n):
        r = rng.random()
        if r < 0.06:
            ops.append("I")
        elif r < 0.13:
            ops.append("F")
        elif r < 0.24:
            ops.append("O")
        elif r < 0.30:
            ops.append("X %d" % slot())
        elif r < 0.46:
            ops.append("E %d %d" % (slot(), 1 if rng.random() < 0.7 else 0))
        elif r < 0.58:
            ops.append("T %d %d" % (slot(), 1 if rng.random() < 0.7 else 0))
        elif r < 0.66:
            ops.append("C %d" % slot())
        elif r < 0.75:
            ops.append("S")
        else:
            mid[0] += 1
            ops.append("L %d" % mid[0])
    if rng.random() < 0.5:
        ops.append("F")
    return ops


# ------------------------------------------------------------------ sequential: monitor (independent of the model)
def seq_monitor(lines):
    """C16 over the implementation log of one control history: nothing crashes; every log call made while the
    logging system is initialised is written exactly once to every enabled target and to no other; nothing is
    written outside log calls."""
    state = {}          # slot -> "disabled" | "enabled"
    inited = False
    i, n = 0, len(lines)
    for l in lines:
        if l.startswith("crash"):
            return "a control operation crashed the process (%s): %s" % (
                l, "; ".join(x[4:] for x in lines if x.startswith("san "))[:600])
        if l.startswith("note"):
            return l
    while i < n:
        p = lines[i].split()
        if p[0] != "op":
            return "line %d: unexpected %r" % (i, lines[i])
        i += 1
        body = []
        while i < n and not lines[i].startswith("r ") and not lines[i].startswith("op "):
            body.append(lines[i].split())
            i += 1
        if i >= n or not lines[i].startswith("r "):
            return "op %s did not return" % " ".join(p[1:])
        rc = int(lines[i].split()[1])
        i += 1
        writes = [(int(b[1]), int(b[2])) for b in body if b[0] == "w"]
        op = p[1]
        if op == "L":
            m = int(p[2])
            want = sorted(k for k, s in state.items() if s == "enabled") if inited else []
            got = sorted(k for k, mm in writes)
            if any(mm != m for _, mm in writes):
                return "log %d: a target was handed a different message: %s" % (m, writes)
            if got != want:
                return "log %d: written to targets %s, enabled targets are %s" % (m, got, want)
        elif writes:
            return "op %s: logger callbacks outside a log call: %s" % (" ".join(p[1:]), writes)
        if op == "I":
            inited = True
            state = {}
        elif op == "F":
            inited = False
            state = {k: "disabled" for k in state}
        elif op == "O":
            if rc >= 0:
                if rc - 4 in state:
                    return "open returned slot %d which is in use" % (rc - 4)
                state[rc - 4] = "disabled"
            elif len(state) < NSLOT:
                return "open failed with %d although %d slots are free" % (rc, NSLOT - len(state))
        elif op == "X":
            if inited:
                state.pop(int(p[2]), None)
        elif op in ("E", "T", "C"):
            k = int(p[2])
            ok = inited and k in state
            if ok and rc != 0:
                return "ctl %s on an open target returned %d" % (" ".join(p[1:]), rc)
            if not ok and rc >= 0:
                return "ctl %s on a closed target / uninitialised system returned %d" % (" ".join(p[1:]), rc)
            if ok and op == "E":
                state[k] = "enabled" if p[3] != "0" else "disabled"
        elif op == "S":
            if rc != 0:
                return "qb_log_thread_start returned %d" % rc
    return None


# ------------------------------------------------------------------ sequential: run
def seq_execute(cases, exe, model):
    texts = ["\n".join(c) + "\n" for c in cases]
    impl = C.run_cases(exe, texts, timeout=900)
    mcases = ["model fixed\n" + "\n".join(l for l in lines if l.startswith("op ")) + "\n" for lines, crash in impl]
    mod = C.run_cases(model, mcases, timeout=900)
    return impl, mod


def seq_judge(case, impl, mod):
    lines, crash = impl
    if crash:
        return ("impl-monitor", "harness died (rc=%s)" % crash[0], crash[1][-1500:])
    m = seq_monitor(lines)
    ilines = [l for l in lines if not l.startswith("san ")]
    d = C.first_diff(ilines, mod[0])
    if m:
        return ("impl-monitor", m, {"first_model_difference": d})
    if mod[1]:
        return ("correspondence", "model runner failed", mod[1][1])
    if d:
        return ("correspondence", "control history: observable %d differs: impl %r model %r" % d, {"first_difference": d})
    return None


def run_seq(ctx, res, thorough):
    exe = build_seq()
    model = C.build_model(ID)
    rng = ctx.rng
    ncases = 6000 if thorough else 700
    cases = seq_corpus()
    for _ in range(ncases):
        cases.append(seq_gen_case(rng))
    impl, mod = seq_execute(cases, exe, model)
    opcount, thr_writes, dir_writes = {}, 0, 0
    for ci, case in enumerate(cases):
        lines = impl[ci][0]
        nops = 0
        tw = 0
        for l in lines:
            if l.startswith("op "):
                nops += 1
                opcount[l[3]] = opcount.get(l[3], 0) + 1
            elif l.startswith("w "):
                if l.endswith("T"):
                    tw += 1
                else:
                    dir_writes += 1
        thr_writes += tw
        # non-trivial: the worker thread wrote something, or at least 6 calls were executed
        res.add_case(("seq",) + tuple(case), tw >= 1 or nops >= 6)
        v = seq_judge(case, impl[ci], mod[ci])
        if v is None:
            res.traces_validated += 1
            continue
        kind = v[0]

        def fails(sub):
            im, mo = seq_execute([sub], exe, model)
            j = seq_judge(sub, im[0], mo[0])
            return j is not None and j[0] == kind
        small = C.shrink_list(case, fails, budget=40) if len(res.violations) < 3 else case
        im, mo = seq_execute([small], exe, model)
        j = seq_judge(small, im[0], mo[0]) or v
        res.violation(j[0], j[1], {"part": "sequential", "script": small, "shrunk_from_ops": len(case),
                                   "impl_out": im[0][0], "model_out": mo[0][0], "detail": j[2]})
        if len(res.violations) >= 6:
            break
    res.extra.update({"seq_cases": len(cases), "seq_api_calls_by_kind": opcount,
                      "seq_writes_by_worker_thread": thr_writes, "seq_writes_by_caller": dir_writes})
    rule = ("sequential: control histories over init/fini/open/close/enable/set-threaded/ctl/thread-start/log on 1-3 "
            "custom targets (plus out-of-range slots), hand-made corpus (every refutation witness) first; non-trivial = "
            "the worker thread delivered at least one message or at least 6 calls were executed; distinct = distinct scripts")
    return rule, [{"part": "sequential", "script": c} for c in cases[:1] + cases[len(seq_corpus()):len(seq_corpus()) + 2]]


def replay_seq(ctx, payload):
    exe = build_seq()
    model = C.build_model(ID)
    case = payload["script"]
    im, mo = seq_execute([case], exe, model)
    j = seq_judge(case, im[0], mo[0])
    print("impl :", im[0][0])
    print("model:", mo[0][0])
    if j:
        print("VIOLATION property=%s replay=%s" % (ID, "<replayed>"))
        print("DETAIL: %s: %s" % (j[0], j[1]))
        return 1
    print("replay: property holds on this script now")
    return 0
