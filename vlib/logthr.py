"""C16 - threaded logging: generators, monitors and runners of props/C16.py.

Sequential part (seq_*): control histories (init / open / enable / set-threaded / thread-start / ctl / close / log /
fini / re-init in every order) on the real lib/log.c + lib/log_thread.c under ASan/UBSan (harness/h_logthr.c, one
forked child per case = a freshly started program) against the extracted model run_ctl (fixed code), plus an
independent monitor that states the property over the implementation's log.

Concurrent part (conc_*): see the second half of this file."""
from vlib import common as C

ID = "C16"
NSLOT = 28


def build_seq():
    lib = C.build_lib()
    return C.build_harness("h_logthr", ["h_logthr.c"], lib=lib)


# ------------------------------------------------------------------ sequential: generator
def seq_corpus():
    return [
        # the documented order
        ["I", "O", "E 0 1", "T 0 1", "S", "L 1", "L 2", "L 3", "F"],
        # witness 1 (design round): THREADED before qb_log_thread_start, then any other qb_log_ctl -> NULL lock
        ["I", "O", "E 0 1", "T 0 1", "C 0"],
        # witness 2: ... or a log call
        ["I", "O", "E 0 1", "T 0 1", "L 1", "S", "L 2", "F"],
        # witness 3: re-initialisation: the slot keeps its threaded flag and the lock pointer dangles
        ["I", "O", "E 0 1", "T 0 1", "S", "L 1", "F", "I", "O", "E 0 1", "L 2", "F"],
        # witness 4: re-initialisation with a second qb_log_thread_start (a no-op in the code as found)
        ["I", "O", "E 0 1", "T 0 1", "S", "L 1", "F", "I", "O", "T 0 0", "E 0 1", "T 0 1", "S", "L 2", "F"],
        # witness 5: init / start / fini / init / fini
        ["I", "S", "F", "I", "F"],
        # thread started first, threaded set later; mixed threaded and direct targets; disable, close, re-open
        ["S", "I", "O", "O", "E 0 1", "E 1 1", "L 1", "T 1 1", "L 2", "C 1", "E 1 0", "L 3", "E 1 1", "X 0", "L 4", "O",
         "E 0 1", "T 0 1", "L 5", "X 1", "L 6", "F", "L 7", "F"],
        # control calls on closed / never opened / out-of-range slots and before init
        ["E 0 1", "T 0 1", "C 0", "X 0", "F", "I", "E 0 1", "T 3 1", "C 27", "E 28 1", "T 40 1", "X 28", "O", "X 0", "X 0",
         "C 0", "F"],
        # every slot in use
        ["I"] + ["O"] * 29 + ["E 27 1", "T 27 1", "S", "L 1", "X 27", "O", "F"],
    ]


def seq_gen_case(rng):
    n = rng.choice([4, 6, 8, 12, 20, 40])
    ops = []
    if rng.random() < 0.8:
        ops.append("I")
    nslots = rng.choice([1, 2, 3])
    mid = [0]

    def slot():
        return rng.randrange(nslots) if rng.random() < 0.93 else rng.choice([nslots, 5, 27, 28, 31])
    for _ in range(n):
        r = rng.random()
        if r < 0.06:
            ops.append("I")
        elif r < 0.13:
            ops.append("F")
        elif r < 0.24:
            ops.append("O")
        elif r < 0.30:
            ops.append("X %d" % slot())
        elif r < 0.46:
            ops.append("E %d %d" % (slot(), 1 if rng.random() < 0.7 else 0))
        elif r < 0.58:
            ops.append("T %d %d" % (slot(), 1 if rng.random() < 0.7 else 0))
        elif r < 0.66:
            ops.append("C %d" % slot())
        elif r < 0.75:
            ops.append("S")
        else:
            mid[0] += 1
            ops.append("L %d" % mid[0])
    if rng.random() < 0.5:
        ops.append("F")
    return ops


# ------------------------------------------------------------------ sequential: monitor (independent of the model)
def seq_monitor(lines):
    """C16 over the implementation log of one control history: nothing crashes; every log call made while the
    logging system is initialised is written exactly once to every enabled target and to no other; nothing is
    written outside log calls."""
    state = {}          # slot -> "disabled" | "enabled"
    inited = False
    i, n = 0, len(lines)
    for l in lines:
        if l.startswith("crash"):
            return "a control operation crashed the process (%s): %s" % (
                l, "; ".join(x[4:] for x in lines if x.startswith("san "))[:600])
        if l.startswith("note"):
            return l
    while i < n:
        p = lines[i].split()
        if p[0] != "op":
            return "line %d: unexpected %r" % (i, lines[i])
        i += 1
        body = []
        while i < n and not lines[i].startswith("r ") and not lines[i].startswith("op "):
            body.append(lines[i].split())
            i += 1
        if i >= n or not lines[i].startswith("r "):
            return "op %s did not return" % " ".join(p[1:])
        rc = int(lines[i].split()[1])
        i += 1
        writes = [(int(b[1]), int(b[2])) for b in body if b[0] == "w"]
        op = p[1]
        if op == "L":
            m = int(p[2])
            want = sorted(k for k, s in state.items() if s == "enabled") if inited else []
            got = sorted(k for k, mm in writes)
            if any(mm != m for _, mm in writes):
                return "log %d: a target was handed a different message: %s" % (m, writes)
            if got != want:
                return "log %d: written to targets %s, enabled targets are %s" % (m, got, want)
        elif writes:
            return "op %s: logger callbacks outside a log call: %s" % (" ".join(p[1:]), writes)
        if op == "I":
            inited = True
            state = {}
        elif op == "F":
            inited = False
            state = {k: "disabled" for k in state}
        elif op == "O":
            if rc >= 0:
                if rc - 4 in state:
                    return "open returned slot %d which is in use" % (rc - 4)
                state[rc - 4] = "disabled"
            elif len(state) < NSLOT:
                return "open failed with %d although %d slots are free" % (rc, NSLOT - len(state))
        elif op == "X":
            if inited:
                state.pop(int(p[2]), None)
        elif op in ("E", "T", "C"):
            k = int(p[2])
            ok = inited and k in state
            if ok and rc != 0:
                return "ctl %s on an open target returned %d" % (" ".join(p[1:]), rc)
            if not ok and rc >= 0:
                return "ctl %s on a closed target / uninitialised system returned %d" % (" ".join(p[1:]), rc)
            if ok and op == "E":
                state[k] = "enabled" if p[3] != "0" else "disabled"
        elif op == "S":
            if rc != 0:
                return "qb_log_thread_start returned %d" % rc
    return None


# ------------------------------------------------------------------ sequential: run
def seq_execute(cases, exe, model):
    texts = ["\n".join(c) + "\n" for c in cases]
    impl = C.run_cases(exe, texts, timeout=900)
    mcases = ["model fixed\n" + "\n".join(l for l in lines if l.startswith("op ")) + "\n" for lines, crash in impl]
    mod = C.run_cases(model, mcases, timeout=900)
    return impl, mod


def seq_judge(case, impl, mod):
    lines, crash = impl
    if crash:
        return ("impl-monitor", "harness died (rc=%s)" % crash[0], crash[1][-1500:])
    m = seq_monitor(lines)
    ilines = [l for l in lines if not l.startswith("san ")]
    d = C.first_diff(ilines, mod[0])
    if m:
        return ("impl-monitor", m, {"first_model_difference": d})
    if mod[1]:
        return ("correspondence", "model runner failed", mod[1][1])
    if d:
        return ("correspondence", "control history: observable %d differs: impl %r model %r" % d, {"first_difference": d})
    return None


def run_seq(ctx, res, thorough):
    exe = build_seq()
    model = C.build_model(ID)
    rng = ctx.rng
    ncases = 6000 if thorough else 700
    cases = seq_corpus()
    for _ in range(ncases):
        cases.append(seq_gen_case(rng))
    impl, mod = seq_execute(cases, exe, model)
    opcount, thr_writes, dir_writes = {}, 0, 0
    for ci, case in enumerate(cases):
        lines = impl[ci][0]
        nops = 0
        tw = 0
        for l in lines:
            if l.startswith("op "):
                nops += 1
                opcount[l[3]] = opcount.get(l[3], 0) + 1
            elif l.startswith("w "):
                if l.endswith("T"):
                    tw += 1
                else:
                    dir_writes += 1
        thr_writes += tw
        # non-trivial: the worker thread wrote something, or at least 6 calls were executed
        res.add_case(("seq",) + tuple(case), tw >= 1 or nops >= 6)
        v = seq_judge(case, impl[ci], mod[ci])
        if v is None:
            res.traces_validated += 1
            continue
        kind = v[0]

        def fails(sub):
            im, mo = seq_execute([sub], exe, model)
            j = seq_judge(sub, im[0], mo[0])
            return j is not None and j[0] == kind
        small = C.shrink_list(case, fails, budget=40) if len(res.violations) < 3 else case
        im, mo = seq_execute([small], exe, model)
        j = seq_judge(small, im[0], mo[0]) or v
        res.violation(j[0], j[1], {"part": "sequential", "script": small, "shrunk_from_ops": len(case),
                                   "impl_out": im[0][0], "model_out": mo[0][0], "detail": j[2]})
        if len(res.violations) >= 6:
            break
    res.extra.update({"seq_cases": len(cases), "seq_api_calls_by_kind": opcount,
                      "seq_writes_by_worker_thread": thr_writes, "seq_writes_by_caller": dir_writes})
    rule = ("sequential: control histories over init/fini/open/close/enable/set-threaded/ctl/thread-start/log on 1-3 "
            "custom targets (plus out-of-range slots), hand-made corpus (every refutation witness) first; non-trivial = "
            "the worker thread delivered at least one message or at least 6 calls were executed; distinct = distinct scripts")
    return rule, [{"part": "sequential", "script": c} for c in cases[:1] + cases[len(seq_corpus()):len(seq_corpus()) + 2]]


def replay_seq(ctx, payload):
    exe = build_seq()
    model = C.build_model(ID)
    case = payload["script"]
    im, mo = seq_execute([case], exe, model)
    j = seq_judge(case, im[0], mo[0])
    print("impl :", im[0][0])
    print("model:", mo[0][0])
    if j:
        print("VIOLATION property=%s replay=%s" % (ID, "<replayed>"))
        print("DETAIL: %s: %s" % (j[0], j[1]))
        return 1
    print("replay: property holds on this script now")
    return 0


# =====================================================================================================
# Concurrent part: producers + the real worker thread + a control thread under the controlled scheduler
# (harness/h_logthr.c -DLOGTHR_CONC with tsan instrumentation only, sched_rt.c, sched_wrap_lock.c,
# sched_wrap_logthr.c).  The effective schedule of the implementation run is replayed on the extracted
# interleaving model (coq/LogThrModel.v part B, fixed = true) and the traces are compared line by line
# at the level of synchronisation operations + target writes.
# =====================================================================================================
from vlib import sched as S

CONC_WRAPS = ["-Wl,--wrap=sem_init", "-Wl,--wrap=sem_destroy", "-Wl,--wrap=sem_post", "-Wl,--wrap=sem_wait",
              "-Wl,--wrap=sem_getvalue", "-Wl,--wrap=pthread_create", "-Wl,--wrap=pthread_join",
              "-Wl,--wrap=pthread_exit"]


def build_conc():
    lib = C.build_lib()
    return S.build_mixed("h_logthr_conc", [("h_logthr.c", S.TSAN_FLAGS + ["-DLOGTHR_CONC"]),
                                           ("sched_rt.c", S.PLAIN_FLAGS), ("sched_wrap_lock.c", S.PLAIN_FLAGS),
                                           ("sched_wrap_logthr.c", S.PLAIN_FLAGS)], lib=lib,
                         ldflags=S.LOCK_WRAPS + CONC_WRAPS)

LIMIT = 512000          # only for sizing the generated backlog cases; the model uses the regenerated constant
REC = 48


# ------------------------------------------------------------------ concurrent: generator
def conc_corpus():
    return [
        # witness of the lost record (fixes/C16-3): the worker takes the last record's post after stop set the flag
        # and before stop's own post
        ["p 0 20", "m stop", "run 2 2 2 2 0 0 0 0 1 1 1 1 1 0 0"],
        # same with two records queued
        ["p 0 20", "p 0 30", "m stop", "run 2 2 2 2 2 2 2 2 0 0 0 0 1 1 1 1 1 1 1 1 1 0 0"],
        # witness of close-during-write (fixes/C16-4): close while the worker is inside the logger callback
        ["p 0 20", "p 0 21", "m x", "m stop", "run 2 2 2 2 1 1 0 1 1 2 2 2 2 0 0"],
        # control operations while the worker is busy
        ["p 0 20", "p 0 30", "p 0 40", "m c 0", "m c 1", "m c 1", "m x", "m c 1", "m stop",
         "run 2 2 2 2 1 1 0 0 1 0 2 2 0 0 0 2 2 1 1 1 0 0 0 2 2 2 2 0 0 1 1"],
        # witness of the process-wide in_logger guard (fixes/C16-5): producer 1 logs while producer 0 is inside its call
        ["p 0 20", "p 1 30", "m stop", "run 2 3 2 2 2 1 1 1 1 0 0 0 0 0 0 1 1 1 1 1 0"],
        # two producers interleaved
        ["p 0 20", "p 1 30", "p 0 22", "p 1 33", "m stop", "run 2 3 2 3 2 3 2 3 1 1 1 2 3 2 3 2 3 1 1 0 0 0"],
        # backlog limit: 130 records of 4000 bytes while the worker does not run, then drain
        ["p 0 4000"] * 130 + ["p 0 100", "m stop", "run " + " ".join(["2"] * 600) + " 1 1 1 1 1 1 2 2 2 2"],
    ]


def conc_gen_sched(rng, nthr, length, bias):
    out = []
    p = rng.choice([0.1, 0.25, 0.5, 0.8])
    cur = rng.randrange(nthr)
    while len(out) < length:
        out.append(cur)
        if rng.random() < p:
            r = rng.random()
            cur = bias if r < 0.25 else rng.randrange(nthr)
    return out


def conc_gen_case(rng, kind):
    ops = []
    if kind == "backlog":
        # around the limit: n records of size sz so that n * (REC + sz + 1) straddles LIMIT, worker held back
        sz = rng.choice([4000, 3000, 2047, 1000])
        per = REC + sz + 1
        n = LIMIT // per + rng.choice([-2, -1, 0, 1, 2, 5])
        ops += ["p 0 %d" % sz] * max(1, n)
        last = LIMIT - (LIMIT // per) * per - REC - 1 + rng.choice([-1, 0, 1])
        if 12 <= last <= 4000:
            ops.append("p 0 %d" % last)
        ops += ["p 0 %d" % rng.choice([12, 100, 4000])] * rng.randrange(0, 4)
        ops.append("m stop")
        nmsg = len(ops) - 1
        hold = rng.choice([nmsg * 4 - 8, nmsg * 4, nmsg * 2])
        sched = [2] * hold + conc_gen_sched(rng, 3, 60, 1)
        ops.append("run " + " ".join(str(x) for x in sched))
        return ops
    nprod = 1 if kind == "single" else rng.choice([2, 2, 3])
    nmsgs = 0
    for i in range(nprod):
        for _ in range(rng.randrange(1, 6)):
            ops.append("p %d %d" % (i, rng.choice([12, 20, 100, 511, 512, 513, 4000])))
            nmsgs += 1
    nctl = 0
    if kind != "quiet" and rng.random() < 0.7:
        for _ in range(rng.randrange(1, 5)):
            r = rng.random()
            ops.append("m c 0" if r < 0.35 else "m c 1" if r < 0.75 else "m x")
            nctl += 1
    ops.append("m stop")
    nthr = 2 + nprod
    length = 6 * nmsgs + 4 * nctl + 12
    ops.append("run " + " ".join(str(x) for x in conc_gen_sched(rng, nthr, length, rng.choice([0, 1, 1]))))
    return ops


# ------------------------------------------------------------------ concurrent: monitor (independent of the model)
def conc_monitor(case, lines, crash):
    """C16 over the implementation log of one schedule-controlled run.  Returns (message or None, guard_losses):
    nothing crashes, the run terminates, the close callback never runs during a logger callback, no message is
    written twice, each producer's messages are written in the order it logged them, and when qb_log_fini has
    returned every message logged while the target was enabled has been written, or was counted in a
    "messages lost" report, or was taken off the queue while the target was disabled."""
    mops = [l.split()[1:] for l in case if l.startswith("m ")]
    nprod = 1 + max([int(l.split()[1]) for l in case if l.startswith("p ")] + [-1])
    if crash:
        return "implementation crashed / sanitizer report (rc=%s): %s" % (crash[0], crash[1][-600:]), 0
    if "begin" not in lines:
        return "the logging thread did not start: %s" % lines[-3:], 0
    body = lines[lines.index("begin") + 1:]
    for l in body:
        if l.startswith("note"):
            return l, 0
    written = []                 # (i, k) in order
    lost_reported = 0
    ended = None
    final = None
    stopped = False
    # the monitor's own view of the target: enabled / closed, changed at the lock step of a control call
    enabled, closed = True, False
    mop_i = -1
    cur_op = None
    in_call = {}                 # producer -> True while it is inside a log call that went on to post
    logged = {}                  # (i, k) -> "enabled" | "disabled" | "guard?"
    seq = {}
    steps_of = {}
    for idx, l in enumerate(body):
        if l.startswith("s "):
            p = l.split(" ", 2)
            steps_of.setdefault(int(p[1]), []).append((idx, p[2]))
    nxt = {}
    for t, st in steps_of.items():
        for j, (idx, lab) in enumerate(st):
            nxt[idx] = st[j + 1][1] if j + 1 < len(st) else None
    guard_losses = 0
    unexplained = []
    for idx, l in enumerate(body):
        p = l.split()
        if p[0] == "s":
            t = int(p[1])
            lab = " ".join(p[2:])
            if t == 0:
                if lab == "ctl":
                    mop_i += 1
                    cur_op = mops[mop_i] if mop_i < len(mops) else None
                elif lab.startswith("lock") and cur_op:
                    if cur_op[0] == "c" and not closed:
                        enabled = cur_op[1] != "0"
                    elif cur_op[0] == "x":
                        enabled, closed = False, True
                    cur_op = None if cur_op[0] != "stop" else cur_op
            elif t >= 2:
                i = t - 2
                if lab == "log":
                    k = seq.get(i, 0)
                    seq[i] = k + 1
                    goes_on = nxt[idx] is not None and nxt[idx].startswith("lock")
                    if goes_on:
                        in_call[i] = True
                        logged[(i, k)] = "queued"
                    elif not enabled:
                        logged[(i, k)] = "disabled"
                    else:
                        # logged while the target was enabled but never handed to the logging thread
                        others = [j for j, v in in_call.items() if v and j != i]
                        if others:
                            guard_losses += 1             # the (repaired) process-wide in_logger guard, fixes/C16-5
                        unexplained.append((i, k, others))
                elif lab.startswith("post") or (lab.startswith("unlock") and (nxt[idx] is None or not nxt[idx].startswith("post"))):
                    in_call[i] = False
        elif p[0] == "w":
            written.append((int(p[1]), int(p[2])))
        elif len(p) == 3 and p[1] == "messages" and p[2] == "lost":
            lost_reported += int(p[0])
        elif p[0] == "close" and cur_op and cur_op[0] == "x" and not closed:
            enabled, closed = False, True         # code as found: close without the pause
        elif p[0] == "stopped":
            stopped = True
        elif p[0] == "end":
            ended = int(p[1])
        elif p[0] == "final":
            final = [int(x) for x in p[1:]]
    if ended is None:
        return "run did not complete", guard_losses
    if ended == 1 and any(o[0] == "stop" for o in mops):
        return "deadlock: " + "; ".join(x for x in body if x.startswith("blocked")), guard_losses
    if ended == 2:
        return "step limit exceeded (livelock)", guard_losses
    if len(set(written)) != len(written):
        dup = [w for w in written if written.count(w) > 1][0]
        return "message %d.%d was written twice" % dup, guard_losses
    for i in range(nprod):
        ks = [k for j, k in written if j == i]
        if ks != sorted(ks):
            return "producer %d's messages were written out of order: %s" % (i, ks), guard_losses
    for w in written:
        if logged.get(w) != "queued":
            return "message %d.%d was written but never queued" % w, guard_losses
    if unexplained:
        i, k, others = unexplained[0]
        return ("message %d.%d was logged while the target was enabled but never reached the logging thread%s" %
                (i, k, " (turned away while producer %s was inside a log call: in_logger guard)" % others if others else "")), guard_losses
    if stopped:
        if final is None:
            return "no final state reported", guard_losses
        queued = [w for w, v in logged.items() if v == "queued"]
        missing = [w for w in queued if w not in set(written)]
        dropped_total = lost_reported + final[1]
        ctl_ops = [o for o in mops if o[0] in ("c", "x")]
        disabling = [o for o in ctl_ops if o[0] == "x" or o[1] == "0"]
        if final[2] != 0:
            return "qb_log_fini returned with %d record(s) still queued (never written): %s" % (final[2], sorted(missing)[:4]), guard_losses
        if not disabling and len(missing) != dropped_total:
            return ("%d queued message(s) were not written (%s) but %d were reported lost" %
                    (len(missing), sorted(missing)[:4], dropped_total)), guard_losses
        if len(missing) < dropped_total:
            return "%d messages reported lost but only %d are missing" % (dropped_total, len(missing)), guard_losses
        if final[0] != 0:
            return "logt_memory_used is %d after everything was written" % final[0], guard_losses
    return None, guard_losses


# ------------------------------------------------------------------ concurrent: run
def conc_filter(lines):
    """the part of the implementation trace that is compared with the model"""
    if "begin" not in lines:
        return lines
    out = []
    teardown = False
    for l in lines[lines.index("begin"):]:
        if l.startswith("note ") or l.startswith("blocked"):
            continue
        if teardown and l.startswith("s 0 "):
            continue                      # qb_log_fini after the join: destroying locks, log_dcs / array teardown
        if l == "s 0 join T1":
            teardown = True
        out.append(l)
    return out


def conc_execute(cases, exe, model):
    texts = ["\n".join(c) + "\n" for c in cases]
    impl = C.run_cases(exe, texts, timeout=900)
    mcases = []
    for case, (lines, crash) in zip(cases, impl):
        cfg = "\n".join("conc " + l for l in case if not l.startswith("run"))
        mcases.append("model fixed\n" + cfg + "\n" + "\n".join(conc_filter(lines)) + "\n")
    mod = C.run_cases(model, mcases, timeout=900)
    return impl, mod


STARTUP = ["s 0 start", "s 0 create", "s 1 start", "s 1 post S0", "s 0 wait S0"]


def conc_judge(case, impl, mod):
    lines, crash = impl
    sub_crash = [l for l in lines if l.startswith("crash")]
    if sub_crash and not crash:
        crash = (sub_crash[0], "; ".join(x[4:] for x in lines if x.startswith("san ")))
    m, gl = conc_monitor(case, lines, crash)
    if m:
        return ("impl-monitor", m, {"impl_tail": lines[-12:]}), gl
    if "begin" in lines:
        pre = [l for l in lines[:lines.index("begin")] if l.startswith("s ") and not l.endswith(" start")]
        want = [l for l in STARTUP if not l.endswith(" start")]
        if pre != want:
            return ("correspondence", "start-up steps of qb_log_thread_start differ: %r" % pre, {}), gl
    if mod[1]:
        return ("correspondence", "model runner failed", mod[1][1]), gl
    d = C.first_diff(conc_filter(lines), mod[0])
    if d:
        return ("correspondence", "concurrent trace: event %d differs: impl %r model %r" % d, {"first_difference": d}), gl
    return None, gl


def run_conc(ctx, res, thorough):
    exe = build_conc()
    model = C.build_model(ID)
    rng = ctx.rng
    n = 2500 if thorough else 400
    cases = conc_corpus()
    kinds = {"corpus": len(cases)}
    for i in range(n):
        kind = ["single", "quiet", "multi", "multi", "single"][i % 5]
        if i % 100 == 7:
            kind = "backlog"
        kinds[kind] = kinds.get(kind, 0) + 1
        cases.append(conc_gen_case(rng, kind))
    impl, mod = conc_execute(cases, exe, model)
    steps, labels, guard_total, drops = 0, {}, 0, 0
    for ci, case in enumerate(cases):
        lines = impl[ci][0]
        seq = []
        for l in lines:
            if l.startswith("s "):
                p = l.split(" ", 2)
                seq.append(p[1])
                lab = p[2].split(" = ")[0]
                labels[lab] = labels.get(lab, 0) + 1
            elif l.endswith("messages lost"):
                drops += int(l.split()[0])
        steps += len(seq)
        switches = sum(1 for a, b in zip(seq, seq[1:]) if a != b)
        res.add_case(("conc",) + tuple(case), switches >= 4)
        v, gl = conc_judge(case, impl[ci], mod[ci])
        guard_total += gl
        if v is None:
            res.traces_validated += 1
            continue
        kind = v[0]

        def fails(sub):
            full = sub + [case[-1]]
            im, mo = conc_execute([full], exe, model)
            j, _ = conc_judge(full, im[0], mo[0])
            return j is not None and j[0] == kind
        body = case[:-1]
        small = C.shrink_list(body, fails, budget=30) if len(res.violations) < 2 and 1 < len(body) < 60 else body
        full = small + [case[-1]]
        im, mo = conc_execute([full], exe, model)
        j, _ = conc_judge(full, im[0], mo[0])
        j = j or v
        res.violation(j[0], j[1], {"part": "concurrent", "script": full, "impl_out": conc_filter(im[0][0])[-400:],
                                   "model_out": mo[0][0][-400:], "detail": j[2]})
        if len(res.violations) >= 6:
            break
    res.extra.update({"conc_cases": len(cases), "conc_case_kinds": kinds, "conc_scheduled_steps": steps,
                      "conc_steps_by_label": labels, "conc_messages_reported_lost": drops,
                      "conc_in_logger_guard_losses": guard_total})
    rule = ("concurrent: 1-3 producers (1-5 messages each, or ~130-500 records around the 512000-byte backlog limit), "
            "the real worker thread and a control thread (enable/disable/close, then join + qb_log_fini) under a "
            "controlled schedule (random runs of geometric length, biased towards the control thread or the worker); "
            "non-trivial = at least 4 context switches; distinct = distinct (programs, schedule)")
    return rule, [{"part": "concurrent", "script": c} for c in cases[len(conc_corpus()):len(conc_corpus()) + 2]], guard_total


def replay_conc(ctx, payload):
    exe = build_conc()
    model = C.build_model(ID)
    case = payload["script"]
    im, mo = conc_execute([case], exe, model)
    j, _ = conc_judge(case, im[0], mo[0])
    print("impl :", conc_filter(im[0][0])[-60:])
    print("model:", mo[0][0][-60:])
    if j:
        print("VIOLATION property=%s replay=%s" % (ID, "<replayed>"))
        print("DETAIL: %s: %s" % (j[0], j[1]))
        return 1
    print("replay: property holds on this script now")
    return 0
