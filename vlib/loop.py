"""Shared machinery of the event-loop properties C08 and C10 (loopq): harness build, script generators,
execution of implementation + extracted model, log diff, and the independent monitors that state the
properties over the implementation's log.  Script / log syntax: header of harness/h_loop.c."""
import re
from vlib import common as C

WRAPS = ["random", "clock_gettime", "clock_getres", "epoll_wait", "epoll_ctl", "usleep"]
LDFLAGS = ["-Wl,--wrap=" + w for w in WRAPS]
TO_PROCESS_FALLBACK = 4
SIGS = [10, 12, 1]          # SIGUSR1, SIGUSR2, SIGHUP
EPOLLIN, EPOLLPRI, EPOLLOUT, EPOLLERR, EPOLLHUP = 1, 2, 4, 8, 16


def build(pid):
    lib = C.build_lib()
    exe = C.build_harness("h_loop", ["h_loop.c"], lib=lib, ldflags=LDFLAGS)
    model = C.build_model(pid)
    return exe, model


def prebuild():
    lib = C.build_lib()
    C.build_harness("h_loop", ["h_loop.c"], lib=lib, ldflags=LDFLAGS)


def consts():
    """LOOP_* constants as regenerated from the tree (coq/gen/Consts_loop.v)."""
    out = {}
    try:
        for m in re.finditer(r"Definition (\w+) : Z := \((-?\d+)\)%Z\.", open(C.COQ + "/gen/Consts_loop.v").read()):
            out[m.group(1)] = int(m.group(2))
    except OSError:
        pass
    return out


def execute(cases, exe, model, timeout=900):
    """cases: list of lists of script lines.  Returns (impl results, model results) as from run_cases."""
    texts = ["\n".join(c) + "\n" for c in cases]
    impl = C.run_cases(exe, texts, timeout=timeout)
    mod = C.run_cases(model, texts, timeout=timeout)
    return impl, mod


# ---------------------------------------------------------------------------------------------- generators
class Gen:
    """Builds one script.  Every registration gets its own key unless `dupkeys`; timer durations carry a
    residue below 1000 ns that is unique per timer-add of the script while the clock only moves in
    multiples of 1000 ns, so two timers never have the same expiry (the heap's tie order is C09's)."""

    def __init__(self, rng, dels=True, sigs=True, mods=True, dupkeys=False, stale=True, dupfd=True):
        self.rng = rng
        self.dels, self.use_sigs, self.mods, self.dupkeys, self.stale = dels, sigs, mods, dupkeys, stale
        self.dupfd = dupfd
        self.nextkey = 1
        self.residue = 0
        self.lines = []
        self.behs = {}            # (key, n) -> (ops, ret)
        self.jobs = []            # (p, key)
        self.tregs = []           # timer registers used
        self.fds = []             # fds ever added
        self.sigregs = {}         # reg -> dict(deleter=None|..., signo)
        self.nexttreg = 0
        self.nextsreg = 100
        self.nextfd = 100
        self.keykind = {}

    def key(self, kind):
        if kind != "s" and self.dupkeys and self.keykind and self.rng.random() < 0.15:   # signal keys are never shared (handle safety)
            ks = [k for k, v in self.keykind.items() if v == kind]
            if ks:
                return self.rng.choice(ks)
        k = self.nextkey
        self.nextkey += 1
        self.keykind[k] = kind
        return k

    def prio(self, w=None):
        return self.rng.choice(w or [0, 1, 2])

    def dur(self, base_choices=(0, 0, 1000, 1000000, 3000000, 20000000, 100000000)):
        self.residue = self.residue % 998 + 1
        return self.rng.choice(base_choices) + self.residue

    # ---- single ops (text) ----
    def op_job_add(self, p=None):
        p = self.prio() if p is None else p
        k = self.key("j")
        self.jobs.append((p, k))
        return "ja %d %d" % (p, k), k

    def op_timer_add(self, p=None, base=None):
        p = self.prio() if p is None else p
        k = self.key("t")
        reg = self.nexttreg
        self.nexttreg += 1
        self.tregs.append(reg)
        d = self.dur(base) if base else self.dur()
        return "ta %d %d %d %d" % (p, d, k, reg), k

    def op_poll_add(self, p=None, fd=None):
        p = self.prio() if p is None else p
        k = self.key("f")
        if fd is None:
            fd = self.nextfd
            self.nextfd += 1
        if fd not in self.fds:
            self.fds.append(fd)
        ev = self.rng.choice([1, 1, 1, 4, 5, 3])
        return "pa %d %d %d %d" % (p, fd, ev, k), k

    def op_sig_add(self, p=None):
        p = self.prio() if p is None else p
        k = self.key("s")
        reg = self.nextsreg
        self.nextsreg += 1
        signo = self.rng.choice(SIGS)
        self.sigregs[reg] = {"deleter": None, "signo": signo, "key": k}
        return "sa %d %d %d %d" % (p, signo, k, reg), k

    def random_op(self, inside):
        """One op for use at top level or inside a callback."""
        r = self.rng.random()
        if r < 0.25:
            return self.op_job_add()[0]
        if r < 0.40:
            return self.op_timer_add()[0]
        if r < 0.50:
            if self.dupfd and self.fds and self.rng.random() < 0.25:
                return self.op_poll_add(fd=self.rng.choice(self.fds))[0]      # duplicate / re-add of a known fd
            return self.op_poll_add()[0]
        if r < 0.56 and self.use_sigs and not inside:
            return self.op_sig_add()[0]
        if r < 0.60:
            return "raise %d" % self.rng.choice(SIGS) if self.use_sigs else self.op_job_add()[0]
        if r < 0.63 and self.tregs:
            return "tr %d" % self.rng.choice(self.tregs)
        if r < 0.66 and self.fds:
            return "close %d" % self.rng.choice(self.fds)
        if not self.dels:
            return self.op_job_add()[0]
        if r < 0.76 and self.jobs:
            p, k = self.rng.choice(self.jobs)
            if self.rng.random() < 0.1:
                p = self.prio()
            return "jd %d %d" % (p, k)
        if r < 0.86 and self.tregs:
            return "td %d" % self.rng.choice(self.tregs + ([self.nexttreg + 3] if self.stale else []))
        if r < 0.93 and self.fds:
            return "pd %d" % self.rng.choice(self.fds)
        if r < 0.97 and self.fds and self.mods:
            return "pm %d %d %d %d" % (self.prio(), self.rng.choice(self.fds), self.rng.choice([1, 4, 5, 3]),
                                       self.key("f"))
        if self.use_sigs:
            free = [g for g, d in self.sigregs.items() if d["deleter"] is None]
            if free:
                g = self.rng.choice(free)
                self.sigregs[g]["deleter"] = "op"
                return "sd %d" % g
        return self.op_job_add()[0]

    def add_beh(self, key, n, ops, ret=0):
        self.behs[(key, n)] = (ops, ret)

    def random_behs(self, density=0.5, maxn=3, maxops=3, stop_p=0.01):
        """Give callbacks of the keys issued so far something to do."""
        for k in list(self.keykind):
            kind = self.keykind[k]
            for n in range(maxn):
                if self.rng.random() > density or (k, n) in self.behs:
                    continue
                ops = [self.random_op(True) for _ in range(self.rng.randint(0, maxops))]
                if self.rng.random() < stop_p:
                    ops.append("stop")
                ret = 0
                if kind == "f" and self.dels and self.rng.random() < 0.15:
                    ret = -1
                if kind == "f" and self.rng.random() < 0.1:
                    ret = 1
                if kind == "s" and self.dels and self.rng.random() < 0.15:
                    regs = [g for g, d in self.sigregs.items() if d["key"] == k]
                    if len(regs) == 1 and self.sigregs[regs[0]]["deleter"] is None:
                        self.sigregs[regs[0]]["deleter"] = "ret"
                        ret = 1
                self.add_beh(k, n, ops, ret)

    def env(self, advs=(0, 1000, 1000000, 1000000, 5000000, 50000000), stop=False, nready=None, sig_p=0.15):
        adv = self.rng.choice(advs)
        parts = ["%d %d" % (adv, 1 if stop else 0)]
        if self.use_sigs and self.rng.random() < sig_p:
            parts.append("s " + " ".join(str(self.rng.choice(SIGS)) for _ in range(self.rng.randint(1, 2))))
        ready = []
        pool = self.fds + [-2] + ([self.nextfd + 7] if self.rng.random() < 0.1 else [])
        if nready is None:
            nready = self.rng.choice([0, 1, 2, 3, min(len(pool), 40)])
        for fd in self.rng.sample(pool, min(nready, len(pool))):
            bits = EPOLLIN if fd == -2 else self.rng.choice([1, 1, 4, 5, 8, 16, 3, 2])
            ready.append("%d:%d" % (fd, bits))
        if ready:
            parts.append("r " + " ".join(ready))
        return " ".join(parts)

    def script(self, rand=None):
        out = []
        if rand:
            out.append("rand " + " ".join(str(x) for x in rand))
        for (k, n), (ops, ret) in sorted(self.behs.items()):
            out.append("beh %d %d %d : %s" % (k, n, ret, " ; ".join(ops)))
        return out + self.lines


def gen_general(rng, size=3, collide=False, sigs=True, dupfd=True):
    """C08-style history: everything, from outside and from inside callbacks."""
    g = Gen(rng, dupkeys=rng.random() < 0.3, sigs=sigs, dupfd=dupfd)
    nseg = rng.randint(1, size)
    for _ in range(nseg):
        for _ in range(rng.randint(0, 6)):
            g.lines.append("op " + g.random_op(False))
        g.random_behs(density=rng.choice([0.2, 0.5, 0.8]), stop_p=rng.choice([0.0, 0.02]))
        nturn = rng.choice([1, 2, 3, 4, 6, 9, 15])
        envs = [g.env() for _ in range(nturn)]
        g.lines.append("run " + " | ".join(envs))
    for _ in range(rng.randint(0, 4)):
        g.lines.append("op " + g.random_op(False))
    rand = None
    if collide:
        rand = [rng.choice([5, 6, 0, 7]) for _ in range(rng.randint(3, 30))]
    elif rng.random() < 0.3:
        rand = [rng.randrange(1, 2 ** 31) for _ in range(rng.randint(1, 20))]
    return g.script(rand)


def gen_workload(rng, turns=None):
    """C10-style workload: self-re-adding jobs, always-ready descriptors and zero-delay timers re-armed from
    their callbacks at the three priorities in random proportions; no deletions; a long run."""
    g = Gen(rng, dels=False, sigs=False, mods=False)
    turns = turns or rng.choice([6, 9, 12, 20, 40])
    depth = turns * 4 + 8
    # proportions: how many chains of each kind at each level
    for p in (2, 1, 0):
        heavy = rng.random() < (0.7 if p > 0 else 0.3)
        for _ in range(rng.choice([0, 1, 2, 5, 9]) if heavy else rng.choice([0, 1])):
            k = g.key("j")
            g.jobs.append((p, k))
            g.lines.append("op ja %d %d" % (p, k))
            for n in range(depth):
                g.add_beh(k, n, ["ja %d %d" % (p, k)])           # re-adds itself every time
        for _ in range(rng.choice([0, 1, 3, 6]) if heavy else rng.choice([0, 1])):
            txt, k = g.op_poll_add(p=p)
            g.lines.append("op " + txt)
        for _ in range(rng.choice([0, 1, 3]) if heavy else rng.choice([0, 1])):
            txt, k = g.op_timer_add(p=p, base=(0,))
            g.lines.append("op " + txt)
            for n in range(depth):
                reg = g.nexttreg
                g.nexttreg += 1
                g.residue = g.residue % 998 + 1
                g.add_beh(k, n, ["ta %d %d %d %d" % (p, g.residue, k, reg)])   # zero-delay timer re-armed
    # one lone item at a random (often LOW) level that must not starve
    p = rng.choice([0, 0, 1, 2])
    txt, lone = g.op_job_add(p=p)
    g.lines.append("op " + txt)
    envs = []
    for _ in range(turns):
        ready = " ".join("%d:%d" % (fd, 5) for fd in g.fds)
        envs.append("%d 0%s" % (rng.choice([1000, 1000, 2000, 1000000]), (" r " + ready) if ready else ""))
    g.lines.append("run " + " | ".join(envs))
    return g.script()


# ---------------------------------------------------------------------------------------------- log parsing
def parse_log(lines):
    """-> list of events: ('o', [words]) ('r', tag, res) ('cb', kind, key, a, b) ('w', timeout, n) ('usleep',)
    ('runret',) ('uaf', n) ('note', text)"""
    evs = []
    for l in lines:
        w = l.split()
        if not w:
            continue
        if w[0] == "o":
            evs.append(("o", w[1:]))
        elif w[0] == "r":
            evs.append(("r", int(w[1]), int(w[3])))
        elif w[0] == "cb":
            evs.append(("cb", int(w[1]), int(w[2]), int(w[3]), int(w[4])))
        elif w[0] == "w":
            evs.append(("w", int(w[1]), int(w[2])))
        elif w[0] in ("usleep", "runret"):
            evs.append((w[0],))
        elif w[0] == "uaf":
            evs.append(("uaf", int(w[1])))
        elif w[0] == "ti":
            continue
        else:
            evs.append(("note", l))
    return evs


def turns_of(evs):
    """Split the events into runs and turns: list of runs, each a list of turns, each
    dict(timeout, nev, start (index of the w event), end (index after the last event of the turn))."""
    runs = []
    cur = None
    for i, e in enumerate(evs):
        if e[0] == "w":
            if cur is None:
                cur = []
            elif cur:
                cur[-1]["end"] = i
            cur.append({"timeout": e[1], "nev": e[2], "start": i, "end": None})
        elif e[0] == "runret":
            if cur:
                cur[-1]["end"] = i
            runs.append(cur or [])
            cur = None
    if cur:
        cur[-1]["end"] = len(evs)
        runs.append(cur)
    return runs


def monitor_c10(lines, to_process):
    """Executable statement of C10 over the implementation log; independent of the Coq model.
    Returns None or a message.

    Level of a callback = the priority its key was registered with (keys registered more than once with
    different priorities, or touched by poll_mod / signal_mod, are `ambiguous` and count for every level).
    (1) cut-off: in turn k of a run (k = 1, 2, 3, ...) only levels >= HIGH, >= MED, >= LOW are served.
    (2) at most to_process callbacks per level per turn.
    (3) no starvation: a job that is pending (moved to the job list: its add happened before the turn's
        epoll_wait) during three consecutive turns of a run without being dispatched or deleted => its
        level dispatched at least one callback in those three turns.
    (4) no sleeping on pending work: when a job pending since an earlier turn is still pending at an
        epoll_wait, the timeout passed is 0."""
    evs = parse_log(lines)
    for e in evs:
        if e[0] == "note":
            return "unexpected line %r" % (e[1],)
    level = {}
    amb = set()

    def reg(key, p):
        if key in level and level[key] != p:
            amb.add(key)
        level.setdefault(key, p)
    for e in evs:
        if e[0] == "o":
            w = e[1]
            if w[0] == "ja":
                reg(int(w[2]), int(w[1]))
            elif w[0] == "ta":
                reg(int(w[3]), int(w[1]))
            elif w[0] == "pa":
                reg(int(w[4]), int(w[1]))
            elif w[0] == "sa":
                reg(int(w[3]), int(w[1]))
            elif w[0] in ("pm", "sm"):
                amb.add(int(w[4] if w[0] == "pm" else w[3]))
                # every key ever attached to that fd may now run at another level
                if w[0] == "pm":
                    for f in evs:
                        if f[0] == "o" and f[1][0] in ("pa", "pm") and f[1][2] == w[2]:
                            amb.add(int(f[1][4]))
                else:
                    for f in evs:
                        if f[0] == "o" and f[1][0] in ("sa", "sm") and f[1][4] == w[4]:
                            amb.add(int(f[1][3]))
    runs = turns_of(evs)
    # job life times: (key, p, add_index, end_index) ; only keys added exactly once as a job and not ambiguous
    jobadds = {}
    i = 0
    while i < len(evs):
        e = evs[i]
        if e[0] == "o" and e[1][0] == "ja" and i + 1 < len(evs) and evs[i + 1][0] == "r" and evs[i + 1][2] == 0:
            jobadds.setdefault(int(e[1][2]), []).append(i)
        i += 1
    jobs = []
    for key, adds in jobadds.items():
        if key in amb:
            continue
        for ai, a in enumerate(adds):
            nxt = adds[ai + 1] if ai + 1 < len(adds) else len(evs)
            end = None
            for j in range(a + 2, len(evs)):
                f = evs[j]
                if f[0] == "cb" and f[1] == 0 and f[2] == key:
                    end = j
                    break
                if f[0] == "o" and f[1][0] == "jd" and int(f[1][2]) == key:
                    end = j
                    break
            # a re-add of the same key before the first one finished makes the pairing ambiguous: skip
            if end is not None and end > nxt:
                continue
            if end is None and nxt < len(evs):
                continue
            jobs.append((key, level[key], a, end if end is not None else len(evs)))
    for ri, run in enumerate(runs):
        for k, t in enumerate(run):
            cutoff = [2, 1, 0][k % 3]
            per = {0: 0, 1: 0, 2: 0}
            t["disp"] = per
            t["any_amb"] = False
            for j in range(t["start"], t["end"]):
                e = evs[j]
                if e[0] != "cb":
                    continue
                key = e[2]
                if key in amb or key not in level:
                    t["any_amb"] = True
                    continue
                p = level[key]
                per[p] += 1
                if p < cutoff:
                    return ("run %d turn %d: a callback of priority %d (key %d) ran although the cut-off of this turn is %d"
                            % (ri + 1, k + 1, p, key, cutoff))
            for p in per:
                if per[p] > max(1, to_process):
                    return "run %d turn %d: %d callbacks at priority %d in one turn (to_process = %d)" % (
                        ri + 1, k + 1, per[p], p, to_process)
        for key, p, a, end in jobs:
            # turns in which the job is pending: the add precedes the turn's w
            pend = [k for k, t in enumerate(run) if t["start"] > a and t["start"] < end]
            for k in pend:
                t = run[k]
                if k - 1 in pend and t["timeout"] != 0:
                    return ("run %d turn %d: job %d (priority %d) has been on the job list since an earlier turn but "
                            "epoll_wait was called with timeout %d" % (ri + 1, k + 1, key, p, t["timeout"]))
                # the last turn of a run is the one in which the loop was stopped: not a full turn
                if k + 2 < len(run) - 1 and run[k + 2]["end"] is not None and run[k + 2]["end"] <= end:
                    w3 = run[k:k + 3]
                    if sum(x["disp"][p] for x in w3) == 0 and not any(x["any_amb"] for x in w3):
                        return ("run %d turns %d-%d: job %d is pending at priority %d throughout but the level dispatched "
                                "nothing in these three consecutive turns" % (ri + 1, k + 1, k + 3, key, p))
    return None


def strip_ti(lines):
    return [l for l in lines if not l.startswith("ti ")]


def compare(impl, mod):
    """first difference between the implementation's log and the model's (ti lines are the model's own)."""
    return C.first_diff([C.norm_nums(l) for l in impl], [C.norm_nums(l) for l in strip_ti(mod)])


# ---------------------------------------------------------------------------------------------- C08
def gen_targeted(rng):
    """C08 families the random generator reaches rarely: items queued at a low level and deleted from a higher
    level's callback in the same turn; several signal deliveries pending when the registration is deleted / modified;
    timer handles used after fire / delete / slot reuse; a second poll_add of a descriptor followed by del / mod."""
    g = Gen(rng)
    fam = rng.choice(["del-queued", "sig-storm", "stale-timer", "dup-fd", "self-del", "fd-reuse"])
    L = g.lines
    if fam == "del-queued":
        # LOW / MED items become ready in turn 1 (cut-off HIGH); a HIGH job deletes some of them
        tj, kj = g.op_job_add(p=rng.choice([0, 1]))
        tt, kt = g.op_timer_add(p=rng.choice([0, 1]), base=(0,))
        tf, kf = g.op_poll_add(p=rng.choice([0, 1]))
        th, kh = g.op_job_add(p=2)
        L += ["op " + tj, "op " + tt, "op " + tf, "op " + th]
        fd = g.fds[-1]
        dels = rng.sample(["jd %s %d" % (tj.split()[1], kj), "td %d" % g.tregs[-1], "pd %d" % fd], rng.randint(1, 3))
        L.append("run 2000 0 | 2000 0 r %d:1 | 0 1" % fd)          # everything queued, nothing at LOW/MED served yet? (turn 2 serves MED)
        g.add_beh(kh, 0, [])
        t2, k2 = g.op_job_add(p=2)
        g.add_beh(k2, 0, dels + ([g.op_timer_add()[0]] if rng.random() < 0.5 else []))
        L.append("op " + t2)
        L.append("run " + " | ".join(["1000 0 r %d:1" % fd] * rng.choice([3, 4, 6])))
        L.append("op tr %d" % g.tregs[0])
    elif fam == "sig-storm":
        p = rng.choice([0, 0, 1])
        ts, ks = g.op_sig_add(p=p)
        reg = g.nextsreg - 1
        signo = g.sigregs[reg]["signo"]
        L.append("op " + ts)
        n = rng.choice([2, 2, 3])
        L.append("run " + " | ".join(["0 0 s %d r -2:1" % signo] * (n if p == 0 else 1) + ["0 1"]))
        how = rng.choice(["sd", "ret", "sm-sd", "cb-sd"])
        if how == "sd":
            L.append("op sd %d" % reg)
        elif how == "ret":
            g.add_beh(ks, 0, [], 1)
        elif how == "sm-sd":
            L.append("op sm %d %d %d %d" % (rng.choice([0, 1, 2]), signo, ks, reg))
            L.append("run 0 0 s %d r -2:1 | 0 1" % signo)
            L.append("op sd %d" % reg)
        else:
            th, kh = g.op_job_add(p=2)
            g.add_beh(kh, 0, ["sd %d" % reg])
            L.append("op " + th)
        L.append("run " + " | ".join(["0 0"] * 7))
    elif fam == "stale-timer":
        ta, ka = g.op_timer_add(p=2, base=(0,))
        L.append("op " + ta)
        L.append("run 2000 0 | 2000 0 | 0 1")                       # fires
        L.append("op td 0")
        L.append("op tr 0")
        tb, kb = g.op_timer_add(p=1, base=(1000000,))                 # reuses slot 0 with a new check word
        L.append("op " + tb)
        L.append("op td 0")                                           # stale: must not delete the new timer
        L.append("op tr 1")
        if rng.random() < 0.5:
            L.append("op td 1")
            L.append("op td 1")
            tc, kc = g.op_timer_add(p=0, base=(0,))
            L.append("op " + tc)
            L.append("op td 1")
        L.append("run 2000000 0 | 2000 0 | 2000 0 | 2000 0")
    elif fam == "dup-fd":
        t1, k1 = g.op_poll_add(p=1)
        t2, k2 = g.op_poll_add(p=1)
        fd1, fd2 = g.fds[-2], g.fds[-1]
        L += ["op " + t1, "op " + t2, "op pd %d" % fd1, "run 0 0"]
        t3, k3 = g.op_poll_add(p=rng.choice([0, 1, 2]), fd=fd2)      # second add of fd2: EEXIST; lands in the slot freed by fd1
        L.append("op " + t3)
        L.append("op " + rng.choice(["pd %d" % fd2, "pm 2 %d 5 %d" % (fd2, g.key("f")), "pd %d" % fd2]))
        L.append("run " + " | ".join(["0 0 r %d:1" % fd2] * 4))
    elif fam == "fd-reuse":
        # a descriptor closed without poll_del, its number added again, then deleted / modified by number
        t1, k1 = g.op_poll_add(p=rng.choice([0, 1, 2]))
        fd = g.fds[-1]
        L += ["op " + t1]
        if rng.random() < 0.5:
            L.append("run 0 0 r %d:1 | 0 0 r %d:1 | 0 1" % (fd, fd))
        L.append("op close %d" % fd)
        t2, k2 = g.op_poll_add(p=rng.choice([0, 0, 1]), fd=fd)
        L.append("op " + t2)
        L.append("run 0 0 r %d:1 | 0 1" % fd)
        L.append("op " + rng.choice(["pd %d" % fd, "pd %d" % fd, "pm 2 %d 5 %d" % (fd, g.key("f"))]))
        L.append("run " + " | ".join(["0 0 r %d:5" % fd] * 4))
        if rng.random() < 0.5:
            L.append("op pd %d" % fd)
            t3, k3 = g.op_poll_add(fd=fd)
            L.append("op " + t3)
            L.append("run " + " | ".join(["0 0 r %d:1" % fd] * 3))
    else:
        # callbacks deleting themselves / re-adding themselves
        tj, kj = g.op_job_add()
        g.add_beh(kj, 0, ["jd %s %d" % (tj.split()[1], kj), "ja %s %d" % (tj.split()[1], kj)])
        tt, kt = g.op_timer_add(base=(0,))
        g.add_beh(kt, 0, ["td %d" % g.tregs[-1], "tr %d" % g.tregs[-1]])
        tf, kf = g.op_poll_add()
        fd = g.fds[-1]
        g.add_beh(kf, 0, ["pd %d" % fd] + (["pa 1 %d 1 %d" % (fd, g.key("f"))] if rng.random() < 0.5 else []), rng.choice([0, -1]))
        L += ["op " + tj, "op " + tt, "op " + tf]
        L.append("run " + " | ".join(["2000 0 r %d:1" % fd] * 7))
    return g.script()


def script_behs(case):
    """(key, n) -> ret from the script's beh lines"""
    out = {}
    for l in case:
        w = l.split()
        if w and w[0] == "beh":
            out[(int(w[1]), int(w[2]))] = int(w[3])
    return out


def monitor_c08(lines, case):
    """Executable statement of C08 over the implementation log; independent of the Coq model.  None or a message.

    jobs:    a callback runs only for a job that was added and neither ran nor was deleted (count per key); per
             priority, the job that runs is the oldest pending one (FIFO), checked for keys used at one priority;
    timers:  a callback runs only for a pending timer, at most once per add; a delete of a pending timer succeeds,
             after it the callback never runs; a handle whose timer fired / was deleted is refused (-EINVAL) and
             is_running answers 0 for it;
    fds:     a callback runs only for a registration that was added and not removed (poll_del returned 0, or the
             callback returned a negative value);
    signals: a callback runs only while its registration exists (not after signal_del returned 0 or after a
             non-zero return), and not more often than the signal was raised while registered;
    stop:    after qb_loop_stop from a callback the run returns without another epoll_wait.
    Keys used for more than one registration at a time make the affected checks ambiguous: those are skipped, never
    guessed.  Descriptor numbers closed and added again are NOT exempt: after poll_del(fd) returned 0 no callback for
    that number may run until it is added again (fixes/C08-poll-add-live-fd)."""
    evs = parse_log(lines)
    behs = script_behs(case)
    # scripted check words that collide (or are 0) void the freshness hypothesis: handle checks are skipped then
    fresh = True
    for l in case:
        if l.startswith("rand "):
            v = l.split()[1:]
            fresh = len(set(v)) == len(v) and "0" not in v
    ninv = {}
    jobs = {}                 # key -> pending count
    jobq = {0: [], 1: [], 2: []}
    fifo_ok = {0: True, 1: True, 2: True}
    jobprio = {}
    amb_job = set()
    timers = {}               # reg -> dict(key, state: 'pending'|'fired'|'deleted')
    fds = {}                  # fd -> dict(key, alive) ; amb_fd set
    amb_fd = set()
    sigs = {}                 # reg -> dict(key, signo, alive)
    raised = {}               # key -> deliveries that may still produce a callback
    in_run = False
    stop_seen = False
    i = 0
    n = len(evs)
    while i < n:
        e = evs[i]
        if e[0] == "note":
            return "unexpected line %r" % (e[1],)
        nxt = evs[i + 1] if i + 1 < n else None
        res = nxt[2] if nxt and nxt[0] == "r" else None
        if e[0] in ("cb", "w", "runret"):
            # the timer callback that was running (if any) has ended: that timer has fired
            for t in timers.values():
                if t.pop("running", None):
                    t["state"] = "fired"
        if e[0] == "w":
            in_run = True
            if stop_seen:
                return "event %d: epoll_wait was called again after qb_loop_stop from a callback" % i
        elif e[0] == "runret":
            in_run = False
            stop_seen = False
        elif e[0] == "o":
            w = e[1]
            op = w[0]
            if op == "stop" and in_run:
                stop_seen = True
            elif op == "ja" and res == 0:
                p, key = int(w[1]), int(w[2])
                jobs[key] = jobs.get(key, 0) + 1
                jobq[p].append(key)
                if key in jobprio and jobprio[key] != p:
                    fifo_ok[p] = fifo_ok[jobprio[key]] = False
                    amb_job.add(key)
                jobprio.setdefault(key, p)
            elif op == "jd":
                p, key = int(w[1]), int(w[2])
                if key in amb_job:
                    if res == 0:
                        jobs[key] -= 1
                        if key in jobq[p]:
                            jobq[p].remove(key)
                elif res == 0:
                    if key not in jobq[p]:
                        return "event %d: job_del %d %d returned 0 but no such job is pending at that priority" % (i, p, key)
                    if jobq[p].count(key) > 1:
                        fifo_ok[p] = False
                    jobq[p].remove(key)
                    jobs[key] -= 1
                elif key in jobq[p] and res is not None:
                    return "event %d: job_del %d %d failed (%d) although such a job is pending" % (i, p, key, res)
            elif op == "ta" and res == 0:
                timers[int(w[4])] = {"key": int(w[3]), "state": "pending"}
            elif op == "td":
                t = timers.get(int(w[1]))
                if not fresh or (t is not None and t.get("amb")):
                    if t is not None and res == 0 and fresh:
                        t["state"] = "deleted"
                    if not fresh and res == 0:
                        for x in timers.values():
                            x["amb"] = True          # which timer a colliding handle removed is not known
                elif t is None or t["state"] != "pending":
                    if res == 0:
                        return "event %d: timer_del on a handle whose timer %s returned 0" % (
                            i, "was never added" if t is None else "already " + t["state"])
                else:
                    if t.get("running"):
                        pass          # the timer's own callback: the handle is already stale (check word cleared)
                    elif res != 0:
                        return "event %d: timer_del of a pending timer failed (%s)" % (i, res)
                    if res == 0:
                        t["state"] = "deleted"
            elif op == "tr":
                t = timers.get(int(w[1]))
                if fresh and not (t is not None and t.get("amb")) and \
                        (t is None or t["state"] != "pending" or t.get("running")) and res not in (0, None):
                    return "event %d: timer_is_running answered %d for a handle that is not pending" % (i, res)
            elif op == "pa":
                fd, key = int(w[2]), int(w[4])
                if res == 0:
                    if fd in fds and fds[fd]["alive"]:
                        amb_fd.add(fd)
                    fds[fd] = {"key": key, "alive": True}
            elif op == "pm" and res == 0:
                fd, key = int(w[2]), int(w[4])
                if fd in fds:
                    fds[fd]["key"] = key
            elif op == "pd" and res == 0:
                fd = int(w[1])
                if fd in fds:
                    fds[fd]["alive"] = False
            elif op == "close":
                pass
            elif op == "sa" and res == 0:
                sigs[int(w[4])] = {"key": int(w[3]), "signo": int(w[2]), "alive": True}
            elif op == "sm" and res == 0 and int(w[4]) in sigs:
                sigs[int(w[4])].update(key=int(w[3]), signo=int(w[2]))
            elif op == "sd" and res == 0 and int(w[1]) in sigs:
                sigs[int(w[1])]["alive"] = False
        elif e[0] == "cb":
            kind, key = e[1], e[2]
            k = ninv.get(key, 0)
            ninv[key] = k + 1
            ret = behs.get((key, k), 0)
            if kind == 0:
                if jobs.get(key, 0) <= 0:
                    return "event %d: job callback %d ran although no such job is pending (ran twice, or after a successful delete)" % (i, key)
                jobs[key] -= 1
                p = jobprio.get(key)
                if p is not None and fifo_ok[p]:
                    if not jobq[p] or jobq[p][0] != key:
                        return "event %d: job %d ran before the older pending job %s of priority %d" % (
                            i, key, jobq[p][0] if jobq[p] else "?", p)
                    jobq[p].pop(0)
                else:
                    for q in (2, 1, 0):
                        if key in jobq[q]:
                            jobq[q].remove(key)
                            break
            elif kind == 1:
                cands = [t for t in timers.values() if t["key"] == key and (t["state"] == "pending" or t.get("amb")) and not t.get("running")]
                if not cands:
                    return "event %d: timer callback %d ran although no such timer is pending (ran twice, or after a successful delete)" % (i, key)
                if len(cands) == 1 and not cands[0].get("amb"):
                    cands[0]["running"] = True
                else:
                    for t in cands:
                        t["amb"] = True              # several candidates: which one ran is not known
            elif kind == 2:
                fd = e[3]
                if True:      # strict also for re-added numbers: a second live entry for one number is the defect
                    r = fds.get(fd)
                    if r is None or not r["alive"]:
                        return "event %d: descriptor callback for fd %d ran although it is not watched (never added, deleted, or removed by a negative return)" % (i, fd)
                    if ret < 0:
                        r["alive"] = False
            elif kind == 3:
                regs = [s for s in sigs.values() if s["key"] == key]
                if len(regs) == 1:
                    if not regs[0]["alive"]:
                        return "event %d: signal callback %d ran after its registration was deleted" % (i, key)
                    if ret != 0:
                        regs[0]["alive"] = False
        i += 1
    return None
