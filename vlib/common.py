"""Shared machinery of the libqb verification framework (see DESIGN.md section 2).

Everything a per-property plugin (props/Cnn.py) needs: paths, shell helpers,
building the implementation from /repo's *current working tree*, regenerating
the Coq constants, building proofs, extracting and compiling the model,
evidence and violation reporting, known findings.
"""
import fcntl
import glob
import hashlib
import json
import os
import random
import re
import shutil
import subprocess
import sys
import time
from concurrent.futures import ThreadPoolExecutor

VERIF = os.path.dirname(os.path.dirname(os.path.abspath(__file__)))
REPO = os.environ.get("VERIF_REPO", "/repo")
BUILD = os.environ.get("VERIF_BUILD", os.path.join(VERIF, "build"))
COQ = os.path.join(VERIF, "coq")
OUT = os.path.join(VERIF, "out")          # replay files, logs (git-ignored)
# evidence/<id>.json describes a run against /repo itself; a run against another tree (VERIF_REPO: a scratch worktree with a
# seeded change or a proposed fix) writes its record under out/ so that it never replaces the registered evidence
EVID = os.environ.get("VERIF_EVID", os.path.join(VERIF, "evidence") if os.path.realpath(REPO) == "/repo"
                      else os.path.join(VERIF, "out", "evidence-other-tree"))
NCPU = os.cpu_count() or 4

LIB_FILES = """util ringbuffer ringbuffer_helper unix array hdb map hashtable skiplist trie
loop loop_job loop_timerlist loop_poll loop_poll_epoll log log_format log_dcs log_thread
log_blackbox log_file log_syslog ipcc ipcs ipc_shm ipc_setup ipc_socket strlcpy strlcat""".split()

ASAN_FLAGS = ["-O1", "-g", "-fno-omit-frame-pointer", "-fsanitize=address,undefined",
              "-fno-sanitize-recover=all"]
if os.environ.get("VERIF_COV"):
    # tools/coverage.py: same builds with gcov instrumentation added (a development aid, never part of a check)
    ASAN_FLAGS = ASAN_FLAGS + ["--coverage"]
BASE_CPP = ["-DHAVE_CONFIG_H", "-pthread"]


class BrokenInput(Exception):
    """/repo's tree does not compile (or similar): not a violation, exit 2."""


def log(*a):
    print(*a, file=sys.stderr, flush=True)


def sh(cmd, timeout=600, cwd=None, env=None, stdin=None, check=False):
    """Run cmd (list) -> (rc, stdout+stderr as str)."""
    e = dict(os.environ)
    if env:
        e.update(env)
    try:
        p = subprocess.run(cmd, cwd=cwd, env=e, input=stdin, timeout=timeout,
                           stdout=subprocess.PIPE, stderr=subprocess.STDOUT)
        rc, out = p.returncode, p.stdout.decode("utf-8", "replace")
    except subprocess.TimeoutExpired as ex:
        rc, out = 124, (ex.stdout or b"").decode("utf-8", "replace") + "\n[timeout]"
    if check and rc != 0:
        raise RuntimeError("command failed (%d): %s\n%s" % (rc, " ".join(cmd), out[-4000:]))
    return rc, out


def sh2(cmd, timeout=600, cwd=None, env=None, stdin=None):
    """Run cmd -> (rc, stdout, stderr) separately (bytes decoded)."""
    e = dict(os.environ)
    if env:
        e.update(env)
    try:
        p = subprocess.run(cmd, cwd=cwd, env=e, input=stdin, timeout=timeout,
                           stdout=subprocess.PIPE, stderr=subprocess.PIPE)
        return p.returncode, p.stdout.decode("utf-8", "replace"), p.stderr.decode("utf-8", "replace")
    except subprocess.TimeoutExpired as ex:
        return 124, (ex.stdout or b"").decode("utf-8", "replace"), \
            (ex.stderr or b"").decode("utf-8", "replace") + "\n[timeout]"


class Lock:
    """Inter-process lock so that several checks may run side by side."""

    def __init__(self, name):
        os.makedirs(BUILD, exist_ok=True)
        self.path = os.path.join(BUILD, name + ".lock")

    def __enter__(self):
        self.f = open(self.path, "w")
        fcntl.flock(self.f, fcntl.LOCK_EX)
        return self

    def __exit__(self, *a):
        fcntl.flock(self.f, fcntl.LOCK_UN)
        self.f.close()


def file_hash(paths, extra=""):
    h = hashlib.sha256()
    h.update(extra.encode())
    for p in sorted(paths):
        h.update(p.encode())
        try:
            with open(p, "rb") as f:
                h.update(f.read())
        except OSError:
            h.update(b"<missing>")
    return h.hexdigest()[:16]


def repo_sources():
    fs = glob.glob(os.path.join(REPO, "lib", "*.[ch]")) + \
        glob.glob(os.path.join(REPO, "include", "*.h")) + \
        glob.glob(os.path.join(REPO, "include", "qb", "*.h"))
    return fs


def inc_flags():
    fl = ["-I" + os.path.join(REPO, "include"), "-I" + os.path.join(REPO, "lib"),
          "-I" + os.path.join(VERIF, "harness")]
    if not os.path.exists(os.path.join(REPO, "include", "config.h")):
        # scratch worktrees lack the configure-generated headers (config.h, qb/qbconfig.h): take those from /repo
        fl += ["-idirafter", "/repo/include"]
    return fl


def _prune(dirpath, keep=4):
    """Keep only the newest `keep` hash-keyed subdirectories (disk is limited)."""
    try:
        subs = [os.path.join(dirpath, d) for d in os.listdir(dirpath)]
        subs = [d for d in subs if os.path.isdir(d)]
        subs.sort(key=os.path.getmtime, reverse=True)
        for d in subs[keep:]:
            shutil.rmtree(d, ignore_errors=True)
    except OSError:
        pass


def build_lib(variant="asan", files=None, flags=None, cc="gcc"):
    """Compile lib/*.c of the CURRENT working tree into an archive; returns its path.

    Keyed by a hash of all library sources + flags, so an unchanged tree costs nothing
    and any edit to /repo triggers a rebuild."""
    files = files or LIB_FILES
    flags = flags if flags is not None else ASAN_FLAGS
    key = file_hash(repo_sources(), variant + " ".join(flags) + " ".join(files) + cc)
    d = os.path.join(BUILD, "impl", variant + "-" + key)
    lib = os.path.join(d, "libqbv.a")
    with Lock("impl-" + variant):
        if os.path.exists(lib):
            os.utime(d)
            return lib
        os.makedirs(d, exist_ok=True)

        def one(f):
            o = os.path.join(d, f + ".o")
            cmd = [cc] + flags + BASE_CPP + inc_flags() + ["-c", os.path.join(REPO, "lib", f + ".c"), "-o", o]
            rc, out = sh(cmd, timeout=300)
            return f, rc, out, o
        with ThreadPoolExecutor(NCPU) as ex:
            res = list(ex.map(one, files))
        bad = [(f, out) for f, rc, out, o in res if rc != 0]
        if bad:
            shutil.rmtree(d, ignore_errors=True)
            raise BrokenInput("lib/%s.c does not compile:\n%s" % (bad[0][0], bad[0][1][-3000:]))
        sh(["ar", "rcs", lib] + [o for _, _, _, o in res], check=True)
        _prune(os.path.join(BUILD, "impl"), keep=6)
    return lib


def build_harness(name, sources, lib=None, extra_flags=None, flags=None, cc="gcc", ldflags=None,
                  dep_files=None):
    """Compile+link harness/<sources> against the implementation archive. Returns exe path."""
    flags = flags if flags is not None else ASAN_FLAGS
    extra_flags = extra_flags or []
    ldflags = ldflags or []
    srcs = [s if os.path.isabs(s) else os.path.join(VERIF, "harness", s) for s in sources]
    deps = srcs + ([lib] if lib else []) + (dep_files or []) + glob.glob(os.path.join(VERIF, "harness", "*.h"))
    # harnesses may #include lib/*.c directly, so key on repo sources as well
    key = file_hash(deps + repo_sources(), name + " ".join(flags + extra_flags + ldflags) + cc)
    d = os.path.join(BUILD, "harness", name + "-" + key)
    exe = os.path.join(d, name)
    with Lock("harness-" + name):
        if os.path.exists(exe):
            os.utime(d)
            return exe
        os.makedirs(d, exist_ok=True)
        cmd = [cc] + flags + extra_flags + BASE_CPP + inc_flags() + srcs + ([lib] if lib else []) + \
            ["-o", exe] + ldflags + ["-ldl", "-lrt", "-lm"]
        rc, out = sh(cmd, timeout=600)
        if rc != 0:
            shutil.rmtree(d, ignore_errors=True)
            raise BrokenInput("harness %s does not build against the current tree:\n%s" % (name, out[-4000:]))
        # prune old builds of this harness
        hd = os.path.join(BUILD, "harness")
        olds = sorted([x for x in glob.glob(os.path.join(hd, name + "-*")) if os.path.isdir(x)],
                      key=os.path.getmtime, reverse=True)
        for x in olds[3:]:
            shutil.rmtree(x, ignore_errors=True)
    return exe


IMPL_ENV = {"ASAN_OPTIONS": "detect_leaks=0:abort_on_error=0:exitcode=99:allocator_may_return_null=1",
            "UBSAN_OPTIONS": "print_stacktrace=1:halt_on_error=1:exitcode=98"}

# ---------------------------------------------------------------------------
# Coq side
# ---------------------------------------------------------------------------


def gen_consts():
    """Regenerate coq/gen/Consts_*.v from /repo (harness/consts/*.c). Returns list of changed names."""
    gd = os.path.join(COQ, "gen")
    os.makedirs(gd, exist_ok=True)
    changed = []
    srcs = sorted(glob.glob(os.path.join(VERIF, "harness", "consts", "*.c")))

    def one(src):
        name = os.path.splitext(os.path.basename(src))[0]
        key = file_hash([src] + repo_sources(), "consts")
        d = os.path.join(BUILD, "consts")
        os.makedirs(d, exist_ok=True)
        exe = os.path.join(d, name + "-" + key)
        if not os.path.exists(exe):
            for old in glob.glob(os.path.join(d, name + "-*")):
                try:
                    os.unlink(old)
                except OSError:
                    pass
            lib = build_lib()
            rc, out = sh(["gcc", "-O0", "-g", "-fsanitize=address,undefined", "-w"] +
                         (["--coverage"] if os.environ.get("VERIF_COV") else []) + BASE_CPP + inc_flags() +
                         [src, lib, "-o", exe, "-ldl", "-lrt", "-lm"], timeout=300)
            if rc != 0:
                raise BrokenInput("consts/%s.c does not compile against the current tree:\n%s" % (name, out[-3000:]))
        rc, out, err = sh2([exe], timeout=60, env=IMPL_ENV)
        if rc != 0:
            raise BrokenInput("consts/%s failed: %s" % (name, (out + err)[-2000:]))
        text = "(* GENERATED from %s by harness/consts/%s.c on every run - do not edit *)\n" % ("/repo", name) + out
        dst = os.path.join(gd, "Consts_%s.v" % name)
        old = open(dst).read() if os.path.exists(dst) else None
        if old != text:
            with open(dst, "w") as f:
                f.write(text)
            return name
        return None
    with Lock("consts"):
        for s in srcs:
            r = one(s)
            if r:
                changed.append(r)
    return changed


def gen_src():
    """Regenerate coq/gen/Src_*.v from /repo with tools/c2coq.py (harness/c2coq/*.json name the C functions).
    Returns (changed topics, {topic: [(function, reason)] for functions that could not be translated})."""
    sys.path.insert(0, os.path.join(VERIF, "tools"))
    import c2coq
    gd = os.path.join(COQ, "gen")
    os.makedirs(gd, exist_ok=True)
    changed, problems = [], {}
    with Lock("src"):
        for sp in sorted(glob.glob(os.path.join(VERIF, "harness", "c2coq", "*.json"))):
            name = os.path.splitext(os.path.basename(sp))[0]
            spec = json.load(open(sp))
            try:
                text, probs = c2coq.translate_spec(REPO, spec)
            except RuntimeError as e:
                raise BrokenInput("c2coq: %s" % e)
            if probs:
                problems[name] = probs
            dst = os.path.join(gd, "Src_%s.v" % name)
            old = open(dst).read() if os.path.exists(dst) else None
            if old != text:
                with open(dst, "w") as f:
                    f.write(text)
                changed.append(name)
    return changed, problems


def coq_project():
    """(Re)generate _CoqProject and the coq_makefile Makefile when the file list changes."""
    vs = sorted([os.path.relpath(p, COQ) for p in glob.glob(os.path.join(COQ, "*.v"))] +
                [os.path.relpath(p, COQ) for p in glob.glob(os.path.join(COQ, "gen", "*.v"))])
    text = "-Q . Verif\n-arg -w -arg -notation-overridden,-deprecated\n" + "\n".join(vs) + "\n"
    cp = os.path.join(COQ, "_CoqProject")
    old = open(cp).read() if os.path.exists(cp) else None
    if old != text or not os.path.exists(os.path.join(COQ, "Makefile")):
        with open(cp, "w") as f:
            f.write(text)
        sh(["coq_makefile", "-f", "_CoqProject", "-o", "Makefile"], cwd=COQ, check=True)


def coq_make(targets, timeout=3000):
    """Full .vo build of the given targets (never -vos). Returns (ok, log)."""
    with Lock("coq"):
        coq_project()
        rc, out = sh(["make", "-k", "-j%d" % NCPU] + targets, cwd=COQ, timeout=timeout)
    return rc == 0, out


THM_RE = re.compile(r"^\s*(Theorem|Example|Corollary|Lemma)\s+([A-Za-z0-9_']+)", re.M)
GATE_RE = re.compile(r"\b(Admitted|admit|Axiom|Axioms|Parameter|Parameters|Conjecture|Conjectures|Unset\s+Guard|"
                     r"bypass_check|Admit\s+Obligations|type-in-type|impredicative-set|native_compute|"
                     r"Unset\s+Universe\s+Checking|Unset\s+Positivity)\b")


def strip_coq_comments(s):
    out, depth, i = [], 0, 0
    while i < len(s):
        if s.startswith("(*", i):
            depth += 1
            i += 2
        elif s.startswith("*)", i) and depth > 0:
            depth -= 1
            i += 2
        else:
            if depth == 0:
                out.append(s[i])
            i += 1
    return "".join(out)


def grep_gate():
    """No Admitted/admit/Axiom/Parameter/... anywhere under coq/ (comments ignored).
    Also: Variable/Hypothesis/Context only inside Sections."""
    bad = []
    for p in sorted(glob.glob(os.path.join(COQ, "*.v")) + glob.glob(os.path.join(COQ, "gen", "*.v"))):
        txt = strip_coq_comments(open(p).read())
        depth = 0
        for ln, line in enumerate(txt.split("\n"), 1):
            m = GATE_RE.search(line)
            if m:
                bad.append("%s:%d: %s" % (os.path.basename(p), ln, m.group(0)))
            if re.match(r"^\s*Section\s+\w+", line):
                depth += 1
            elif re.match(r"^\s*End\s+\w+", line) and depth > 0:
                depth -= 1   # (module ends also decrement; modules are not used in this development)
            elif re.match(r"^\s*(Variable|Variables|Hypothesis|Hypotheses|Context)\b", line) and depth == 0:
                bad.append("%s:%d: %s outside a Section" % (os.path.basename(p), ln, line.strip()[:40]))
    return bad


def prop_files(pid):
    """Property-theorem files of a property: Properties_<pid>.v first, then every other coq/Properties<Tag>_<pid>.v
    (PropertiesSrc_<pid>.v = obligations that tie model functions to the Gallina text regenerated from the C source;
    other tags = parts of one property owned by different topic models, e.g. PropertiesTrie_C17.v)."""
    fs = ["Properties_%s" % pid]
    for p in sorted(glob.glob(os.path.join(COQ, "Properties?*_%s.v" % pid))):
        b = os.path.basename(p)[:-2]
        if b not in fs:
            fs.append(b)
    return fs


def property_theorems(pid):
    res = []
    for f in prop_files(pid):
        txt = strip_coq_comments(open(os.path.join(COQ, f + ".v")).read())
        res += [(k, n) for k, n in THM_RE.findall(txt)]
    return res


def print_assumptions(pid):
    """Compile the property file(s) once more into build/ to capture their `Print Assumptions` output."""
    outs = []
    for base in prop_files(pid):
        src = os.path.join(COQ, base + ".v")
        vo = os.path.join(COQ, base + ".vo")
        cache = os.path.join(BUILD, "assum", base + ".txt")
        os.makedirs(os.path.dirname(cache), exist_ok=True)
        if os.path.exists(cache) and os.path.exists(vo) and os.path.getmtime(cache) >= os.path.getmtime(vo) \
                and os.path.getmtime(cache) >= os.path.getmtime(src):
            outs.append(open(cache).read())
            continue
        tmpvo = os.path.join(BUILD, "assum", base + ".vo")
        rc, out = sh(["coqc", "-q", "-Q", ".", "Verif", "-w", "-notation-overridden,-deprecated",
                      "-o", tmpvo, base + ".v"], cwd=COQ, timeout=900)
        if rc == 0:
            with open(cache, "w") as f:
                f.write(out)
        outs.append(out)
    return "\n".join(outs)


def parse_assumptions(out):
    """Summarise Print Assumptions output: list of 'closed' / axiom names."""
    axioms = set()
    closed = 0
    cur_ax = False
    for line in out.split("\n"):
        if line.startswith("Closed under the global context"):
            closed += 1
            cur_ax = False
        elif line.startswith("Axioms:"):
            cur_ax = True
        elif cur_ax:
            m = re.match(r"^([A-Za-z0-9_.']+)\s*:", line)
            if m:
                axioms.add(m.group(1))
            elif line.strip() == "":
                cur_ax = False
    return closed, sorted(axioms)


def build_model(pid, extra_ml=None):
    """Compile the OCaml model runner for property pid: coq/model_<pid>.ml(i) (written by
    Extract_<pid>.v during the Coq build) + ocaml/zutil.ml + ocaml/<pid>_driver.ml -> build/model/<pid>-<hash>/run."""
    ml = os.path.join(COQ, "model_%s.ml" % pid)
    mli = os.path.join(COQ, "model_%s.mli" % pid)
    drv = os.path.join(VERIF, "ocaml", "%s_driver.ml" % pid)
    zu = os.path.join(VERIF, "ocaml", "zutil.ml")
    if not os.path.exists(ml):
        raise RuntimeError("extracted model %s missing (Extract_%s.vo did not build)" % (ml, pid))
    key = file_hash([ml, mli, drv, zu] + (extra_ml or []))
    d = os.path.join(BUILD, "model", pid + "-" + key)
    exe = os.path.join(d, "run")
    with Lock("model-" + pid):
        if os.path.exists(exe):
            return exe
        for old in glob.glob(os.path.join(BUILD, "model", pid + "-*")):
            shutil.rmtree(old, ignore_errors=True)
        os.makedirs(d, exist_ok=True)
        for f in [ml, mli] + (extra_ml or []):
            shutil.copy(f, d)
        with open(os.path.join(d, "%s_driver.ml" % pid), "w") as f:
            f.write("open Model_%s\n" % pid)
            f.write(open(zu).read())
            f.write("\n")
            f.write(open(drv).read())
        names = ["model_%s.mli" % pid, "model_%s.ml" % pid] + [os.path.basename(x) for x in (extra_ml or [])] + \
            ["%s_driver.ml" % pid]
        rc, out = sh(["ocamlfind", "ocamlopt", "-inline", "100", "-w", "-a"] + names + ["-o", "run"],
                     cwd=d, timeout=600)
        if rc != 0:
            shutil.rmtree(d, ignore_errors=True)
            raise RuntimeError("OCaml model for %s does not build:\n%s" % (pid, out[-3000:]))
    return exe


# ---------------------------------------------------------------------------
# Known findings, violations, evidence
# ---------------------------------------------------------------------------

def known_findings(pid):
    p = os.path.join(VERIF, "known_findings.json")
    if not os.path.exists(p):
        return []
    data = json.load(open(p))
    return [e for e in data.get("known", []) if e.get("property") == pid]


# ---------------------------------------------------------------------------
# Source fingerprints: when the code a property is anchored in differs (comments and white space aside)
# from the text the committed models were last validated against, a quick run that found nothing goes on
# with the thorough generator.  This can never raise an alarm by itself; it only buys search effort where
# the tree has changed.  fingerprints.json is written by `./check --record-fingerprints` only.
# ---------------------------------------------------------------------------

def _strip_c(text):
    text = re.sub(r"/\*.*?\*/", " ", text, flags=re.S)
    text = re.sub(r"//[^\n]*", " ", text)
    return re.sub(r"\s+", " ", text).strip()


def anchored_files(pid):
    for line in open(os.path.join(VERIF, "properties.jsonl")):
        line = line.strip()
        if not line:
            continue
        rec = json.loads(line)
        if rec.get("id") == pid:
            return sorted(rec.get("anchors", {}).get("files", []))
    return []


def source_fingerprint(pid):
    h = hashlib.sha256()
    for f in anchored_files(pid):
        path = os.path.join(REPO, f)
        h.update(f.encode() + b"\0")
        try:
            h.update(_strip_c(open(path, errors="replace").read()).encode())
        except OSError:
            h.update(b"<missing>")
        h.update(b"\0")
    return h.hexdigest()


def recorded_fingerprint(pid):
    p = os.path.join(VERIF, "fingerprints.json")
    if not os.path.exists(p):
        return None
    return json.load(open(p)).get(pid)


class Result:
    def __init__(self):
        self.evaluations = 0
        self.nontrivial = set()
        self.rule = ""
        self.samples = []
        self.violations = []       # dicts: {kind, what, replay(dict)}
        self.known_hits = {}       # finding id -> count
        self.traces_validated = 0
        self.extra = {}
        self.assumptions = []

    def add_case(self, key, nontrivial=True):
        self.evaluations += 1
        if nontrivial:
            self.nontrivial.add(key if isinstance(key, (str, int, tuple)) else json.dumps(key, sort_keys=True))

    def violation(self, kind, what, replay):
        self.violations.append({"kind": kind, "what": what, "replay": replay})


def write_replay(pid, seed, idx, payload):
    d = os.path.join(OUT, "replay")
    os.makedirs(d, exist_ok=True)
    p = os.path.join(d, "%s-seed%d-%d.json" % (pid, seed, idx))
    with open(p, "w") as f:
        json.dump(payload, f, indent=1, default=str)
    return p


def write_evidence(pid, tier, seed, res, proof, wall, nviol):
    os.makedirs(EVID, exist_ok=True)
    cov = {
        "obligations": proof["obligations"],
        "discharged": proof["discharged"],
        "checker_cmd": proof["checker_cmd"],
        "trusted_base": proof["trusted_base"],
        "theorems": proof["theorems"],
        "evaluations": res.evaluations,
        "distinct_nontrivial": len(res.nontrivial),
        "rule": res.rule,
        "samples": res.samples[:6] if res.samples else [{"obligation": t} for t in proof["theorems"][:3]],
        "traces_validated_against_impl": res.traces_validated,
        "known_findings_hit": res.known_hits,
    }
    cov.update(res.extra)
    ev = {"property_id": pid, "tier": tier, "seed": seed, "level": "proof", "coverage": cov,
          "assumptions": res.assumptions, "wall_s": round(wall, 2), "violations": nviol}
    with open(os.path.join(EVID, pid + ".json"), "w") as f:
        json.dump(ev, f, indent=1, default=str)


class Rng(random.Random):
    """One PRNG state per run; every choice derives from VERIF_SEED."""
    pass


# ---------------------------------------------------------------------------
# Batch running of script-driven executables, diffing, shrinking
# ---------------------------------------------------------------------------

CRASH_BUDGET_HIT = []     # (exe, first skipped case, number skipped) per run_cases call that gave up


def run_cases(exe, cases, env=None, timeout=300, wrapper=None, max_crashes=6):
    """Feed `cases` (list of script texts, without the marker line) to a script-driven executable that
    echoes '# case <i>' marker lines and starts fresh state at each.  Survives crashes: the case
    during which the process died is reported with crash=(rc, tail of stderr) and the remaining
    cases are run in a new process.  Returns list of (lines, crash) per case."""
    results = [None] * len(cases)
    start = 0
    ncrash = 0
    e = dict(IMPL_ENV)
    if env:
        e.update(env)
    while start < len(cases):
        text = "".join("# case %d\n%s" % (i, cases[i] if cases[i].endswith("\n") or not cases[i] else cases[i] + "\n")
                       for i in range(start, len(cases)))
        cmd = (wrapper or []) + [exe]
        t_batch = time.time()
        rc, out, err = sh2(cmd, timeout=timeout, env=e, stdin=text.encode())
        t_batch = time.time() - t_batch
        cur = None
        seen = []
        for line in out.split("\n"):
            m = re.match(r"^# case (\d+)\s*$", line)
            if m:
                cur = int(m.group(1))
                results[cur] = ([], None)
                seen.append(cur)
            elif cur is not None and line != "":
                results[cur][0].append(line)
        if rc == 0:
            for i in range(start, len(cases)):
                if results[i] is None:
                    results[i] = ([], (rc, "no output for case"))
            break
        # crashed or timed out: blame the last case seen
        last = seen[-1] if seen else start
        results[last] = (results[last][0] if results[last] else [], (rc, err[-3000:]))
        for i in range(start, last):
            if results[i] is None:
                results[i] = ([], None)
        start = last + 1
        if rc in (124, -14, 142) or t_batch > 15:   # timed out, killed by the harness' own alarm(), or slow to die: a HANG
            # (an abort is cheap and is not counted)
            ncrash += 1
            if rc == 124:
                timeout = min(timeout, 30)   # the harness has no alarm of its own: do not pay the full timeout again
        if ncrash >= max_crashes and start < len(cases):
            # a tree on which the harness keeps hanging (each hang costs its alarm time): the dozen hangs found are
            # reported, the remaining cases are not run (empty output, no crash) so that the check ends in minutes
            CRASH_BUDGET_HIT.append((os.path.basename(exe), start, len(cases) - start))
            for i in range(start, len(cases)):
                results[i] = ([], None)
            break
    return results


def first_diff(a, b):
    for i in range(max(len(a), len(b))):
        x = a[i] if i < len(a) else "<end>"
        y = b[i] if i < len(b) else "<end>"
        if x != y:
            return i, x, y
    return None


def norm_nums(line):
    """Canonicalise numeric tokens (0x.. hex / decimal) so that textual differences do not matter."""
    toks = []
    for t in line.split(" "):
        try:
            toks.append(str(int(t, 0)))
        except ValueError:
            toks.append(t)
    return " ".join(toks)


def shrink_list(items, fails, budget=150):
    """Delta-debugging over a list: smallest sublist (order kept) for which fails(sublist) is true."""
    cur = list(items)
    n = 2
    used = 0
    while len(cur) >= 2 and used < budget:
        chunk = max(1, len(cur) // n)
        reduced = False
        for i in range(0, len(cur), chunk):
            cand = cur[:i] + cur[i + chunk:]
            used += 1
            if cand and fails(cand):
                cur = cand
                n = max(n - 1, 2)
                reduced = True
                break
            if used >= budget:
                break
        if not reduced:
            if chunk == 1:
                break
            n = min(len(cur), n * 2)
    return cur
