"""Machinery of C11 (overwrite ring / blackbox keeps the newest records).

Ring scripts run on harness/h_rb.c (shared with C07, used read-only through vlib/rb.py); blackbox scripts run on
harness/h_rbow.c (real qb_log blackbox target; see its header for the script and log format).
Both monitors below state the property over the IMPLEMENTATION's log and use nothing of the Coq model."""
import os
import struct
from concurrent.futures import ThreadPoolExecutor
from vlib import common as C
from vlib import rb as R

OVERHEAD = 16
ENOENT = 2
BB_WRAPS = ["-Wl,--wrap=qb_rb_chunk_alloc,--wrap=qb_rb_chunk_commit,--wrap=qb_vsnprintf_serialize,--wrap=clock_gettime"]
LOG_MAX_LEN = 512
TS_SIZE = 16
BB_FIXED = 4 * 4 + 1 + TS_SIZE


def build_bb():
    lib = C.build_lib()
    return C.build_harness("h_rbow", ["h_rbow.c"], lib=lib, ldflags=BB_WRAPS)


# ------------------------------------------------------------------ "fits" (the property's accounting)
def first_fitting(hist, S):
    """hist: list of (reserved, length).  Smallest index f such that hist[f:] fits in S when every chunk counts
    len + 16 and each chunk, at the moment it was written, counted with its reservation + 16.  The newest chunk
    alone is always kept (k >= 1), so f <= len(hist) - 1."""
    n = len(hist)
    if n == 0:
        return 0
    f = n - 1
    for i in range(n - 2, -1, -1):
        acc = 0
        ok = True
        for r, ln in hist[i:]:
            if acc + r + OVERHEAD > S:
                ok = False
                break
            acc += ln + OVERHEAD
        if ok:
            f = i
        else:
            break          # a longer run contains this one as a prefix-run only if this one fits
    return f


class Window:
    """What the property allows about the contents of an overwrite ring: the readable chunks are hist[j:] for
    some j in [lo, hi]; hi == len(hist) allows 'empty'."""

    def __init__(self, S):
        self.S = S
        self.hist = []        # (reserved, bytes)
        self.lo = 0
        self.hi = 0

    def wrote(self, reserved, body):
        self.hist.append((reserved, body))
        base = self.lo
        f = base + first_fitting([(r, len(b)) for r, b in self.hist[base:]], self.S)
        self.hi = min(max(self.hi, f), len(self.hist) - 1)

    def reserve(self, reserved):
        """qb_rb_chunk_alloc(reserved) on its own (the commit comes later): the writer may drop now whatever does not fit
        together with the reservation"""
        base = self.lo
        f = base + first_fitting([(r, len(b)) for r, b in self.hist[base:]] + [(reserved, 0)], self.S)
        self.hi = min(max(self.hi, f), len(self.hist))

    def maybe_empty(self):
        return self.hi >= len(self.hist)

    def surely_empty(self):
        return self.lo >= len(self.hist)

    def candidates(self):
        return range(self.lo, min(self.hi, len(self.hist) - 1) + 1)

    def match_heads(self, body):
        """all indices j in [lo, hi] with hist[j] == body (candidates for the oldest readable chunk)"""
        return [j for j in self.candidates() if self.hist[j][1] == body]

    def describe(self):
        return "chunks #%d..#%d of %d written may be the oldest readable one" % (self.lo, min(self.hi, len(self.hist) - 1),
                                                                                 len(self.hist))


# ------------------------------------------------------------------ ring monitor
def parse_dump(dline):
    """'d w.w.w...' -> list of chunk bytes read from the dump the way a reader of the file would, or a message"""
    ws = [int(x, 16) for x in dline[2:].strip().split(".") if x]
    if len(ws) < 5:
        return "short dump"
    W, wpt, rpt, ver, hsh = ws[:5]
    data = ws[5:]
    if len(data) != W:
        return "dump has %d data words, header says %d" % (len(data), W)
    if (W + wpt + rpt + ver) & 0xFFFFFFFF != hsh:
        return "dump header hash mismatch"
    raw = b"".join(w.to_bytes(4, "little") for w in data)
    raw2 = raw + raw
    out = []
    p = rpt
    guard = 0
    while p != wpt:
        size = data[p % W]
        magic = data[(p + 1) % W]
        if magic != R.MAGIC:
            return "dump: chunk at word %d between read_pt %d and write_pt %d has marker 0x%x" % (p, rpt, wpt, magic)
        if size > 4 * W:
            return "dump: chunk at word %d claims %d bytes" % (p, size)
        start = 4 * ((p + 2) % W)
        out.append(raw2[start:start + size])
        p = (p + 2 + (size + 3) // 4) % W
        guard += 1
        if guard > W:
            return "dump: chunk chain from read_pt does not reach write_pt"
    return out


def monitor_ring(script, lines):
    """Executable statement of C11 over the implementation log of an overwrite-ring script.  None or a message."""
    ops, used = R.parse_ops(script, lines)
    if used != len(lines):
        return "unexpected extra output line %r" % lines[used]
    win = None
    S = None
    sem_mode = False
    tok = 0
    for op, r, ql in ops:
        c = op[0]
        if c == "O":
            parts = op.split()
            S = int(parts[1])
            sem_mode = "n" not in parts[2]
            if "o" not in parts[2]:
                return "monitor_ring is for overwrite rings"
            win = Window(S)
            tok = 0
            if r is None or r.strip() != "o 1":
                return "open of a ring of size %d failed" % S
            continue
        if win is None:
            continue
        if c == "a":
            win.reserve(int(op.split()[1]))         # split stage: a successful alloc whose commit follows later
            continue
        if c in "WARPX" and r is None:
            return "no result line for %r" % op[:40]
        if c in "WA":
            parts = op.split()
            if c == "W":
                body = bytes.fromhex(parts[1]) if parts[1] != "-" else b""
                rlen, okval = len(body), len(body)
            else:
                rlen = int(parts[1])
                body = bytes.fromhex(parts[2]) if parts[2] != "-" else b""
                okval = 0
            ret = int(r.split()[1])
            if ret == okval and not (c == "W" and ret < 0):
                win.wrote(rlen, body)
                tok += 1
            elif rlen <= S:
                return ("overwrite ring of size %d refused a write of %d bytes (returned %d): every write of at most the "
                        "requested size must succeed" % (S, rlen, ret))
            elif ret >= 0:
                return "write reserving %d bytes returned %d" % (rlen, ret)
            else:
                # more than the requested size: may fail; the property says nothing about what is left
                win.hi = len(win.hist)
        elif c in "RP":
            rp = r.split()
            ret = int(rp[1])
            body = bytes.fromhex(rp[2]) if len(rp) > 2 and rp[2] != "-" else b""
            if "CLOBBER" in r:
                return "read modified the caller's buffer beyond the %d bytes it reported" % max(ret, 0)
            n = int(op.split()[1]) if c == "R" else 1 << 40
            if sem_mode and tok <= 0:
                if (c == "R" and ret >= 0) or (c == "P" and ret != 0):
                    return "%s returned %d without a pending notification" % ("read" if c == "R" else "peek", ret)
            elif ret >= 0:
                if win.surely_empty():
                    return "%s on an empty ring returned a chunk of %d bytes" % ("read" if c == "R" else "peek", ret)
                js = win.match_heads(body)
                if not js or ret != len(body):
                    return ("%s returned %d bytes %s... which is not one of the chunks the property allows as oldest "
                            "(%s): chunks were lost, reordered or damaged" %
                            ("read" if c == "R" else "peek", ret, body[:12].hex(), win.describe()))
                if c == "R":
                    win.lo, win.hi = js[0] + 1, js[-1] + 1
                else:
                    win.lo, win.hi = js[0], js[-1]
                tok -= 1
            else:
                # failure (or peek's 0 = nothing there)
                if c == "R" and ret == -R.ENOBUFS:
                    if not any(len(win.hist[j][1]) > n for j in win.candidates()):
                        return "read with a %d-byte buffer returned -ENOBUFS although no candidate chunk is larger" % n
                elif not win.maybe_empty():
                    return ("%s failed with %d although at least one chunk must be readable (%s)" %
                            ("read" if c == "R" else "peek", ret, win.describe()))
                else:
                    win.lo = win.hi = len(win.hist)       # it was empty
        elif c == "X":
            n = len(win.hist)
            win.lo = min(win.lo + 1, n)
            win.hi = min(win.hi + 1, n)
        elif c == "D":
            got = parse_dump(r)
            if isinstance(got, str):
                return got
            n = len(win.hist)
            j = n - len(got)
            if j < win.lo or j > win.hi or [b for _, b in win.hist[j:]] != got:
                return ("dump holds %d chunks %s; the property demands the newest k chunks written, unbroken and "
                        "byte-identical, with %d <= k <= %d" %
                        (len(got), [g[:6].hex() for g in got[:4]], n - win.hi, n - win.lo))
            win.lo = win.hi = j
        if ql is not None:
            f, u, ch = [int(x) for x in ql.split()[1:4]]
            if sem_mode and ch != tok:
                return "chunks_used reports %d, expected %d pending notifications" % (ch, tok)
            if f < 0 or u < 0:
                return "negative space_free/space_used: %r" % ql
    return None


# ------------------------------------------------------------------ blackbox: generator
BB_SIZES = [1024, 1024, 1025, 1500, 2000, 3000, 4070, 4083, 4084, 5000, 8179, 8180]
BB_MAXLINES = [0, 0, 32, 32, 5, 1, 60, 77, 78, 79, 80, 100, 200, 512, 600, 1000, 2000, 4096]


def bb_text(rng, n, seq):
    """n bytes of printable text without '%' and NUL, carrying the sequence number"""
    head = ("m%d:" % seq).encode()
    alphabet = b"abcdefghijklmnopqrstuvwxyzABCDEFGHIJKLMNOPQRSTUVWXYZ0123456789 _-./"
    body = bytes(rng.choice(alphabet) for _ in range(max(0, n - len(head))))
    return (head + body)[:n] if n > 0 else b""


def gen_bb_case(rng, nlogs, size=None, maxline=None):
    size = size if size is not None else rng.choice(BB_SIZES)
    maxline = maxline if maxline is not None else rng.choice(BB_MAXLINES)
    eff = maxline if maxline else LOG_MAX_LEN
    ops = ["B %d %d" % (size, maxline)]
    fns = [b"f", b"main", b"qb_ipcs_dispatch_connection_request", bytes(rng.choice(b"abcxyz_") for _ in range(rng.choice([2, 9, 17, 40])))]
    if rng.random() < 0.15:
        fns.append(b"L" * rng.choice([100, 200, 400]))
    seq = 0
    for _ in range(nlogs):
        seq += 1
        r = rng.random()
        if r < 0.35:
            n = max(0, eff + rng.choice([-3, -2, -2, -1, -1, 0, 1, 2, 30]))        # around the line limit
        elif r < 0.60:
            n = rng.choice([0, 1, 2, 3, 5, 8, 13])
        elif r < 0.85:
            n = rng.randrange(0, max(2, min(eff, 200)))
        else:
            n = rng.choice([eff * 2, 600, 100, 511, 512, 513])
        n = min(n, 4500)
        fn = rng.choice(fns)
        kind = rng.random()
        lineno = 1 + (seq % 60000)
        tags = rng.choice([0, 1, seq, 0x7FFFFFFF, rng.getrandbits(31)])
        prio = rng.choice([0, 3, 6, 7, 7, 6])
        if kind < 0.75:
            text = bb_text(rng, n, seq)
            ops.append("L %d %d %d %d %s t %s" % (seq, lineno, tags, prio, fn.hex(), text.hex() if text else "-"))
        elif kind < 0.9:
            text = bb_text(rng, n, seq)
            ops.append("L %d %d %d %d %s s %s" % (seq, lineno, tags, prio, fn.hex(), text.hex() if text else "-"))
        else:
            ops.append("L %d %d %d %d %s d %d" % (seq, lineno, tags, prio, fn.hex(), rng.randrange(-5, 100000)))
        if rng.random() < 0.06:
            ops.append("D")
    ops.append("D")
    return ops


# ------------------------------------------------------------------ blackbox: parsing and monitor
def parse_bb(lines):
    """impl log -> list of dicts {op, args, s:[(limit, ret, bytes)], a:(len, errno)|None, c:(len, bytes)|None,
    t:(sec, nsec)|None, w, h, k:[bytes], e}"""
    ops = []
    cur = None
    for ln in lines:
        p = ln.split()
        if not p:
            continue
        if p[0] in ("B", "L", "D"):
            cur = {"op": p[0], "args": p[1:], "s": [], "a": None, "c": None, "t": None, "b": None, "w": None, "h": None,
                   "k": [], "e": None, "knull": False}
            ops.append(cur)
            continue
        if cur is None:
            continue
        if p[0] == "s":
            cur["s"].append((int(p[1]), int(p[2]), bytes.fromhex(p[3]) if len(p) > 3 and p[3] != "-" else b""))
        elif p[0] == "a":
            cur["a"] = (int(p[1]), int(p[2]))
        elif p[0] == "c":
            cur["c"] = (int(p[1]), bytes.fromhex(p[2]) if len(p) > 2 and p[2] != "-" else b"")
        elif p[0] == "t":
            cur["t"] = (int(p[1]), int(p[2]))
        elif p[0] == "b":
            cur["b"] = [int(x) for x in p[1:5]]
        elif p[0] == "w":
            cur["w"] = int(p[1])
        elif p[0] == "h":
            cur["h"] = int(p[1])
        elif p[0] == "k":
            if p[1] == "NULL":
                cur["knull"] = True
            else:
                cur["k"].append(bytes.fromhex(p[2]) if len(p) > 2 and p[2] != "-" else b"")
        elif p[0] == "e":
            cur["e"] = int(p[1])
    return ops


def parse_record(chunk):
    """independent parser of one blackbox record -> dict or None"""
    try:
        lineno, tags, prio, fn_size = struct.unpack_from("<IIBI", chunk, 0)
        off = 13
        fn = chunk[off:off + fn_size]
        off += fn_size
        sec, nsec = struct.unpack_from("<qq", chunk, off)
        off += 16
        (msg_len,) = struct.unpack_from("<I", chunk, off)
        off += 4
        msg = chunk[off:off + msg_len]
        if len(fn) != fn_size or len(msg) != msg_len or off + msg_len != len(chunk):
            return None
        return {"lineno": lineno, "tags": tags, "prio": prio, "fn": fn, "ts": (sec, nsec), "msg": msg}
    except struct.error:
        return None


def monitor_bb(lines):
    """The blackbox half of C11 over the implementation log: every record is stored as logged, within its reservation;
    the blackbox never closes itself while reservations are within its size; every dump holds an unbroken run of the
    latest records ending with the very last one, at least those that fit."""
    ops = parse_bb(lines)
    S = None
    maxline = LOG_MAX_LEN
    is_open = False
    hist = []        # (reserved, record bytes, seq)
    for o in ops:
        if o["op"] == "B":
            S = int(o["args"][0])
            ml = int(o["args"][1])
            maxline = ml if ml else LOG_MAX_LEN
            hist = []
            if o["b"] is None:
                return "no result line for the blackbox set-up"
            is_open = all(x == 0 for x in o["b"])
            if not is_open and S >= 1024:
                return "setting up a blackbox of size %d failed: %r" % (S, o["b"])
        elif o["op"] == "L":
            if S is None:
                continue
            seq, lineno, tags, prio = [int(x) for x in o["args"][0:4]]
            fn = bytes.fromhex(o["args"][4]) + b"\0"
            if not is_open:
                if o["a"] is not None or o["c"] is not None:
                    return "log call #%d touched the ring although the blackbox is closed" % seq
                continue
            if o["a"] is None:
                return "log call #%d did not reserve a chunk" % seq
            alen, aerr = o["a"]
            if aerr != 0:
                if alen <= S:
                    return ("the blackbox failed to reserve %d bytes (errno %d) at log call #%d and closed itself, losing all "
                            "records, although the reservation is within the blackbox size %d" % (alen, aerr, seq, S))
                is_open = False        # configuration corner (reservation larger than the blackbox): allowed to give up
                hist = []
                continue
            if o["c"] is None or not o["s"] or o["t"] is None:
                return "log call #%d reserved a chunk but did not commit it" % seq
            clen, cbytes = o["c"]
            msg = o["s"][-1][2]
            sec, nsec = o["t"]
            want = struct.pack("<IIBI", lineno, tags, prio & 0xFF, len(fn)) + fn + struct.pack("<qq", sec, nsec) + \
                struct.pack("<I", len(msg)) + msg
            if clen > alen:
                return ("log call #%d committed %d bytes into a reservation of %d (max_line_length %d, message of %d bytes "
                        "serialised with limit %d)" % (seq, clen, alen, maxline, len(msg), o["s"][-1][0]))
            if clen != len(cbytes) or cbytes != want:
                return "log call #%d stored a record that differs from what was logged (%d bytes vs %d expected)" % (seq, clen, len(want))
            hist.append((alen, cbytes, seq))
        elif o["op"] == "D":
            if S is None:
                continue
            if not is_open:
                if o["w"] is not None and o["w"] > 0:
                    return "dump of a closed blackbox returned %d" % o["w"]
                continue
            if o["w"] is None or o["w"] <= 0:
                return "qb_log_blackbox_write_to_file failed (%r) on an open blackbox" % o["w"]
            if o["h"] != 1:
                return "dump file does not start with the blackbox file header"
            if o["knull"]:
                return "qb_rb_create_from_file rejected a dump the library wrote itself"
            got = o["k"]
            n = len(hist)
            k = len(got)
            f = first_fitting([(r, len(b)) for r, b, _ in hist], S)
            if k > n or [b for _, b, _ in hist[n - k:]] != got:
                recs = [parse_record(g) for g in got[:3]]
                return ("dump holds %d chunks that are not the latest %d records logged (first: %r)" %
                        (k, k, [(x["lineno"], x["tags"]) if x else None for x in recs]))
            if n > 0 and k == 0:
                return ("a dump taken after %d log calls contains no record at all (the read-back stopped with %r): the "
                        "latest record must always be there" % (n, o["e"]))
            if n - k > f:
                return ("dump holds only the latest %d records; the latest %d fit in the blackbox size %d (each counted with "
                        "16 bytes of overhead, the newest with its reservation)" % (k, n - f, S))
            for g in got:
                if parse_record(g) is None:
                    return "a dumped chunk does not parse as a blackbox record"
    return None


# ------------------------------------------------------------------ blackbox: execution
def execute_bb(cases, exe, model, shards=None):
    """-> (impl results, model results): the model is run on the implementation's log (it consumes the echoed concrete
    calls, the serializer oracle and the time stamps, and predicts every other line)."""
    texts = ["\n".join(c) + "\n" for c in cases]
    half = max(1, C.NCPU // 2)
    impl = run_sharded_env(exe, texts, shards or max(1, half // 2), None)
    mtexts = ["\n".join(r[0]) + "\n" for r in impl]
    mod = run_sharded_env(model, mtexts, half, {"C11_MODE": "bb"})
    return impl, mod


def run_sharded_env(exe, texts, shards, env, timeout=900):
    n = len(texts)
    if n < 8 or shards <= 1:
        return C.run_cases(exe, texts, env=env, timeout=timeout)
    order = sorted(range(n), key=lambda i: -len(texts[i]))
    buckets = [[] for _ in range(shards)]
    loads = [0] * shards
    for i in order:
        k = loads.index(min(loads))
        buckets[k].append(i)
        loads[k] += len(texts[i]) + 200
    buckets = [sorted(b) for b in buckets if b]
    out = [None] * n
    with ThreadPoolExecutor(len(buckets)) as ex:
        for b, rs in zip(buckets, ex.map(lambda b: C.run_cases(exe, [texts[i] for i in b], env=env, timeout=timeout), buckets)):
            for i, r in zip(b, rs):
                out[i] = r
    return out


def judge_bb(impl, mod):
    """-> (kind, what, detail) or None"""
    lines, crash = impl
    if crash:
        return ("impl-monitor", "implementation crashed / sanitizer report (rc=%s)" % crash[0], crash[1][-1500:])
    m = monitor_bb(lines)
    d = C.first_diff(lines, mod[0])
    if m:
        return ("impl-monitor", m, {"first_model_difference": d})
    if mod[1]:
        return ("correspondence", "model runner failed", mod[1][1])
    if d:
        return ("correspondence", "observable %d differs: impl %r model %r" % (d[0], d[1][:200], d[2][:200]),
                {"first_difference": [d[0], d[1][:400], d[2][:400]]})
    return None


# ------------------------------------------------------------------ split stage: alloc / copy / commit as separate calls
def gen_split_case(rng, nops, seqbase=0):
    """ring commands of harness/h_rbow.c (lower case).  Reservations are followed by the owner's reader operations,
    the copy (sometimes twice, the last one counts) and the commit of exactly what was copied; reads and peeks use
    ms_timeout 0, small positive values and - only where a notification is certainly pending - -1."""
    S = rng.choice(R.SIZES) if rng.random() < 0.8 else rng.randrange(1, 13000)
    ow = rng.random() < 0.5
    nosem = rng.random() < 0.4
    flags = ("o" if ow else "") + ("n" if nosem else "") or "-"
    tr = R.Tracker(S, ow)
    ops = ["o %d %s" % (S, flags)]
    seq = seqbase

    def reader(certain_token=False):
        r = rng.random()
        ms = rng.choice([0, 0, 1, 3, 50, 1000] + ([-1] if certain_token else []))
        head = tr.q[0] if tr.q else 0
        if r < 0.5:
            n = rng.choice([max(head, 1), head, head + 64, 70000, max(0, head - 1), 0])
            ops.append("r %d %d" % (n, ms))
            if tr.q and n >= head:
                tr.q.pop(0)
        elif r < 0.75:
            ops.append("p %d" % ms)
            if rng.random() < 0.7 and tr.q:
                ops.append("x")
                tr.q.pop(0)
        elif r < 0.85:
            ops.append("x")
            if tr.q:
                tr.q.pop(0)
        else:
            ops.append("d")

    for _ in range(nops):
        r = rng.random()
        if r < 0.22:
            n = R.pick_len(rng, tr)
            seq += 1
            ops.append("w %s" % R.hexs(R.payload(rng, n, seq)))
            ok = tr.write(n, n)
            if ow and not nosem and n <= S and rng.random() < 0.3:
                reader(certain_token=True)
        elif r < 0.62:
            n = R.pick_len(rng, tr)
            rlen = n + rng.choice([0, 0, 1, 3, 16, 100, 512, 600])
            seq += 1
            ops.append("a %d" % rlen)
            for _ in range(rng.choice([0, 0, 1, 2, 3])):
                reader()
            if rng.random() < 0.25:
                m = rng.randrange(0, rlen + 1)
                ops.append("f %s" % R.hexs(R.payload(rng, m, seq, "rand")))          # overwritten by the next copy
                if m > n:
                    n = m                                                          # stale tail would be committed otherwise
            body = R.payload(rng, n, seq)
            ops.append("f %s" % R.hexs(body))
            for _ in range(rng.choice([0, 0, 1, 2])):
                reader()
            ops.append("c %d" % n)
            tr.write(rlen, n)
        else:
            reader()
    ops += ["r 70000 0"] * (len(tr.q) + 2)
    ops.append("d")
    return ops


def split_to_composite(script, lines):
    """the script and log of a split case in the vocabulary of harness/h_rb.c (composite `A rlen hex' at the position of
    the commit, or of the alloc when that failed), for the monitors that state C07 / C11 -> (script, lines)"""
    vs, vl = [], []
    overwrite = "o" in script[0].split()[2]
    i = 0
    rlen = None
    fill = "-"
    failed = False

    def take(prefixes):
        nonlocal i
        out = []
        while i < len(lines) and lines[i].split(" ", 1)[0] in prefixes:
            out.append(lines[i])
            i += 1
            if out[-1].startswith("q "):
                break
        return out
    for op in script:
        p = op.split()
        c = p[0]
        if c == "o":
            vs.append("O %s %s" % (p[1], p[2]))
            vl += take(("o", "q"))
        elif c == "w":
            vs.append("W %s" % p[1])
            vl += take(("r", "q"))
        elif c == "a":
            rlen, fill, failed = int(p[1]), "-", False
            if i < len(lines) and lines[i].startswith("ra "):
                i += 1
                if overwrite:
                    vs.append("a %d" % rlen)      # the drop happens now and is visible to the reader operations
            else:
                failed = True
                vs.append("A %d -" % rlen)
                vl += take(("r", "q"))
        elif c == "f":
            fill = p[1]
        elif c == "c":
            if not failed and rlen is not None:
                vs.append("A %d %s" % (rlen, fill))
                vl += take(("r", "q"))
            rlen = None
        elif c == "r":
            vs.append("R %s" % p[1])
            vl += take(("r", "q"))
        elif c == "p":
            vs.append("P")
            vl += take(("r", "q"))
        elif c == "x":
            vs.append("X")
            vl += take(("r", "q"))
        elif c == "d":
            vs.append("D")
            vl += take(("d", "q"))
    vl += lines[i:]
    return vs, vl
