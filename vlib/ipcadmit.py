"""Helpers of props/C05.py (IPC admission): build of harness/h_ipcadmit.c, case generator, the independent monitor of
the C05 statement over the implementation's syscall/census log, execution of harness + extracted model."""
import os
import re
from vlib import common as C

WRAPS = ["open", "openat", "mkstemp", "mkdtemp", "mkdir", "chmod", "fchmod", "fchmodat", "chown", "fchown", "lchown",
         "fchownat", "unlink", "unlinkat", "rmdir", "rename", "truncate", "umask"]


def build():
    lib = C.build_lib()
    exe = C.build_harness("h_ipcadmit", ["h_ipcadmit.c"], lib=lib,
                          ldflags=["-Wl," + ",".join("--wrap=" + w for w in WRAPS)])
    return exe


def tree_variant(exe=None):
    """Which variant of the transcription is this tree?  Decided by what the tree DOES on a probe connection (the
    directory is chmod'ed 0770 right after mkdtemp = as found), not by its text."""
    exe = exe or build()
    r = C.run_cases(exe, ["svc shm 022\nstart 0 1 1 1 1\nacc\nauth 0\nkill 0\nt 0\nend\n"], timeout=60)
    lines = r[0][0]
    for i, l in enumerate(lines):
        if l.startswith("sys mkdtemp") and i + 2 < len(lines):
            return "asfound" if lines[i + 2].startswith("sys chmod d0 770") else "fixed"
    return "asfound"


def tree_inject_variant(exe=None):
    """Does this tree let a datagram of a foreign process through to msg_process (socket transport)?  Decided by what
    the tree does on the injection witness: 'open' (as found) or 'filtered' (fixes/C05-sock-request-sender-check.patch)."""
    exe = exe or build()
    r = C.run_cases(exe, ["\n".join(INJECT_WITNESS) + "\n"], timeout=60)
    return "open" if any(l.startswith("cb msg") for l in r[0][0]) else "filtered"


# ------------------------------------------------------------------ generator
IDS = [0, 1, 1000, 65534]
MODES = ["600", "660", "666", "400", "0", "640", "60", "604", "200", "700", "644", "6"]
UMASKS = ["22", "77", "0", "27", "2", "277"]
REFUSALS = [-13, -11, -1, -12, 1, -5, -107, 7]


def gen_peer(rng, slot):
    ru, rg = rng.choice(IDS), rng.choice(IDS)
    if rng.random() < 0.3:
        eu, eg = rng.choice(IDS), rng.choice(IDS)
    else:
        eu, eg = ru, rg
    refused = rng.random() < 0.35
    raw = rng.random() < (0.6 if refused else 0.1)
    dec = rng.choice(REFUSALS) if refused else 0
    beh = "beh %d" % dec
    if rng.random() < 0.55:
        au = rng.choice(IDS + [ru, eu, -1])
        ag = rng.choice(IDS + [rg, eg, -1])
        beh += " %d %d %s" % (au, ag, rng.choice(MODES))
    return {"slot": slot, "ids": (ru, rg, eu, eg), "raw": raw, "dec": dec, "beh": beh}


def gen_case(rng, npeers=None, inject=False):
    npeers = npeers or rng.choice([1, 2, 3, 4, 6, 8])
    ops = ["svc %s %s" % (rng.choice(["shm", "sock"]), rng.choice(UMASKS))]
    peers = [gen_peer(rng, s) for s in range(npeers)]
    # waves of peers connecting concurrently: start*, acc*, auth in any order (behaviour entries queued in auth order)
    todo = list(peers)
    live = []
    while todo:
        wave = [todo.pop(0) for _ in range(min(len(todo), rng.choice([1, 1, 2, 3, 4])))]
        for p in wave:
            ops.append("start %d %d %d %d %d%s" % ((p["slot"],) + p["ids"] + (" raw" if p["raw"] else "",)))
        ops += ["acc"] * len(wave)
        order = list(wave)
        rng.shuffle(order)
        for p in order:
            ops.append(p["beh"])
        fins = []
        for p in order:
            ops.append("auth %d" % p["slot"])
            if rng.random() < 0.5:
                ops.append("fin %d" % p["slot"])
            else:
                fins.append(p)
        rng.shuffle(fins)
        for p in fins:
            ops.append("fin %d" % p["slot"])
        for p in wave:
            live.append(p)
        # activity
        for _ in range(rng.choice([0, 1, 2, 4])):
            p = rng.choice(live)
            r = rng.random()
            if r < 0.5:
                if p["raw"] and p["dec"] == 0:
                    continue
                ops += ["req %d" % p["slot"]] * rng.choice([1, 1, 2, 3])
                ops.append("t %d" % p["slot"] if (p["dec"] == 0 or rng.random() < 0.5) else "tall")
            elif r < 0.6 and inject:
                # any local process - here a raw client, typically a refused one - writes to another connection
                frm = [q for q in live if q["raw"] and q is not p]
                if frm and p["dec"] == 0:
                    ops += ["inject %d %d" % (rng.choice(frm)["slot"], p["slot"]), "t %d" % p["slot"]]
            elif r < 0.8:
                ops += ["kill %d" % p["slot"], "t %d" % p["slot"]]
            else:
                ops.append("t %d" % p["slot"])
    for p in live:
        if rng.random() < 0.7:
            ops += ["kill %d" % p["slot"], "t %d" % p["slot"]]
    ops.append("end")
    return ops


INJECT_WITNESS = ["svc sock 22", "beh 0", "beh -13", "start 0 1000 1000 1000 1000", "start 1 65534 65534 65534 65534 raw",
                  "acc", "acc", "auth 0", "auth 1", "fin 0", "fin 1", "inject 1 0", "t 0", "kill 0", "t 0", "end"]


def corpus(inject=False):
    out = []
    if inject:
        out.append(INJECT_WITNESS)
        out.append([x.replace("svc sock", "svc shm") for x in INJECT_WITNESS])
    for tr in ("shm", "sock"):
        for um in ("22", "77", "0"):
            S = ["svc %s %s" % (tr, um)]
            out += [
                # default authorisation, plain life
                S + ["start 0 1000 1000 1000 1000", "acc", "auth 0", "fin 0", "req 0", "t 0", "kill 0", "t 0", "end"],
                # refusal with each error code; the refused peer keeps sending
                S + ["beh -13", "start 0 1000 1001 1000 1001 raw", "acc", "auth 0", "fin 0", "req 0", "tall", "req 0", "tall", "end"],
                S + ["beh -11", "start 0 1 1 1 1", "acc", "auth 0", "fin 0", "req 0", "tall",
                     "beh 1", "start 1 1 1 1 1", "acc", "auth 1", "fin 1", "beh -1", "start 2 0 0 0 0 raw", "acc", "auth 2", "fin 2",
                     "req 2", "tall", "end"],
                # auth_set: other owner, group-shared, stricter than 0600, nothing at all, -1 = keep
                S + ["beh 0 1 2 660", "start 0 1000 1000 1000 1000", "acc", "auth 0", "fin 0", "kill 0", "t 0", "end"],
                S + ["beh 0 1000 1000 400", "start 0 1000 1000 1000 1000", "acc", "auth 0", "fin 0", "kill 0", "t 0", "end"],
                S + ["beh 0 1000 1000 0", "start 0 1000 1000 1000 1000", "acc", "auth 0", "fin 0", "t 0", "end"],
                S + ["beh 0 -1 1000 660", "start 0 1000 1000 1000 1000", "acc", "auth 0", "fin 0", "req 0", "t 0", "kill 0", "t 0", "end"],
                S + ["beh 0 65534 65534 666", "start 0 1 1 1 1", "acc", "auth 0", "fin 0", "req 0", "t 0", "kill 0", "t 0", "end"],
                # effective ids differ from the real ones (what does the kernel report?)
                S + ["start 0 0 0 65534 65534", "acc", "auth 0", "fin 0", "kill 0", "t 0",
                     "start 1 1000 1000 0 0", "acc", "auth 1", "fin 1", "req 1", "t 1", "kill 1", "t 1", "end"],
                # accepted and refused peers connecting concurrently, answered in the other order
                S + ["start 0 1000 1000 1000 1000", "start 1 1 1 1 1 raw", "start 2 65534 65534 65534 65534", "acc", "acc", "acc",
                     "beh 0 65534 1 640", "beh -13", "beh 0", "auth 2", "auth 1", "auth 0", "fin 0", "fin 1", "fin 2",
                     "req 1", "tall", "req 0", "t 0", "req 2", "t 2", "kill 2", "t 2", "kill 0", "t 0", "end"],
            ]
    return out


# ------------------------------------------------------------------ execution
def execute(cases, exe, model, variant, inj="open"):
    texts = ["\n".join(c) + "\n" for c in cases]
    impl = C.run_cases(exe, texts, timeout=900)
    mcases = ["\n".join(lines) + "\n" for lines, crash in impl]
    mod = C.run_cases(model, mcases, timeout=900, env={"C05_VARIANT": variant, "C05_INJECT": inj})
    if any(crash for _, crash in impl):
        sweep_residue()
    return impl, mod


def comparable(lines):
    """Lines both sides produce.  The harness' tear-down of whatever is left at 'end' is monitored, not modelled:
    between 'op end' and the final 'fs' / 'end' lines nothing is compared; 'srv' is an input of the monitor."""
    out = []
    in_end = False
    for i, l in enumerate(lines):
        if l.startswith("srv "):
            continue
        if in_end:
            if l.startswith("end "):
                out.append("fs" if lines[i - 1] == "fs" else lines[i - 1])
                out.append(l)
            continue
        out.append(l)
        if l == "op end":
            in_end = True
    return out


# ------------------------------------------------------------------ monitor: the C05 statement over the implementation log
def keep(new, old):
    return old if new == -1 else new


def dirmode(m):
    return m | ((m & 0o444) >> 2) | ((m & 0o222) >> 1)


def monitor(lines, crash):
    """Independent of the model.  Returns a list of (class, text); class None = not one of the listed findings.
    (1) the ids given to the accept callback are the connecting process' ids as the kernel reports them (real ids on
        Linux; effective ids accepted as well - the property's wording);
    (2) a refused peer: connect returns the callback's value, after the server's step no object of the connection
        exists, the channel count did not grow, created / msg are never invoked for it;
    (3) every census line (= after every file-system call): each object of connection k is either still private to the
        server's user (its uid, no group/other bits) or - only after an accepting callback - owned by the authorised
        uid:gid with mode within the authorised mode (directory: search bit wherever read or write is allowed);
    (4) msg_process only for connections that were accepted; no unknown objects, no residue, no descriptor leak."""
    bad = []
    if crash:
        rc, tail = crash
        m = re.search(r"ERROR: AddressSanitizer: ([\w-]+)", tail) or re.search(r"runtime error: (.*)", tail)
        return [(None, "implementation crashed / sanitizer report rc=%s %s" % (rc, m.group(1) if m else tail[-200:]))]
    srv = (0, 0)
    behs = []
    slots = {}
    cur_slot = None
    conn = {}          # ordinal -> dict(slot, dec, auth, accepted_cb)
    chan = 0
    tr = None
    last_op = None
    foreign, own = {}, {}      # per connection: requests queued by other processes / by its own peer
    for i, l in enumerate(lines):
        w = l.split()
        if l.startswith("op "):
            last_op = w[1:]
            if w[1] == "svc":
                tr = w[2]
                behs, slots, conn, chan = [], {}, {}, 0
                foreign, own = {}, {}
            elif w[1] == "beh":
                a = None
                if len(w) == 6:
                    a = (int(w[3]), int(w[4]), int(w[5], 8))
                behs.append((int(w[2]), a))
            elif w[1] == "start":
                slots[int(w[2])] = {"real": (int(w[3]), int(w[4])), "eff": (int(w[5]), int(w[6])), "raw": len(w) > 7,
                                    "ord": None}
            elif w[1] in ("auth", "t", "fin", "req", "kill"):
                cur_slot = int(w[2])
            continue
        if l.startswith("injected ") and w[2] == "ok" and last_op and last_op[0] == "inject":
            frm, vic = slots.get(int(last_op[1])), slots.get(int(last_op[2]))
            if vic and vic["ord"] is not None:
                # requests that are not the victim peer's own are now queued at its connection
                foreign[vic["ord"]] = foreign.get(vic["ord"], 0) + 1
            continue
        if l.startswith("sent ") and w[2] == "ok":
            sl = slots.get(int(w[1]))
            if sl and sl["ord"] is not None and not sl["raw"]:
                own[sl["ord"]] = own.get(sl["ord"], 0) + 1
            continue
        if l.startswith("srv "):
            srv = (int(w[1]), int(w[2]))
        elif l.startswith("UNKNOWN-OBJECT") or "pids=WRONG" in l:
            bad.append((None, "line %d: %s" % (i, l)))
        elif l.startswith("sys mkdtemp") or l.startswith("sys mkdir"):
            k = int(w[2][1:]) if w[2].startswith("d") and w[2][1:].isdigit() else None
            if k is not None:
                conn[k] = {"slot": cur_slot, "dec": None, "auth": None, "cb": False, "chan_before": chan}
                if cur_slot in slots:
                    slots[cur_slot]["ord"] = k
        elif l.startswith("cb accept"):
            k, u, g = int(w[2]), int(w[3]), int(w[4])
            c = conn.setdefault(k, {"slot": cur_slot, "dec": None, "auth": None, "cb": False, "chan_before": chan})
            dec, a = behs.pop(0) if behs else (0, None)
            c["dec"], c["cb"] = dec, True
            sl = slots.get(c["slot"])
            if sl:
                if (u, g) != sl["real"] and (u, g) != sl["eff"]:
                    bad.append((None, "line %d: accept callback got uid %d gid %d; the peer's real ids are %s, effective %s"
                                % (i, u, g, sl["real"], sl["eff"])))
                sl["scm"] = (u, g)
            c["auth"] = a if a is not None else (u, g, 0o600)
        elif l.startswith("cb created") or l.startswith("cb msg"):
            k = int(w[2])
            c = conn.get(k)
            if c is None or not c["cb"] or c["dec"] != 0:
                bad.append((None, "line %d: %s for a connection that was not accepted" % (i, l)))
            elif l.startswith("cb msg"):
                if own.get(k, 0) > 0:
                    own[k] -= 1
                elif foreign.get(k, 0) > 0:
                    foreign[k] -= 1
                    bad.append(("C05-sock-dgram-injection", "line %d: msg_process of connection %d invoked for a request "
                                "sent by a process that is not its peer (datagram to the connection's abstract request "
                                "address)" % (i, k)))
                else:
                    bad.append((None, "line %d: msg_process of connection %d invoked although its peer sent nothing" % (i, k)))
        elif l.startswith("chan "):
            n = int(w[1])
            if last_op and last_op[0] == "auth":
                sl = slots.get(int(last_op[1]))
                k = sl["ord"] if sl else None
                c = conn.get(k)
                if c and c["cb"] and c["dec"] != 0 and n > c["chan_before"]:
                    bad.append((None, "line %d: a channel exists after the accept callback refused connection %d" % (i, k)))
                # residue of a refused connection: looked at in the census below (census at the next fs line / end)
                if c and c["cb"] and c["dec"] != 0:
                    c["must_be_gone"] = True
            chan = n
        elif l.startswith("connect "):
            s = int(w[1])
            sl = slots.get(s)
            c = conn.get(sl["ord"]) if sl and sl["ord"] is not None else None
            if c and c["cb"] and c["dec"] != 0 and w[2] != str(c["dec"]):
                bad.append((None, "line %d: refused with %d but the client's connect returned %s" % (i, c["dec"], w[2])))
        elif l.startswith("end "):
            if w[1] != "0" or w[2] != "0":
                bad.append((None, "line %d: residue after tear-down: %s object(s) left, descriptor delta %s" % (i, w[1], w[2])))
        elif l.startswith("fs"):
            for ent in w[1:]:
                name, uid, gid, mode, kind = ent.rsplit(":", 4)
                uid, gid, mode = int(uid), int(gid), int(mode, 8)
                k = int(name.split("/")[0][1:])
                c = conn.get(k)
                isdir = "/" not in name
                if "?" in name or kind not in "df" or (kind == "d") != isdir:
                    bad.append((None, "line %d: unexpected object %s" % (i, ent)))
                    continue
                if c is not None and c.get("must_be_gone"):
                    bad.append((None, "line %d: %s remains although connection %d was refused" % (i, ent, k)))
                    continue
                if uid == srv[0] and (mode & ~0o700) == 0:
                    continue      # still private to the server's user
                a = c["auth"] if c is not None and c["cb"] and c["dec"] == 0 else None
                if a is not None:
                    allowed = dirmode(a[2]) if isdir else a[2]
                    if uid == keep(a[0], srv[0]) and gid == keep(a[1], srv[1]) and (mode & ~allowed) == 0:
                        continue
                # classify
                cls = None
                if isdir:
                    cls = "C05-dir-0770-peer-owned"
                    if a is not None and tr == "sock" and (mode & ~dirmode(a[2])) == 0:
                        cls = "C05-sock-dir-owner"
                elif a is not None and uid == keep(a[0], srv[0]) and gid == keep(a[1], srv[1]) and (mode & ~(0o600 | a[2])) == 0:
                    cls = "C05-mode-window"
                elif a is not None and (mode & ~0o600) == 0 and (uid, gid) != (keep(a[0], srv[0]), keep(a[1], srv[1])):
                    cls = "C05-mode-window"     # data file chowned, header not yet (0600 either way)
                why = "before any authorisation" if a is None else "authorised %d:%d mode %o" % a
                bad.append((cls, "line %d (after %r): %s is uid %d gid %d mode %o - %s" %
                            (i, lines[i - 1][:60], name, uid, gid, mode, why)))
    if lines and not lines[-1].startswith("end "):
        bad.append((None, "log ends without the tear-down summary"))
    return bad


def judge(impl, mod, known_ids=()):
    """-> None | (kind, what, detail, known_classes_hit)"""
    lines, crash = impl
    bad = monitor(lines, crash)
    new = [b for b in bad if b[0] is None or b[0] not in known_ids]
    hits = sorted(set(b[0] for b in bad if b[0] is not None and b[0] in known_ids))
    d = C.first_diff(comparable(lines), comparable(mod[0]))
    if new:
        return ("impl-monitor", new[0][1], {"all": [b[1] for b in new[:8]], "classes": sorted(set(str(b[0]) for b in new)),
                                            "first_model_difference": d}, hits)
    if mod[1]:
        return ("correspondence", "model runner failed", mod[1][1][-800:], hits)
    if d:
        return ("correspondence", "observable %d differs: impl %r model %r" % d, {"first_difference": d}, hits)
    if hits:
        return ("known", "", {}, hits)
    return None


def sweep_residue():
    """A harness process that was killed cannot tidy up: remove /dev/shm directories of lab services (files named
    ...-va<pid>_<n>...) whose server process is gone, so that a later process with a recycled pid does not inherit them."""
    import shutil
    try:
        names = os.listdir("/dev/shm")
    except OSError:
        return
    for d in names:
        m = re.match(r"qb-(\d+)-\d+-\d+-\w{6}$", d)
        if not m or os.path.exists("/proc/%s" % m.group(1)):
            continue
        p = os.path.join("/dev/shm", d)
        try:
            inner = os.listdir(p)
            if inner and all(("-va%s_" % m.group(1)) in f for f in inner):
                shutil.rmtree(p, ignore_errors=True)
        except OSError:
            pass


# ------------------------------------------------------------------ fault sweep (implementation side only)
def fault_cases(errnos, kmax=44):
    """One admission per case with the k-th creating / chmod / chown call made to fail (harness op failnext):
    exhaustive over k for both transports; a k beyond the last call is a plain admission."""
    out = []
    for tr in ("shm", "sock"):
        for e in errnos:
            for k in range(1, (kmax if tr == "shm" else 12) + 1):
                out.append(["svc %s 22" % tr, "beh 0 1000 1000 660", "start 0 1000 1000 1000 1000", "acc",
                            "failnext %d %d" % (k, e), "auth 0", "fin 0", "kill 0", "t 0", "end"])
    return out


def monitor_fault(lines, crash):
    """ADMISSION IS ATOMIC UNDER A FAILING FILE-SYSTEM CALL: after the server's step either the connection is
    established, or nothing of it is left in the file system and the client's connect fails; never a crash, residue or
    descriptor leak.  (Whether the objects of an established connection have the authorised owner when a chown was made
    to fail is the non-root case of Properties: not judged here.)  -> (message | None, what-happened)"""
    if crash:
        return ("implementation crashed / sanitizer report rc=%s %s" % (crash[0], crash[1][-300:]), "crash")
    injected = [l for l in lines if "injected-failure" in l]
    est = None
    last_fs = None
    in_auth = False
    res = None
    for l in lines:
        if l.startswith("op "):
            in_auth = l.startswith("op auth")
        elif l.startswith("fs") and in_auth:
            last_fs = l
        elif l.startswith("chan ") and in_auth:
            est = l.split()[1] == "1"
        elif l.startswith("connect "):
            res = l.split()[2]
    if not lines or not lines[-1].startswith("end "):
        return ("log ends without the tear-down summary", "broken")
    if lines[-1] != "end 0 0":
        return ("residue / descriptor leak after tear-down: %s (injected: %s)" % (lines[-1], injected), "residue")
    if est is None or res is None:
        return ("the admission step did not complete", "broken")
    if not injected:
        return (None, "no-failure")
    what = injected[0].split()[1]
    if est:
        return (None, "ignored:" + what)
    if last_fs is not None and last_fs.strip() != "fs":
        return ("after a failing %s the connection is not established but objects remain: %s" % (what, last_fs), "residue")
    if res == "0":
        return ("after a failing %s the connection is not established but the client's connect returned 0" % what, "connect")
    return (None, "refused:" + what)
