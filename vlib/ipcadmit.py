"""Helpers of props/C05.py (IPC admission): build of harness/h_ipcadmit.c, case generator, the independent monitor of
the C05 statement over the implementation's syscall/census log, execution of harness + extracted model."""
import os
import re
from vlib import common as C

WRAPS = ["open", "openat", "mkstemp", "mkdtemp", "mkdir", "chmod", "fchmod", "fchmodat", "chown", "fchown", "lchown",
         "fchownat", "unlink", "unlinkat", "rmdir", "rename", "truncate", "umask"]


def build():
    lib = C.build_lib()
    exe = C.build_harness("h_ipcadmit", ["h_ipcadmit.c"], lib=lib,
                          ldflags=["-Wl," + ",".join("--wrap=" + w for w in WRAPS)])
    return exe
